//! Concretisation material of the session engines (after h_crypto/src/mint.rs): deterministic byte streams, RSA keys (generated once,
//! cached as PEM under $VERIF_OUT/keys), certificates minted with the openssl crate, scratch directories.
#![allow(dead_code)]
use opcua::crypto::{PrivateKey, X509};
use openssl::asn1::Asn1Time;
use openssl::hash::{hash, MessageDigest};
use openssl::pkey::PKey;
use openssl::rsa::Rsa;
use openssl::x509::extension::{ExtendedKeyUsage, KeyUsage, SubjectAlternativeName};
use openssl::x509::{X509Builder, X509NameBuilder};
use std::cell::RefCell;
use std::collections::HashMap;
use std::path::PathBuf;

pub fn out_dir() -> PathBuf {
    PathBuf::from(std::env::var("VERIF_OUT").unwrap_or_else(|_| "/verif/out".into()))
}

pub fn seed() -> u64 {
    std::env::var("VERIF_SEED").ok().and_then(|s| s.parse().ok()).unwrap_or(1)
}

/// Deterministic byte stream: SHA-256 in counter mode over (VERIF_SEED, tag); only bytes accepted by `keep`.
pub fn stream(tag: &str, n: usize, keep: impl Fn(u8) -> bool) -> Vec<u8> {
    let mut out = Vec::with_capacity(n);
    let mut ctr = 0u64;
    while out.len() < n {
        let block = hash(MessageDigest::sha256(), format!("{}|{}|{}", seed(), tag, ctr).as_bytes()).unwrap();
        for b in block.iter() {
            if out.len() < n && keep(*b) {
                out.push(*b);
            }
        }
        ctr += 1;
    }
    out
}

thread_local! {
    static KEYS: RefCell<HashMap<String, Vec<u8>>> = RefCell::new(HashMap::new());
}

/// PEM of an RSA key of `bits` named `name`; generated at most once (per name) and cached on disk.
pub fn rsa_pem(bits: u32, name: &str) -> Vec<u8> {
    let id = format!("rsa-{}-{}", bits, name);
    if let Some(p) = KEYS.with(|k| k.borrow().get(&id).cloned()) {
        return p;
    }
    let dir = out_dir().join("session-keys");
    let _ = std::fs::create_dir_all(&dir);
    let path = dir.join(format!("{}.pem", id));
    let pem = match std::fs::read(&path) {
        Ok(p) if PKey::private_key_from_pem(&p).map(|k| k.bits() == bits).unwrap_or(false) => p,
        _ => {
            let rsa = Rsa::generate(bits).expect("rsa generate");
            let pem = PKey::from_rsa(rsa).unwrap().private_key_to_pem_pkcs8().unwrap();
            let tmp = dir.join(format!("{}.pem.{}", id, std::process::id()));
            std::fs::write(&tmp, &pem).expect("write key");
            std::fs::rename(&tmp, &path).expect("rename key");
            pem
        }
    };
    KEYS.with(|k| k.borrow_mut().insert(id, pem.clone()));
    pem
}

pub fn rsa_key(bits: u32, name: &str) -> PrivateKey {
    PrivateKey::from_pem(&rsa_pem(bits, name)).expect("cached key")
}

pub struct CertSpec<'a> {
    pub cn: &'a str,
    pub uri: &'a str,
    pub dns: &'a [&'a str],
    /// ASN.1 times "YYYYMMDDHHMMSSZ"
    pub not_before: &'a str,
    pub not_after: &'a str,
    pub serial: u32,
}

/// Self-signed application instance certificate for the key, built directly with the openssl crate (fixed validity
/// period, no wall clock).
pub fn mint_cert(key_pem: &[u8], s: &CertSpec) -> X509 {
    let pkey = PKey::private_key_from_pem(key_pem).unwrap();
    let mut b = X509Builder::new().unwrap();
    b.set_version(2).unwrap();
    let mut name = X509NameBuilder::new().unwrap();
    name.append_entry_by_text("CN", s.cn).unwrap();
    name.append_entry_by_text("O", "verif").unwrap();
    name.append_entry_by_text("C", "IE").unwrap();
    let name = name.build();
    b.set_subject_name(&name).unwrap();
    b.set_issuer_name(&name).unwrap();
    b.append_extension(KeyUsage::new().digital_signature().non_repudiation().key_encipherment().data_encipherment().key_cert_sign().build().unwrap()).unwrap();
    b.append_extension(ExtendedKeyUsage::new().client_auth().server_auth().build().unwrap()).unwrap();
    b.set_not_before(&Asn1Time::from_str(s.not_before).unwrap()).unwrap();
    b.set_not_after(&Asn1Time::from_str(s.not_after).unwrap()).unwrap();
    b.set_pubkey(&pkey).unwrap();
    let serial = openssl::bn::BigNum::from_u32(s.serial).unwrap().to_asn1_integer().unwrap();
    b.set_serial_number(&serial).unwrap();
    let mut san = SubjectAlternativeName::new();
    san.uri(s.uri);
    for d in s.dns {
        san.dns(d);
    }
    let san = san.build(&b.x509v3_context(None, None)).unwrap();
    b.append_extension(san).unwrap();
    b.sign(&pkey, MessageDigest::sha256()).unwrap();
    X509::from(b.build())
}

pub fn default_cert(bits: u32, name: &str) -> (X509, PrivateKey) {
    let pem = rsa_pem(bits, name);
    let cn = format!("verif {} {}", name, bits);
    let cert = mint_cert(
        &pem,
        &CertSpec { cn: &cn, uri: "urn:verif:app", dns: &["verifhost"], not_before: "20000101000000Z", not_after: "20991231235959Z", serial: 7 },
    );
    (cert, PrivateKey::from_pem(&pem).unwrap())
}

