//! The server under test for the session engines: one real `Server` per process with endpoints of five user-token
//! configurations (each on policy None and on Basic256Sha256/SignAndEncrypt), and socket-less connections that do the
//! real HELLO / OpenSecureChannel handshake, so that the secure channel ids are the ones the server hands out.
#![allow(dead_code)]
use crate::mint;
use crate::srv::{Conn, Srv};
use opcua::core::comms::prelude::*;
use opcua::core::supported_message::SupportedMessage;
use opcua::crypto::{PrivateKey, SecurityPolicy, X509};
use opcua::server::comms::transport::Transport;
use opcua::server::config::{ServerEndpoint, ServerUserToken, ANONYMOUS_USER_TOKEN_ID};
use opcua::server::prelude::*;
use opcua::server::session::Session;
use opcua::sync::RwLock;
use std::collections::HashMap;
use std::sync::Arc;

pub const BASE: &str = "opc.tcp://127.0.0.1:4855";
pub const ENC: SecurityPolicy = SecurityPolicy::Basic256Sha256;
/// one abstract time unit (ms) and the session timeout asked for an abstract timeout of 2 ("between 2 and 3 units"): real
/// time spent by a case (milliseconds) never gets near the 10 s margins
pub const UNIT_MS: f64 = 20000.0;
pub const TIMEOUT_MS: f64 = 50000.0;

pub struct World {
    pub srv: Srv,
    pub client: (X509, PrivateKey),
    /// x509 user identities: x1 (configured for /x509 and /mixed), x2 (configured for /other only), x3 (not configured)
    pub users: HashMap<&'static str, (X509, PrivateKey)>,
    pub server_cert: X509,
    pub var: NodeId,
}

fn tag() -> String {
    std::env::var("VERIF_PKI_TAG").unwrap_or_else(|_| "session".into())
}

fn user_cert(name: &str) -> (X509, PrivateKey) {
    let pem = mint::rsa_pem(2048, name);
    let cn = format!("verif user {}", name);
    let uri = format!("urn:verif:user:{}", name);
    let cert = mint::mint_cert(
        &pem,
        &mint::CertSpec { cn: &cn, uri: &uri, dns: &["verifhost"], not_before: "20000101000000Z", not_after: "20991231235959Z", serial: 11 },
    );
    (cert, PrivateKey::from_pem(&pem).unwrap())
}

impl World {
    pub fn new() -> World {
        let out = mint::out_dir();
        let udir = out.join(format!("session-users-{}", tag()));
        let _ = std::fs::create_dir_all(&udir);
        let mut users = HashMap::new();
        for n in ["x1", "x2", "x3"] {
            let (c, k) = user_cert(n);
            let der = c.to_der().expect("der");
            let p = udir.join(format!("{}.der", n));
            if std::fs::read(&p).map(|d| d != der).unwrap_or(true) {
                std::fs::write(&p, &der).expect("write user cert");
            }
            users.insert(n, (c, k));
        }
        let ids = |v: &[&str]| v.iter().map(|s| s.to_string()).collect::<Vec<String>>();
        let cfgs: Vec<(&str, Vec<String>)> = vec![
            ("anon", ids(&[ANONYMOUS_USER_TOKEN_ID])),
            ("user", ids(&["u1", "u3"])),
            ("x509", ids(&["x1"])),
            ("mixed", ids(&[ANONYMOUS_USER_TOKEN_ID, "u1", "u3", "x1"])),
            ("none", ids(&[])),
            ("other", ids(&["u2", "x2"])),
        ];
        let mut eps = Vec::new();
        for (name, tokens) in &cfgs {
            let path = format!("/{}", name);
            eps.push((format!("{}-none", name), ServerEndpoint::new(path.clone(), SecurityPolicy::None, MessageSecurityMode::None, tokens)));
            eps.push((format!("{}-enc", name), ServerEndpoint::new(path, ENC, MessageSecurityMode::SignAndEncrypt, tokens)));
        }
        let b = ServerBuilder::new()
            .application_name("verif session server")
            .application_uri("urn:verif:session-server")
            .product_uri("urn:verif:session-server")
            .create_sample_keypair(true)
            .certificate_path("own/cert.der")
            .private_key_path("private/private.pem")
            .pki_dir(out.join(format!("session-pki-{}", tag())))
            .host_and_port("127.0.0.1", 4855)
            .discovery_urls(vec!["/mixed".into()])
            .discovery_server_url(None)
            .clients_can_modify_address_space()
            .trust_client_certs()
            .user_token("u1", ServerUserToken::user_pass("alice", "pw-alice"))
            .user_token("u2", ServerUserToken::user_pass("bob", "pw-bob"))
            .user_token("u3", ServerUserToken::user_pass("carol", ""))
            .user_token("x1", ServerUserToken::x509("xavier", &udir.join("x1.der")))
            .user_token("x2", ServerUserToken::x509("yves", &udir.join("x2.der")))
            .endpoints(eps);
        let srv = Srv::from_builder(b);
        let var = NodeId::new(2, "session-var");
        {
            let a = srv.server.address_space();
            let mut a = a.write();
            let _ = VariableBuilder::new(&var, "session-var", "")
                .data_type(DataTypeId::Int32)
                .organized_by(ObjectId::ObjectsFolder)
                .value(0i32)
                .writable()
                .insert(&mut a);
        }
        let server_cert = {
            let st = srv.server.server_state();
            let st = st.read();
            st.server_certificate.clone().expect("server certificate")
        };
        let client = {
            let pem = mint::rsa_pem(2048, "client");
            let cert = mint::mint_cert(
                &pem,
                &mint::CertSpec { cn: "verif client", uri: "urn:verif:client", dns: &["verifhost"], not_before: "20000101000000Z", not_after: "20991231235959Z", serial: 5 },
            );
            (cert, PrivateKey::from_pem(&pem).unwrap())
        };
        World { srv, client, users, server_cert, var }
    }

    pub fn var_value(&self) -> i64 {
        let a = self.srv.server.address_space();
        let a = a.read();
        match a.get_variable_value(self.var.clone()) {
            Ok(dv) => match dv.value {
                Some(Variant::Int32(v)) => v as i64,
                _ => -1,
            },
            Err(_) => -2,
        }
    }

    /// total number of subscriptions over all sessions the server holds
    pub fn subscription_count(&self, any: &Conn) -> usize {
        let sm = any.t.session_manager();
        let sm = sm.read();
        sm.sessions.values().map(|s| s.read().verif_subscriptions().subscriptions.len()).sum()
    }
}

/// A client connection: the server side transport plus the client side of the secure channel used to encode chunks.
pub struct Link {
    pub c: Conn,
    cli: SecureChannel,
    seq: u32,
    req: u32,
    pub secure: bool,
}

impl Link {
    /// connect, HELLO, OpenSecureChannel(Issue) on policy None; for `secure` the channel is then switched to
    /// Basic256Sha256 / SignAndEncrypt (services are dispatched decoded, so only the endpoint selection depends on it)
    pub fn open(w: &World, secure: bool, path: &str) -> Option<Link> {
        let mut c = w.srv.connect();
        let cli = SecureChannel::new(w.srv.server.certificate_store(), Role::Client, DecodingOptions::default());
        let hello = HelloMessage::new(&format!("{}{}", BASE, path), 65535, 65535, 0, 0);
        let (r, _o) = c.t.verif_hello(hello);
        if r.is_err() {
            return None;
        }
        let mut l = Link { c, cli, seq: 0, req: 0, secure };
        if l.open_channel() {
            Some(l)
        } else {
            None
        }
    }

    fn set_policy(&self, secure: bool) {
        let sc = self.c.t.verif_secure_channel();
        let mut sc = sc.write();
        if secure {
            sc.set_security_policy(ENC);
            sc.set_security_mode(MessageSecurityMode::SignAndEncrypt);
        } else {
            sc.set_security_policy(SecurityPolicy::None);
            sc.set_security_mode(MessageSecurityMode::None);
        }
    }

    /// a real OpenSecureChannel(Issue): the server assigns the channel id
    pub fn open_channel(&mut self) -> bool {
        self.set_policy(false);
        self.req += 1;
        self.seq += 1;
        let msg: SupportedMessage = OpenSecureChannelRequest {
            request_header: self.c.header(),
            client_protocol_version: 0,
            request_type: SecurityTokenRequestType::Issue,
            security_mode: MessageSecurityMode::None,
            client_nonce: ByteString::null(),
            requested_lifetime: 600000,
        }
        .into();
        let chunk = match Chunker::encode(self.seq, self.req, 0, 0, &self.cli, &msg) {
            Ok(mut v) if !v.is_empty() => v.remove(0),
            _ => return false,
        };
        let (r, o) = self.c.t.verif_chunk(chunk);
        let mut ok = false;
        if r.is_ok() {
            for (_, m) in o {
                if let SupportedMessage::OpenSecureChannelResponse(resp) = m {
                    self.cli.set_secure_channel_id(resp.security_token.channel_id);
                    ok = true;
                }
            }
        }
        self.set_policy(self.secure);
        ok
    }

    pub fn chan_id(&self) -> u32 {
        let sc = self.c.t.verif_secure_channel();
        let sc = sc.read();
        sc.secure_channel_id()
    }

    pub fn find_session(&self, token: &NodeId) -> Option<Arc<RwLock<Session>>> {
        let sm = self.c.t.session_manager();
        let sm = sm.read();
        sm.find_session_by_token(token)
    }

    pub fn holds(&self, session_id: &NodeId) -> bool {
        let sm = self.c.t.session_manager();
        let sm = sm.read();
        sm.sessions.contains_key(session_id)
    }
}

pub fn class_of(m: &SupportedMessage) -> (&'static str, String) {
    match m {
        SupportedMessage::ServiceFault(f) => ("fault", f.response_header.service_result.name().to_string()),
        SupportedMessage::Invalid(_) => ("none", "".into()),
        _ => ("ok", "Good".into()),
    }
}
