//! Engine `session` (C19, C20 histories): request histories through the real `MessageHandler` of a real server.
//! case: {"case":n, "secure":bool, "nconns":2, "nslots":2, "steps":[{ev, conn, tok, kind, cred, g, ...}]}
use crate::mint;
use crate::util::*;
use crate::world::*;
use crate::Obs;
use opcua::core::supported_message::SupportedMessage;
use opcua::crypto::{self, SecurityPolicy};
use opcua::server::prelude::*;
use opcua::server::session::Session;
use opcua::sync::RwLock;
use serde_json::{json, Value};
use std::collections::HashMap;
use std::str::FromStr;
use std::sync::Arc;

static WRITES: std::sync::atomic::AtomicI32 = std::sync::atomic::AtomicI32::new(0);

thread_local! {
    pub static WORLD: World = World::new();
}

pub struct Slot {
    /// revised session timeout in abstract units
    pub tmo: i64,
    pub token: NodeId,
    pub session_id: NodeId,
    pub handle: Arc<RwLock<Session>>,
    /// session nonces by generation: [CreateSession, 1st successful ActivateSession, ...]
    pub nonces: Vec<ByteString>,
    pub userpass_policy: UAString,
    pub x509_policy: UAString,
    pub x509_security: SecurityPolicy,
    /// identity tokens already sent, so that a replay is byte-identical
    cache: HashMap<String, (ExtensionObject, SignatureData)>,
}

pub fn ext<T: BinaryEncoder<T>>(id: ObjectId, v: &T) -> ExtensionObject {
    ExtensionObject::from_encodable(id, v)
}

/// signature over (server certificate || nonce) also when the nonce is empty (create_signature_data gives up then)
pub fn sign(key: &crypto::PrivateKey, policy: SecurityPolicy, cert: &[u8], nonce: &[u8]) -> SignatureData {
    let mut data = cert.to_vec();
    data.extend_from_slice(nonce);
    let mut sig = vec![0u8; key.size()];
    match policy.asymmetric_sign(key, &data, &mut sig) {
        Ok(_) => SignatureData { algorithm: UAString::from(policy.asymmetric_signature_algorithm()), signature: ByteString::from(&sig) },
        Err(_) => SignatureData::null(),
    }
}

pub fn create_session(w: &World, l: &mut Link, path: &str, timeout_ms: f64) -> (SupportedMessage, Option<Slot>) {
    l.c.token = NodeId::null();
    let req = CreateSessionRequest {
        request_header: l.c.header(),
        client_description: ApplicationDescription::default(),
        server_uri: UAString::null(),
        endpoint_url: UAString::from(format!("{}{}", BASE, path)),
        session_name: UAString::from("verif"),
        client_nonce: if l.secure { ByteString::from(mint::stream("client-nonce", 32, |_| true)) } else { ByteString::null() },
        client_certificate: if l.secure { w.client.0.as_byte_string() } else { ByteString::null() },
        requested_session_timeout: timeout_ms,
        max_response_message_size: 0,
    };
    let resp = l.c.call1(req.into());
    let slot = if let SupportedMessage::CreateSessionResponse(ref r) = resp {
        let policy = if l.secure { ENC } else { SecurityPolicy::None };
        let mut userpass_policy = UAString::null();
        let mut x509_policy = UAString::null();
        let mut x509_security = SecurityPolicy::Basic128Rsa15;
        for e in r.server_endpoints.clone().unwrap_or_default() {
            if e.security_policy_uri.as_ref() == policy.to_uri() && e.endpoint_url.as_ref().ends_with(path) {
                for t in e.user_identity_tokens.unwrap_or_default() {
                    match t.token_type {
                        UserTokenType::UserName => userpass_policy = t.policy_id.clone(),
                        UserTokenType::Certificate => {
                            x509_policy = t.policy_id.clone();
                            x509_security = SecurityPolicy::from_str(t.security_policy_uri.as_ref()).unwrap_or(SecurityPolicy::Basic128Rsa15);
                        }
                        _ => {}
                    }
                }
            }
        }
        l.find_session(&r.authentication_token).map(|handle| Slot {
            tmo: (r.revised_session_timeout / UNIT_MS).floor() as i64,
            token: r.authentication_token.clone(),
            session_id: r.session_id.clone(),
            handle,
            nonces: vec![r.server_nonce.clone()],
            userpass_policy,
            x509_policy,
            x509_security,
            cache: HashMap::new(),
        })
    } else {
        None
    };
    (resp, slot)
}

pub struct Ident<'a> {
    pub kind: &'a str,       // anon | user | userenc | x509 | raw
    pub policy_id: UAString,
    pub user: &'a str,
    pub pass: &'a str,
    pub nonce: ByteString,   // the nonce the token is made for
    pub enc_alg: &'a str,    // declared encryption algorithm uri
    pub enc_pad: Option<crypto::RsaPadding>, // padding really used (None = plain text)
    pub cert: &'a str,       // x1 | x2 | x3
    pub signer: &'a str,     // whose key signs
    pub sig: &'a str,        // ok | corrupt | null
    pub raw: Option<ExtensionObject>,
}

pub fn identity(w: &World, slot: &Slot, id: &Ident) -> (ExtensionObject, SignatureData) {
    match id.kind {
        "anon" => (
            ext(ObjectId::AnonymousIdentityToken_Encoding_DefaultBinary, &AnonymousIdentityToken { policy_id: id.policy_id.clone() }),
            SignatureData::null(),
        ),
        "user" | "userenc" => {
            let (password, alg) = match id.enc_pad {
                None => (ByteString::from(id.pass.as_bytes()), if id.enc_alg.is_empty() { UAString::null() } else { UAString::from(id.enc_alg) }),
                Some(pad) => (
                    crypto::legacy_password_encrypt(id.pass, id.nonce.as_ref(), &w.server_cert, pad).unwrap_or_else(|_| ByteString::null()),
                    UAString::from(id.enc_alg),
                ),
            };
            (
                ext(
                    ObjectId::UserNameIdentityToken_Encoding_DefaultBinary,
                    &UserNameIdentityToken { policy_id: id.policy_id.clone(), user_name: UAString::from(id.user), password, encryption_algorithm: alg },
                ),
                SignatureData::null(),
            )
        }
        "x509" => {
            let cert = &w.users[id.cert].0;
            let key = &w.users[id.signer].1;
            let mut s = match id.sig {
                "null" => SignatureData::null(),
                _ => sign(key, slot.x509_security, w.server_cert.as_byte_string().as_ref(), id.nonce.as_ref()),
            };
            if id.sig == "corrupt" {
                if let Some(ref mut v) = s.signature.value {
                    let n = v.len();
                    v[n / 2] ^= 0x40;
                }
            }
            (
                ext(ObjectId::X509IdentityToken_Encoding_DefaultBinary, &X509IdentityToken { policy_id: id.policy_id.clone(), certificate_data: cert.as_byte_string() }),
                s,
            )
        }
        _ => (id.raw.clone().unwrap_or_else(ExtensionObject::null), SignatureData::null()),
    }
}

pub fn activate(w: &World, l: &mut Link, token: &NodeId, client_nonce_for_sig: Option<&ByteString>, tok: (ExtensionObject, SignatureData)) -> SupportedMessage {
    l.c.token = token.clone();
    let client_signature = match (l.secure, client_nonce_for_sig) {
        (true, Some(n)) => sign(&w.client.1, ENC, w.server_cert.as_byte_string().as_ref(), n.as_ref()),
        _ => SignatureData::null(),
    };
    let req = ActivateSessionRequest {
        request_header: l.c.header(),
        client_signature,
        client_software_certificates: None,
        locale_ids: None,
        user_identity_token: tok.0,
        user_token_signature: tok.1,
    };
    l.c.call1(req.into())
}

pub const OAEP: &str = "http://www.w3.org/2001/04/xmlenc#rsa-oaep";
pub const RSA15: &str = "http://www.w3.org/2001/04/xmlenc#rsa-1_5";

struct Run<'a> {
    w: &'a World,
    links: Vec<Link>,
    slots: Vec<Slot>,
    chans: Vec<u32>,
    nslots: usize,
    forged: NodeId,
}

impl<'a> Run<'a> {
    fn abs(&self, real: u32) -> i64 {
        self.chans.iter().position(|c| *c == real).map(|p| p as i64 + 1).unwrap_or(0)
    }
    fn see(&mut self, real: u32) {
        if !self.chans.contains(&real) {
            self.chans.push(real);
        }
    }
    fn token(&self, t: i64) -> NodeId {
        if t >= 1 && (t as usize) <= self.slots.len() {
            self.slots[t as usize - 1].token.clone()
        } else if t == 8 {
            self.forged.clone()
        } else {
            NodeId::null()
        }
    }
    fn slot(&self, t: i64) -> Option<&Slot> {
        if t >= 1 && (t as usize) <= self.slots.len() {
            Some(&self.slots[t as usize - 1])
        } else {
            None
        }
    }
    fn beyond(&self, t: i64) -> bool {
        self.slot(t)
            .map(|s| {
                if !self.links[0].holds(&s.session_id) {
                    return false;
                }
                let s = s.handle.read();
                let elapsed = chrono::Utc::now() - s.last_service_request_timestamp();
                s.session_timeout() > 0.0 && elapsed.num_milliseconds() as f64 > s.session_timeout()
            })
            .unwrap_or(false)
    }
    fn proj(&self) -> Value {
        let mut v = Vec::new();
        for i in 0..self.nslots {
            match self.slots.get(i) {
                None => v.push(json!({"state": "free", "act": false, "chan": 0, "to": false})),
                Some(s) => {
                    let open = self.links[0].holds(&s.session_id);
                    let to = self.beyond(i as i64 + 1);
                    let h = s.handle.read();
                    v.push(json!({"state": if open { "open" } else { "closed" }, "act": h.is_activated(), "chan": self.abs(h.secure_channel_id()), "to": to}));
                }
            }
        }
        json!(v)
    }
    fn observable(&self) -> (i64, usize) {
        (self.w.var_value(), self.w.subscription_count(&self.links[0].c))
    }

    fn step(&mut self, s: &Value) -> (&'static str, String) {
        let ci = (geti(s, "conn").max(1) as usize - 1).min(self.links.len() - 1);
        let t = geti(s, "tok");
        let kind = gets(s, "kind").to_string();
        match gets(s, "ev") {
            "Create" => {
                let (resp, slot) = create_session(self.w, &mut self.links[ci], "/mixed", if geti(s, "tmo") > 0 { TIMEOUT_MS } else { 0.0 });
                if let Some(slot) = slot {
                    self.slots.push(slot);
                }
                class_of(&resp)
            }
            "Activate" => {
                let token = self.token(t);
                let cred_good = gets(s, "cred") == "good";
                let g = geti(s, "g").max(0) as usize;
                let secure = self.links[ci].secure;
                let (tokn, cur) = match self.slot(t) {
                    Some(sl) => {
                        let key = format!("{}/{}/{}", kind, cred_good, g);
                        let made = match sl.cache.get(&key) {
                            Some(x) => x.clone(),
                            None => {
                                let nonce = sl.nonces[g.min(sl.nonces.len() - 1)].clone();
                                let id = match kind.as_str() {
                                    "anon" => Ident { kind: "anon", policy_id: UAString::from(if cred_good { "anonymous" } else { "anonymous2" }), user: "", pass: "", nonce, enc_alg: "", enc_pad: None, cert: "", signer: "", sig: "", raw: None },
                                    "user" => Ident { kind: "user", policy_id: sl.userpass_policy.clone(), user: "alice", pass: if cred_good { "pw-alice" } else { "pw-alicf" }, nonce, enc_alg: "", enc_pad: None, cert: "", signer: "", sig: "", raw: None },
                                    "userenc" => Ident { kind: "userenc", policy_id: sl.userpass_policy.clone(), user: "alice", pass: if cred_good { "pw-alice" } else { "pw-alicf" }, nonce, enc_alg: OAEP, enc_pad: Some(crypto::RsaPadding::OaepSha1), cert: "", signer: "", sig: "", raw: None },
                                    _ => Ident { kind: "x509", policy_id: sl.x509_policy.clone(), user: "", pass: "", nonce, enc_alg: "", enc_pad: None, cert: "x1", signer: if cred_good { "x1" } else { "x3" }, sig: "ok", raw: None },
                                };
                                identity(self.w, sl, &id)
                            }
                        };
                        (made, sl.nonces.last().cloned())
                    }
                    None => (
                        (ext(ObjectId::AnonymousIdentityToken_Encoding_DefaultBinary, &AnonymousIdentityToken { policy_id: UAString::from("anonymous") }), SignatureData::null()),
                        None,
                    ),
                };
                if t >= 1 && (t as usize) <= self.slots.len() {
                    let key = format!("{}/{}/{}", kind, cred_good, g);
                    self.slots[t as usize - 1].cache.entry(key).or_insert_with(|| tokn.clone());
                }
                let _ = secure;
                let resp = activate(self.w, &mut self.links[ci], &token, cur.as_ref(), tokn);
                if let SupportedMessage::ActivateSessionResponse(ref r) = resp {
                    if t >= 1 && (t as usize) <= self.slots.len() {
                        self.slots[t as usize - 1].nonces.push(r.server_nonce.clone());
                    }
                }
                class_of(&resp)
            }
            "Close" => {
                let l = &mut self.links[ci];
                l.c.token = if t >= 1 && (t as usize) <= self.slots.len() { self.slots[t as usize - 1].token.clone() } else if t == 8 { self.forged.clone() } else { NodeId::null() };
                let req = CloseSessionRequest { request_header: l.c.header(), delete_subscriptions: kind == "del" };
                class_of(&l.c.call1(req.into()))
            }
            "Service" => {
                let token = self.token(t);
                // a value the variable never had
                let n = WRITES.fetch_add(1, std::sync::atomic::Ordering::SeqCst) + 1;
                let var = self.w.var.clone();
                let l = &mut self.links[ci];
                l.c.token = token;
                let msg: SupportedMessage = match kind.as_str() {
                    "Read" => ReadRequest {
                        request_header: l.c.header(),
                        max_age: 0.0,
                        timestamps_to_return: TimestampsToReturn::Neither,
                        nodes_to_read: Some(vec![ReadValueId { node_id: var, attribute_id: AttributeId::Value as u32, index_range: UAString::null(), data_encoding: QualifiedName::null() }]),
                    }
                    .into(),
                    "Browse" => BrowseRequest {
                        request_header: l.c.header(),
                        view: ViewDescription { view_id: NodeId::null(), timestamp: DateTime::null(), view_version: 0 },
                        requested_max_references_per_node: 10,
                        nodes_to_browse: Some(vec![BrowseDescription {
                            node_id: ObjectId::ObjectsFolder.into(),
                            browse_direction: BrowseDirection::Forward,
                            reference_type_id: ReferenceTypeId::HierarchicalReferences.into(),
                            include_subtypes: true,
                            node_class_mask: 0,
                            result_mask: 0x3f,
                        }]),
                    }
                    .into(),
                    "Write" => WriteRequest {
                        request_header: l.c.header(),
                        nodes_to_write: Some(vec![WriteValue { node_id: var, attribute_id: AttributeId::Value as u32, index_range: UAString::null(), value: DataValue::value_only(Variant::Int32(1000 + n)) }]),
                    }
                    .into(),
                    _ => CreateSubscriptionRequest {
                        request_header: l.c.header(),
                        requested_publishing_interval: 1000.0,
                        requested_lifetime_count: 30,
                        requested_max_keep_alive_count: 10,
                        max_notifications_per_publish: 0,
                        publishing_enabled: true,
                        priority: 0,
                    }
                    .into(),
                };
                class_of(&l.c.call1(msg))
            }
            "Discovery" => {
                let l = &mut self.links[ci];
                l.c.token = NodeId::null();
                let msg: SupportedMessage = if kind == "FindServers" {
                    FindServersRequest { request_header: l.c.header(), endpoint_url: UAString::from(format!("{}/mixed", BASE)), locale_ids: None, server_uris: None }.into()
                } else {
                    GetEndpointsRequest { request_header: l.c.header(), endpoint_url: UAString::from(format!("{}/mixed", BASE)), locale_ids: None, profile_uris: None }.into()
                };
                class_of(&l.c.call1(msg))
            }
            "ChannelChange" => {
                let ok = self.links[ci].open_channel();
                let id = self.links[ci].chan_id();
                self.see(id);
                (if ok { "ok" } else { "fault" }, if ok { "Good".into() } else { "OpenSecureChannelFailed".into() })
            }
            "Tick" => {
                // d units of time pass: every session's record of its last request moves d units into the past
                let ms = (geti(s, "d") as f64 * UNIT_MS) as i64;
                for sl in self.slots.iter() {
                    let mut h = sl.handle.write();
                    let last = h.last_service_request_timestamp();
                    h.set_last_service_request_timestamp(last - chrono::Duration::milliseconds(ms));
                }
                ("ok", "Good".into())
            }
            _ => ("none", "?".into()),
        }
    }
}

pub fn run_case(case: &Value, out: &mut Obs) {
    let cid = case.get("case").cloned().unwrap_or(Value::Null);
    let secure = getb(case, "secure");
    let nconns = case.get("nconns").and_then(|v| v.as_i64()).unwrap_or(2) as usize;
    let nslots = case.get("nslots").and_then(|v| v.as_i64()).unwrap_or(2) as usize;
    WORLD.with(|w| {
        let mut links = Vec::new();
        for _ in 0..nconns {
            match guard(|| Link::open(w, secure, "/mixed")) {
                Ok(Some(l)) => links.push(l),
                _ => {
                    out.push(json!({"case": cid, "i": 1, "ev": "Setup", "fail": "setup", "site": "handshake", "tok": 0, "conn": 0, "chan": 0, "kind": "", "cred": "", "g": 0,
                                    "class": "none", "code": "", "effect": false, "beyond": false, "d": 0, "tmo": 0, "st": []}));
                    return;
                }
            }
        }
        let forged = NodeId::new(0, ByteString::from(mint::stream("forged-token", 32, |_| true)));
        let mut r = Run { w, links, slots: Vec::new(), chans: Vec::new(), nslots, forged };
        for i in 0..r.links.len() {
            let id = r.links[i].chan_id();
            r.see(id);
        }
        let empty = vec![];
        for (i, s) in case.get("steps").and_then(|s| s.as_array()).unwrap_or(&empty).iter().enumerate() {
            let t = geti(s, "tok");
            let beyond_before = r.beyond(t);
            let before = r.observable();
            let res = guard(|| r.step(s));
            let after = guard(|| r.observable()).unwrap_or(before);
            let mut o = s.clone();
            let obj = o.as_object_mut().unwrap();
            obj.insert("case".into(), cid.clone());
            obj.insert("i".into(), json!(i + 1));
            let failed = res.is_err();
            match res {
                Ok((class, code)) => {
                    obj.insert("fail".into(), json!("none"));
                    obj.insert("site".into(), json!(""));
                    obj.insert("class".into(), json!(class));
                    obj.insert("code".into(), json!(code));
                }
                Err(site) => {
                    obj.insert("fail".into(), json!("panic"));
                    obj.insert("site".into(), json!(site_sig(&site)));
                    obj.insert("class".into(), json!("none"));
                    obj.insert("code".into(), json!(""));
                }
            }
            let ev = gets(s, "ev").to_string();
            // facts: the connection's channel id at the time of the request, the elapsed-time fact, the observable effect
            let ci = (geti(s, "conn").max(1) as usize - 1).min(r.links.len() - 1);
            let chan = if geti(s, "conn") >= 1 { r.abs(r.links[ci].chan_id()) } else { 0 };
            obj.insert("chan".into(), json!(chan));
            // what the server's own bookkeeping says after the step (compared with the model, not used by the judge)
            let _ = beyond_before;
            obj.insert("beyond".into(), json!(r.beyond(t)));
            if ev == "Create" {
                let tmo = if failed { 0 } else { r.slot(t).map(|s| s.tmo).unwrap_or(0) };
                obj.insert("tmo".into(), json!(tmo));
            }
            obj.insert("effect".into(), json!(before != after));
            obj.insert("val".into(), json!(after.0));
            obj.insert("nsubs".into(), json!(after.1));
            let st = guard(|| r.proj()).unwrap_or_else(|_| json!([]));
            obj.insert("st".into(), st);
            out.push(o);
            if failed {
                break;
            }
        }
        for l in r.links.iter_mut() {
            let _ = guard(|| l.c.close());
        }
    });
}
