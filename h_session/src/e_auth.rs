//! Engine `auth` (C20 table): one ActivateSession per case through the real `MessageHandler`, on the endpoint of the
//! case's user-token configuration.  case: {"case":n, "c":{cfg,sec,kind,pol,user,pw,enc,cert,sig}, "exp":bool}
use crate::e_session::*;
use crate::util::*;
use crate::world::*;
use crate::Obs;
use opcua::core::supported_message::SupportedMessage;
use opcua::crypto;
use opcua::server::prelude::*;
use serde_json::{json, Value};

fn password(user: &str, pw: &str) -> &'static str {
    match (pw, user) {
        ("empty", _) => "",
        ("wrong", "carol") => "x",
        ("wrong", _) => "pw-alicf",
        (_, "alice") => "pw-alice",
        (_, "carol") => "",
        (_, "bob") => "pw-bob",
        _ => "pw-alice",
    }
}

/// a successful activation with credentials the endpoint accepts, so that the session gets a new nonce
fn rotate(w: &World, l: &mut Link, slot: &mut Slot, cfg: &str) -> bool {
    let nonce = slot.nonces.last().cloned().unwrap_or_else(ByteString::null);
    let id = match cfg {
        "anon" | "mixed" => Ident { kind: "anon", policy_id: UAString::from("anonymous"), user: "", pass: "", nonce: nonce.clone(), enc_alg: "", enc_pad: None, cert: "", signer: "", sig: "", raw: None },
        "user" => Ident { kind: "user", policy_id: slot.userpass_policy.clone(), user: "alice", pass: "pw-alice", nonce: nonce.clone(), enc_alg: "", enc_pad: None, cert: "", signer: "", sig: "", raw: None },
        _ => Ident { kind: "x509", policy_id: slot.x509_policy.clone(), user: "", pass: "", nonce: nonce.clone(), enc_alg: "", enc_pad: None, cert: "x1", signer: "x1", sig: "ok", raw: None },
    };
    let t = identity(w, slot, &id);
    let token = slot.token.clone();
    match activate(w, l, &token, Some(&nonce), t) {
        SupportedMessage::ActivateSessionResponse(r) => {
            slot.nonces.push(r.server_nonce.clone());
            true
        }
        _ => false,
    }
}

fn one(w: &World, c: &Value) -> Value {
    let cfg = gets(c, "cfg");
    let secure = gets(c, "sec") == "enc";
    let kind = gets(c, "kind");
    let path = format!("/{}", cfg);
    let mut l = match Link::open(w, secure, &path) {
        Some(l) => l,
        None => return json!({"ok": false, "code": "", "fail": "setup", "site": "handshake", "rot": "na"}),
    };
    let (resp, slot) = create_session(w, &mut l, &path, TIMEOUT_MS);
    let mut slot = match slot {
        Some(s) => s,
        None => {
            let _ = l.c.close();
            return json!({"ok": false, "code": class_of(&resp).1, "fail": "setup", "site": "create_session", "rot": "na"});
        }
    };
    // the policy ids the server advertises for the endpoint (by rule where it advertises none for the token type)
    if slot.userpass_policy.is_null() {
        slot.userpass_policy = UAString::from(if secure { "userpass_rsa_oaep" } else { "userpass_none" });
    }
    if slot.x509_policy.is_null() {
        slot.x509_policy = UAString::from("x509");
    }
    let needs_old = gets(c, "enc") == "old" || gets(c, "sig") == "old";
    let mut rot = "na";
    if needs_old {
        rot = if rotate(w, &mut l, &mut slot, cfg) { "done" } else { "failed" };
    }
    let cur = slot.nonces.last().cloned().unwrap_or_else(ByteString::null);
    let old = slot.nonces[0].clone();
    let right = gets(c, "pol") != "wrong";
    let id = match kind {
        "anon" => Ident { kind: "anon", policy_id: UAString::from(if right { "anonymous" } else { "anon" }), user: "", pass: "", nonce: cur.clone(), enc_alg: "", enc_pad: None, cert: "", signer: "", sig: "", raw: None },
        "user" => {
            let user = gets(c, "user");
            let pass = password(user, gets(c, "pw"));
            let policy_id = if right { slot.userpass_policy.clone() } else { UAString::from("userpass_rsa_15") };
            let (nonce, enc_alg, enc_pad) = match gets(c, "enc") {
                "plain" => (cur.clone(), "", None),
                "cur" => (cur.clone(), OAEP, Some(crypto::RsaPadding::OaepSha1)),
                "old" => (old.clone(), OAEP, Some(crypto::RsaPadding::OaepSha1)),
                "unknownalg" => (cur.clone(), "urn:verif:unknown-algorithm", Some(crypto::RsaPadding::OaepSha1)),
                "mismatch" => (cur.clone(), OAEP, Some(crypto::RsaPadding::Pkcs1)),
                _ => (cur.clone(), RSA15, Some(crypto::RsaPadding::Pkcs1)),
            };
            Ident { kind: "userenc", policy_id, user, pass, nonce, enc_alg, enc_pad, cert: "", signer: "", sig: "", raw: None }
        }
        "x509" => {
            let cert = gets(c, "cert");
            let sig = gets(c, "sig");
            let policy_id = if right { slot.x509_policy.clone() } else { UAString::from("x509-2") };
            Ident {
                kind: "x509",
                policy_id,
                user: "",
                pass: "",
                nonce: if sig == "old" { old.clone() } else { cur.clone() },
                enc_alg: "",
                enc_pad: None,
                cert,
                signer: if sig == "otherkey" { if cert == "x3" { "x1" } else { "x3" } } else { cert },
                sig: match sig {
                    "corrupt" => "corrupt",
                    "null" => "null",
                    _ => "ok",
                },
                raw: None,
            }
        }
        "empty" => Ident { kind: "raw", policy_id: UAString::null(), user: "", pass: "", nonce: cur.clone(), enc_alg: "", enc_pad: None, cert: "", signer: "", sig: "", raw: Some(ExtensionObject::null()) },
        "issued" => Ident {
            kind: "raw",
            policy_id: UAString::null(),
            user: "",
            pass: "",
            nonce: cur.clone(),
            enc_alg: "",
            enc_pad: None,
            cert: "",
            signer: "",
            sig: "",
            raw: Some(ext(
                ObjectId::IssuedIdentityToken_Encoding_DefaultBinary,
                &IssuedIdentityToken { policy_id: UAString::from("anonymous"), token_data: ByteString::from(b"token".to_vec()), encryption_algorithm: UAString::null() },
            )),
        },
        "garbage" => Ident {
            kind: "raw",
            policy_id: UAString::null(),
            user: "",
            pass: "",
            nonce: cur.clone(),
            enc_alg: "",
            enc_pad: None,
            cert: "",
            signer: "",
            sig: "",
            // a structure that is no identity token at all
            raw: Some(ext(ObjectId::ReadValueId_Encoding_DefaultBinary, &ReadValueId { node_id: NodeId::null(), attribute_id: 13, index_range: UAString::null(), data_encoding: QualifiedName::null() })),
        },
        _ => Ident {
            kind: "raw",
            policy_id: UAString::null(),
            user: "",
            pass: "",
            nonce: cur.clone(),
            enc_alg: "",
            enc_pad: None,
            cert: "",
            signer: "",
            sig: "",
            // an anonymous token whose body is cut short
            raw: Some(ExtensionObject {
                node_id: ObjectId::AnonymousIdentityToken_Encoding_DefaultBinary.into(),
                body: ExtensionObjectEncoding::ByteString(ByteString::from(vec![9u8, 0, 0, 0, b'a', b'n'])),
            }),
        },
    };
    let t = identity(w, &slot, &id);
    let token = slot.token.clone();
    let resp = activate(w, &mut l, &token, Some(&cur), t);
    let (class, code) = class_of(&resp);
    let activated = slot.handle.read().is_activated();
    let _ = l.c.close();
    json!({"ok": class == "ok", "code": code, "fail": "none", "site": "", "rot": rot, "activated": activated})
}

pub fn run_case(case: &Value, out: &mut Obs) {
    let cid = case.get("case").cloned().unwrap_or(Value::Null);
    let c = case.get("c").cloned().unwrap_or(Value::Null);
    WORLD.with(|w| {
        let r = match guard(|| one(w, &c)) {
            Ok(r) => r,
            Err(site) => json!({"ok": false, "code": "", "fail": "panic", "site": site_sig(&site), "rot": "na"}),
        };
        out.push(json!({"case": cid, "i": 1, "c": c, "r": r}));
    });
}
