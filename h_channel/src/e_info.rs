//! Engine `chaninfo`: concrete sizes the abstract layout needs as constants (DER length of the minted certificates per
//! key size and party, smallest encoded size of each message kind). Also makes sure every RSA key exists before the
//! engines run in parallel.
use crate::chan;
use crate::util::*;
use crate::Obs;
use serde_json::{json, Value};

pub fn run_case(case: &Value, out: &mut Obs) {
    let c = &case["c"];
    let mut certs = serde_json::Map::new();
    if let Some(bits) = c["bits"].as_array() {
        for b in bits {
            let b = b.as_u64().unwrap_or(0) as u32;
            for name in ["app", "server", "signerA", "signerB"] {
                let (cert, _) = chan::pair(b, name);
                let len = cert.as_byte_string().value.map(|v| v.len()).unwrap_or(0);
                certs.insert(format!("{}-{}", name, b), json!(len));
            }
        }
    }
    // key sizes of which only the two channel parties are needed
    if let Some(bits) = c["bits_main"].as_array() {
        for b in bits {
            let b = b.as_u64().unwrap_or(0) as u32;
            for name in ["app", "server"] {
                let (cert, _) = chan::pair(b, name);
                let len = cert.as_byte_string().value.map(|v| v.len()).unwrap_or(0);
                certs.insert(format!("{}-{}", name, b), json!(len));
            }
        }
    }
    let mut mins = serde_json::Map::new();
    for kind in ["msg", "opn", "clo"] {
        for c2s in [true, false] {
            mins.insert(format!("{}-{}", kind, if c2s { "c2s" } else { "s2c" }), json!(chan::min_len(kind, c2s)));
        }
    }
    out.push(json!({"case": geti(case, "case"), "i": 1, "c": c, "r": {"certs": certs, "mins": mins}}));
}
