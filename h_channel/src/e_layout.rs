//! Engine `layout` (C07): a real message of the requested encoded size through
//!   Chunker::encode -> SecureChannel::apply_security   (sender-role channel)
//!   -> SecureChannel::verify_and_remove_security -> Chunker::decode   (receiver-role channel: other role, keys derived
//!      from the same nonces, own certificate / private key = the peer the sender encrypts to).
//! Reports, per chunk, what the sender produced (header fields on the wire, sizes) and what the receiver got back, and for
//! the message whether the decoded message equals the original, the length of the reassembled body and the first offset at
//! which it differs from the original body.
use crate::chan::*;
use crate::util::*;
use crate::Obs;
use opcua::core::comms::chunker::Chunker;
use serde_json::{json, Value};

fn fin(b: u8) -> String {
    match b {
        b'F' => "F".into(),
        b'C' => "C".into(),
        b'A' => "A".into(),
        _ => "?".into(),
    }
}

fn failed(stage: &str, kind: &str, site: &str, len: usize, chunks: Vec<Value>) -> Value {
    json!({"fail": kind, "stage": stage, "site": site, "len": len, "n": chunks.len(), "chunks": chunks,
           "eq": false, "relen": 0, "diffat": -1, "validate": "not-run"})
}

pub fn run_case(case: &Value, out: &mut Obs) {
    let cid = case.get("case").cloned().unwrap_or(Value::Null);
    let c = &case["c"];
    let r = run(c);
    out.push(json!({"case": cid, "i": 1, "c": c, "r": r}));
}

fn run(c: &Value) -> Value {
    let setup = Setup::from_case(c);
    let kind = gets(c, "kind");
    let cs = geti(c, "cs") as usize;
    let (seq0, req) = (geti(c, "seq0") as u32, geti(c, "req") as u32);
    let (msg, len) = message(kind, setup.c2s, setup.md, geti(c, "len") as usize);
    let original = encoded(&msg);
    let sender = setup.sender();
    let mut receiver = setup.receiver();

    let (chunks, wire) = match secure_message(&sender, &msg, seq0, req, cs) {
        Ok(x) => x,
        Err((stage, k, site)) => return failed(&stage, &k, &site, len, vec![]),
    };
    let mut recs = Vec::new();
    let mut rchunks = Vec::new();
    let mut broken: Option<(String, String)> = None;
    for (ch, w) in chunks.iter().zip(wire.iter()) {
        let info = ch.chunk_info(&sender);
        let (seq, rq, body) = match &info {
            Ok(i) => (i.sequence_header.sequence_number as i64, i.sequence_header.request_id as i64, i.body_length as i64),
            Err(_) => (-1, -1, -1),
        };
        let mut rec = json!({
            "typ": String::from_utf8_lossy(&w[0..3]).to_string(), "fin": fin(w[3]), "declared": get_u32(w, 4), "chan": get_u32(w, 8),
            "seq": seq, "req": rq, "ulen": ch.data.len(), "body": body, "slen": w.len(),
            "rok": false, "rfin": "?", "rseq": -1, "rreq": -1, "rlen": 0, "rbody": 0,
        });
        if broken.is_none() {
            match guard(|| receiver.verify_and_remove_security(w)) {
                Ok(Ok(rc)) => {
                    if let Ok(Ok(i)) = guard(|| rc.chunk_info(&receiver)) {
                        rec["rok"] = json!(true);
                        rec["rfin"] = json!(fin(rc.data[3]));
                        rec["rseq"] = json!(i.sequence_header.sequence_number);
                        rec["rreq"] = json!(i.sequence_header.request_id);
                        rec["rlen"] = json!(rc.data.len());
                        rec["rbody"] = json!(i.body_length);
                    }
                    rchunks.push(rc);
                }
                Ok(Err(e)) => broken = Some(("status".into(), status_name(e))),
                Err(p) => broken = Some(("panic".into(), sanitize(&p))),
            }
        }
        recs.push(rec);
    }
    if let Some((k, site)) = broken {
        return failed("verify_and_remove_security", &k, &site, len, recs);
    }
    // what the receiver reassembles (the same concatenation Chunker::decode performs)
    let mut re = Vec::new();
    for rc in rchunks.iter() {
        if let Ok(i) = rc.chunk_info(&receiver) {
            re.extend_from_slice(&rc.data[i.body_offset..i.body_offset + i.body_length]);
        }
    }
    let common = re.len().min(original.len());
    let diffat = (0..common).find(|&i| re[i] != original[i]).map(|i| i as i64).unwrap_or(if re.len() < original.len() { common as i64 } else { -1 });
    let validate = match guard(|| Chunker::validate_chunks(seq0, &receiver, &rchunks)) {
        Ok(Ok(last)) => format!("last={}", last as i64 - seq0 as i64),
        Ok(Err(e)) => status_name(e),
        Err(p) => sanitize(&p),
    };
    match guard(|| Chunker::decode(&rchunks, &receiver, None)) {
        Ok(Ok(m)) => json!({"fail": "none", "stage": "", "site": "", "len": len, "n": recs.len(), "chunks": recs,
                            "eq": m == msg, "relen": re.len(), "diffat": diffat, "validate": validate}),
        Ok(Err(e)) => {
            let mut v = failed("decode", "status", &status_name(e), len, recs);
            v["relen"] = json!(re.len());
            v["diffat"] = json!(diffat);
            v["validate"] = json!(validate);
            v
        }
        Err(p) => {
            let mut v = failed("decode", "panic", &sanitize(&p), len, recs);
            v["relen"] = json!(re.len());
            v["diffat"] = json!(diffat);
            v["validate"] = json!(validate);
            v
        }
    }
}
