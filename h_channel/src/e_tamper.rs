//! Engine `tamper` (C08): every concrete instance of an adversary action of spec/Tamper.tla against a real secured chunk.
//!
//! The valid chunk is produced by the real sender (Chunker::encode + apply_security). The action of the case is applied in
//! every concrete way it stands for (Flip(region): every byte position of the region x bit 0 and bit 7; Truncate: every
//! proper prefix; Extend: a set of lengths x fillers; foreign keys / certificates: re-secured with the other material) and each
//! mutant is fed to the real receiver (verify_and_remove_security, then Chunker::decode). Reported: the SET of outcomes
//! {rejected, delivered-original, delivered-other, accepted-undecodable, panic}, the number of mutants, the reject codes.
use crate::chan::*;
use crate::mint;
use crate::util::*;
use crate::Obs;
use opcua::core::comms::secure_channel::{Role, SecureChannel};
use opcua::core::supported_message::SupportedMessage;
use opcua::crypto::pkey::KeySize;
use opcua::crypto::SecurityPolicy;
use opcua::types::MessageSecurityMode;
use serde_json::{json, Value};
use std::collections::BTreeSet;
use std::ops::Range;

struct Tally {
    n: usize,
    outcomes: BTreeSet<&'static str>,
    codes: BTreeSet<String>,
    sites: BTreeSet<String>,
    first: String,
}

impl Tally {
    fn feed(&mut self, receiver: &mut SecureChannel, pol: SecurityPolicy, bytes: &[u8], original: &SupportedMessage, what: Value) {
        receiver.set_security_policy(pol);
        self.n += 1;
        let o = receive_one(receiver, bytes, original);
        let name = match &o {
            Outcome::Rejected(code) => {
                self.codes.insert(code.clone());
                "rejected"
            }
            Outcome::Panic(site) => {
                self.sites.insert(site.clone());
                "panic"
            }
            Outcome::AcceptedOriginal => "delivered-original",
            Outcome::AcceptedOther => "delivered-other",
            Outcome::AcceptedUndecodable(code) => {
                self.codes.insert(format!("undecodable:{}", code));
                "accepted-undecodable"
            }
        };
        if name != "rejected" && self.first.is_empty() {
            self.first = json!({"outcome": name, "mutant": what}).to_string();
        }
        self.outcomes.insert(name);
    }
}

fn field(b: &[u8], at: usize) -> (Range<usize>, Range<usize>) {
    let l = i32::from_le_bytes([b[at], b[at + 1], b[at + 2], b[at + 3]]);
    let l = if l < 0 { 0 } else { l as usize };
    (at..at + 4, at + 4..at + 4 + l)
}

/// byte range of a region of the valid secured chunk
fn region(name: &str, kind: &str, encrypted: bool, wire: &[u8], body_len: usize, sig: usize) -> Option<Range<usize>> {
    let n = wire.len();
    match name {
        "type" => return Some(0..3),
        "final" => return Some(3..4),
        "size" => return Some(4..8),
        "chan" => return Some(8..12),
        _ => {}
    }
    let payload = if kind == "opn" {
        let (ul, u) = field(wire, 12);
        let (cl, c) = field(wire, u.end);
        let (tl, t) = field(wire, c.end);
        match name {
            "uri-len" => return Some(ul),
            "uri" => return Some(u),
            "cert-len" => return Some(cl),
            "cert" => return Some(c),
            "thumb-len" => return Some(tl),
            "thumb" => return Some(t),
            _ => {}
        }
        t.end
    } else {
        if name == "token" {
            return Some(12..16);
        }
        16
    };
    if encrypted {
        return if name == "ciphertext" { Some(payload..n) } else { None };
    }
    let body = payload + 8..payload + 8 + body_len;
    match name {
        "seqhdr" => Some(payload..payload + 8),
        "body" => Some(body),
        "padding" => Some(body.end..n - sig),
        "signature" => Some(n - sig..n),
        _ => None,
    }
}

pub fn run_case(case: &Value, out: &mut Obs) {
    let cid = case.get("case").cloned().unwrap_or(Value::Null);
    let c = &case["c"];
    let stride = std::env::var("VERIF_STRIDE").ok().and_then(|s| s.parse::<usize>().ok()).unwrap_or(1).max(1);
    let r = match guard(|| run(c, stride, geti(case, "case") as usize)) {
        Ok(Ok(v)) => v,
        Ok(Err(e)) => json!({"fail": "setup", "site": sanitize(&e), "n": 0, "outcomes": [], "codes": [], "sites": [], "len": 0, "region": 0}),
        Err(p) => json!({"fail": "setup", "site": sanitize(&p), "n": 0, "outcomes": [], "codes": [], "sites": [], "len": 0, "region": 0}),
    };
    out.push(json!({"case": cid, "i": 1, "c": c, "r": r}));
}

fn run(c: &Value, stride: usize, salt: usize) -> Result<Value, String> {
    let setup = Setup::from_case(c);
    let kind = gets(c, "kind");
    let act = &c["act"];
    let (k, arg, resize) = (gets(act, "k"), gets(act, "arg"), getb(act, "resize"));
    let pol = setup.pol;
    let encrypted = kind == "opn" || setup.md == MessageSecurityMode::SignAndEncrypt;
    let (msg, _) = message(kind, setup.c2s, setup.md, 150);
    let body_len = encoded(&msg).len();
    let (seq, req) = (77u32, 1001u32);
    let sender = setup.sender();
    let mut receiver = setup.receiver();
    let (_, wire) = secure_message(&sender, &msg, seq, req, 0).map_err(|e| format!("{:?}", e))?;
    if wire.len() != 1 {
        return Err("valid message is not one chunk".into());
    }
    let wire = wire.into_iter().next().unwrap();
    let sig = if kind == "opn" { setup.sender_pair().map(|p| p.1.size()).unwrap_or(0) } else { pol.symmetric_signature_size() };
    let mut t = Tally { n: 0, outcomes: BTreeSet::new(), codes: BTreeSet::new(), sites: BTreeSet::new(), first: String::new() };
    let mut region_len = 0usize;

    match k {
        "none" => t.feed(&mut receiver, pol, &wire, &msg, json!("valid")),
        "flip" => {
            let rg = region(arg, kind, encrypted, &wire, body_len, sig).ok_or(format!("no region {}", arg))?;
            region_len = rg.len();
            for pos in rg.clone() {
                // quick tier: every stride-th position of long regions (offset from the case number), always the first and last 8
                let edge = pos < rg.start + 8 || pos + 8 >= rg.end;
                if stride > 1 && rg.len() > 64 && !edge && (pos - rg.start) % stride != salt % stride {
                    continue;
                }
                for mask in [0x01u8, 0x80u8] {
                    let mut m = wire.clone();
                    m[pos] ^= mask;
                    t.feed(&mut receiver, pol, &m, &msg, json!({"pos": pos, "mask": mask}));
                }
            }
        }
        "truncate" => {
            for len in 0..wire.len() {
                let mut m = wire[..len].to_vec();
                if resize {
                    if len < 8 {
                        continue;
                    }
                    put_u32(&mut m, 4, len as u32);
                }
                t.feed(&mut receiver, pol, &m, &msg, json!({"len": len}));
            }
        }
        "extend" => {
            let tail: Vec<u8> = wire.iter().rev().take(600).rev().cloned().collect();
            for add in [1usize, 2, 3, 15, 16, 17, 31, 32, 33, 64, 127, 128, 129, 255, 256, 257, 511, 512, 513] {
                for filler in 0..4 {
                    let mut m = wire.clone();
                    let extra: Vec<u8> = match filler {
                        0 => vec![0u8; add],
                        1 => vec![0xffu8; add],
                        2 => mint::stream("c08-extend", add, |_| true),
                        _ => tail.iter().cycle().skip(tail.len() - add % tail.len()).take(add).cloned().collect(),
                    };
                    m.extend_from_slice(&extra);
                    if resize {
                        let n = m.len() as u32;
                        put_u32(&mut m, 4, n);
                    }
                    t.feed(&mut receiver, pol, &m, &msg, json!({"add": add, "filler": filler}));
                }
            }
        }
        "foreign-keys" => {
            let other = setup.foreign_sender(arg);
            let (_, w) = secure_message(&other, &msg, seq, req, 0).map_err(|e| format!("{:?}", e))?;
            if w[0] == wire {
                return Err("foreign keys sealed the same bytes".into());
            }
            t.feed(&mut receiver, pol, &w[0], &msg, json!(arg));
        }
        "foreign-signer" => {
            // the certificate in the header is the sender's, the signature is made with a stranger's key
            let (scert, _) = setup.sender_pair().ok_or("no sender pair")?;
            let stranger = pair(setup.sbits, "signerB").1;
            let (role, ln, rn) = if setup.c2s { (Role::Client, &setup.cn, &setup.sn) } else { (Role::Server, &setup.sn, &setup.cn) };
            let other = channel(role, pol, setup.md, ln, rn, Some((scert, stranger)), setup.receiver_pair().map(|p| p.0), true);
            let (_, w) = secure_message(&other, &msg, seq, req, 0).map_err(|e| format!("{:?}", e))?;
            t.feed(&mut receiver, pol, &w[0], &msg, json!("signed-by-stranger"));
        }
        "cert-swapped" | "foreign-recipient" => {
            let (scert, skey) = setup.sender_pair().ok_or("no sender pair")?;
            let (rcert, _) = setup.receiver_pair().ok_or("no receiver pair")?;
            let stranger_s = pair(setup.sbits, "signerA").0;
            let stranger_r = pair(setup.rbits, "signerB").0;
            let body = encoded(&msg);
            let (hdr_cert, enc_cert, thumb_cert) = match (k, arg) {
                ("cert-swapped", _) => (&stranger_s, &rcert, &rcert),
                (_, "thumb-updated") => (&scert, &stranger_r, &stranger_r),
                _ => (&scert, &stranger_r, &rcert),
            };
            let enc_key = enc_cert.public_key().map_err(status_name)?;
            let f = AsymFields {
                uri: Some(pol.to_uri().as_bytes().to_vec()),
                cert: hdr_cert.as_byte_string().value,
                thumb: Some(thumb_cert.thumbprint().value().to_vec()),
            };
            let padding = asym_padding(pol, &enc_key, body.len(), skey.size());
            let w = craft_asym(pol, b'F', CHANNEL_ID, &f, seq, req, &body, &padding, Some(&skey), skey.size(), &enc_key)?;
            t.feed(&mut receiver, pol, &w, &msg, json!(k));
            // the crafting itself is sound: the same construction with the right material is the valid chunk
            let enc_ok = rcert.public_key().map_err(status_name)?;
            let f_ok = AsymFields { uri: f.uri.clone(), cert: scert.as_byte_string().value, thumb: Some(rcert.thumbprint().value().to_vec()) };
            let pad_ok = asym_padding(pol, &enc_ok, body.len(), skey.size());
            let w_ok = craft_asym(pol, b'F', CHANNEL_ID, &f_ok, seq, req, &body, &pad_ok, Some(&skey), skey.size(), &enc_ok)?;
            receiver.set_security_policy(pol);
            if receive_one(&mut receiver, &w_ok, &msg) != Outcome::AcceptedOriginal {
                return Err("crafted valid OPN chunk is not accepted".into());
            }
        }
        _ => return Err(format!("unknown action {}", k)),
    }
    Ok(json!({"fail": "none", "site": "", "n": t.n, "outcomes": t.outcomes.iter().collect::<Vec<_>>(), "codes": t.codes.iter().collect::<Vec<_>>(),
              "sites": t.sites.iter().collect::<Vec<_>>(), "len": wire.len(), "region": region_len, "first": t.first}))
}
