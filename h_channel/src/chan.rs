//! Concretisation material shared by the channel engines (C07, C08, C09): certificates, channel pairs whose keys are
//! derived from the same nonces, real service messages of a controlled encoded size, the secure / receive pipeline.
#![allow(dead_code)]
use crate::mint;
use crate::util::*;
use opcua::core::comms::chunker::Chunker;
use opcua::core::comms::message_chunk::MessageChunk;
use opcua::core::comms::secure_channel::{Role, SecureChannel};
use opcua::core::supported_message::SupportedMessage;
use opcua::crypto::{CertificateStore, PrivateKey, SecurityPolicy, X509};
use opcua::sync::RwLock;
use opcua::types::*;
use serde_json::Value;
use std::cell::RefCell;
use std::collections::HashMap;
use std::sync::Arc;

pub const CHANNEL_ID: u32 = 0x0102_0304;
pub const TOKEN_ID: u32 = 0x0a0b_0c0d;

thread_local! {
    static CERTS: RefCell<HashMap<(u32, &'static str), X509>> = RefCell::new(HashMap::new());
}

/// certificate + private key of the named party ("app" = the client application, "server", "signerA"/"signerB" = strangers)
pub fn pair(bits: u32, name: &'static str) -> (X509, PrivateKey) {
    let cert = CERTS.with(|m| m.borrow_mut().entry((bits, name)).or_insert_with(|| mint::default_cert(bits, name).0).clone());
    (cert, mint::rsa_key(bits, name))
}

pub fn mode(name: &str) -> MessageSecurityMode {
    match name {
        "None" => MessageSecurityMode::None,
        "Sign" => MessageSecurityMode::Sign,
        "SignAndEncrypt" => MessageSecurityMode::SignAndEncrypt,
        _ => MessageSecurityMode::Invalid,
    }
}

pub fn nonce(tag: &str, pol: SecurityPolicy) -> Vec<u8> {
    let n = if pol == SecurityPolicy::Basic128Rsa15 { 16 } else { 32 };
    mint::stream(tag, n, |_| true)
}

/// One end of a channel. `own` / `peer` = (certificate, private key) of this end / certificate of the other end.
pub fn channel(role: Role, pol: SecurityPolicy, md: MessageSecurityMode, local_nonce: &[u8], remote_nonce: &[u8],
               own: Option<(X509, PrivateKey)>, peer: Option<X509>, keys: bool) -> SecureChannel {
    let store = Arc::new(RwLock::new(CertificateStore::new(&mint::out_dir().join("h_channel").join("no-pki"))));
    let mut ch = SecureChannel::new(store, role, DecodingOptions::default());
    ch.set_security_policy(pol);
    ch.set_security_mode(md);
    ch.set_secure_channel_id(CHANNEL_ID);
    ch.set_token_id(TOKEN_ID);
    ch.set_local_nonce(local_nonce);
    ch.set_remote_nonce(remote_nonce);
    match own {
        Some((c, k)) => {
            ch.set_cert(Some(c));
            ch.set_private_key(Some(k));
        }
        None => {
            ch.set_cert(None);
            ch.set_private_key(None);
        }
    }
    ch.set_remote_cert(peer);
    if keys && pol != SecurityPolicy::None && pol != SecurityPolicy::Unknown {
        ch.derive_keys();
    }
    ch
}

/// Configuration of a case: which way the message travels, who holds which certificate.
pub struct Setup {
    pub pol: SecurityPolicy,
    pub md: MessageSecurityMode,
    /// "c2s": the client sends, the server receives; "s2c" the other way round
    pub c2s: bool,
    pub sbits: u32,
    pub rbits: u32,
    pub cn: Vec<u8>,
    pub sn: Vec<u8>,
}

impl Setup {
    pub fn from_case(c: &Value) -> Setup {
        let pol = mint::policy(gets(c, "pol"));
        Setup {
            pol,
            md: mode(gets(c, "mode")),
            c2s: gets(c, "dir") != "s2c",
            sbits: geti(c, "sbits") as u32,
            rbits: geti(c, "rbits") as u32,
            cn: nonce("chan-client-nonce", pol),
            sn: nonce("chan-server-nonce", pol),
        }
    }
    fn names(&self) -> (&'static str, &'static str) {
        if self.c2s {
            ("app", "server")
        } else {
            ("server", "app")
        }
    }
    pub fn sender_pair(&self) -> Option<(X509, PrivateKey)> {
        if self.sbits == 0 {
            None
        } else {
            Some(pair(self.sbits, self.names().0))
        }
    }
    pub fn receiver_pair(&self) -> Option<(X509, PrivateKey)> {
        if self.rbits == 0 {
            None
        } else {
            Some(pair(self.rbits, self.names().1))
        }
    }
    /// the sending end
    pub fn sender(&self) -> SecureChannel {
        let (role, ln, rn) = if self.c2s { (Role::Client, &self.cn, &self.sn) } else { (Role::Server, &self.sn, &self.cn) };
        channel(role, self.pol, self.md, ln, rn, self.sender_pair(), self.receiver_pair().map(|p| p.0), true)
    }
    /// the receiving end: the other role, the nonces swapped, its own certificate / key, the sender's certificate as peer
    pub fn receiver(&self) -> SecureChannel {
        let (role, ln, rn) = if self.c2s { (Role::Server, &self.sn, &self.cn) } else { (Role::Client, &self.cn, &self.sn) };
        channel(role, self.pol, self.md, ln, rn, self.receiver_pair(), self.sender_pair().map(|p| p.0), true)
    }
    /// the sending end with keys derived from OTHER nonces (the receiver does not hold them)
    pub fn foreign_sender(&self, which: &str) -> SecureChannel {
        let (mut cn, mut sn) = (self.cn.clone(), self.sn.clone());
        match which {
            "client-nonce" => cn = nonce("chan-other-client-nonce", self.pol),
            "server-nonce" => sn = nonce("chan-other-server-nonce", self.pol),
            "swapped" => std::mem::swap(&mut cn, &mut sn),
            _ => {
                cn = nonce("chan-other-client-nonce", self.pol);
                sn = nonce("chan-other-server-nonce", self.pol);
            }
        }
        let (role, ln, rn) = if self.c2s { (Role::Client, &cn, &sn) } else { (Role::Server, &sn, &cn) };
        channel(role, self.pol, self.md, ln, rn, self.sender_pair(), self.receiver_pair().map(|p| p.0), true)
    }
}

fn fixed_time() -> DateTime {
    DateTime::ymd_hms(2020, 2, 2, 2, 2, 2)
}

fn request_header() -> RequestHeader {
    RequestHeader {
        authentication_token: NodeId::new(0, 77u32),
        timestamp: fixed_time(),
        request_handle: 5,
        return_diagnostics: DiagnosticBits::empty(),
        audit_entry_id: UAString::null(),
        timeout_hint: 1000,
        additional_header: ExtensionObject::null(),
    }
}

fn response_header() -> ResponseHeader {
    ResponseHeader {
        timestamp: fixed_time(),
        request_handle: 5,
        service_result: StatusCode::Good,
        service_diagnostics: DiagnosticInfo::default(),
        string_table: None,
        additional_header: ExtensionObject::null(),
    }
}

/// the bytes a message body consists of on the wire: node id of the encoding followed by the message
pub fn encoded(msg: &SupportedMessage) -> Vec<u8> {
    let id = msg.node_id();
    let mut v = Vec::with_capacity(id.byte_len() + msg.byte_len());
    let _ = id.encode(&mut v);
    let _ = msg.encode(&mut v);
    v
}

fn payload(tag: &str, n: usize) -> ByteString {
    // no zero bytes and none of the small values that padding bytes have: a padding byte in the body is visible
    ByteString::from(mint::stream(tag, n, |b| b >= 0x40))
}

fn write_request(n: usize) -> SupportedMessage {
    WriteRequest {
        request_header: request_header(),
        nodes_to_write: Some(vec![WriteValue {
            node_id: NodeId::new(2, "payload"),
            attribute_id: 13,
            index_range: UAString::null(),
            value: DataValue { value: Some(Variant::ByteString(payload("write", n))), status: None, source_timestamp: None,
                               source_picoseconds: None, server_timestamp: None, server_picoseconds: None },
        }]),
    }
    .into()
}

fn read_response(n: usize) -> SupportedMessage {
    ReadResponse {
        response_header: response_header(),
        results: Some(vec![DataValue { value: Some(Variant::ByteString(payload("read", n))), status: Some(StatusCode::Good),
                                       source_timestamp: None, source_picoseconds: None, server_timestamp: None, server_picoseconds: None }]),
        diagnostic_infos: None,
    }
    .into()
}

fn opn_request(n: usize, md: MessageSecurityMode) -> SupportedMessage {
    OpenSecureChannelRequest {
        request_header: request_header(),
        client_protocol_version: 0,
        request_type: SecurityTokenRequestType::Issue,
        security_mode: md,
        client_nonce: payload("opn-req", n),
        requested_lifetime: 60000,
    }
    .into()
}

fn opn_response(n: usize) -> SupportedMessage {
    OpenSecureChannelResponse {
        response_header: response_header(),
        server_protocol_version: 0,
        security_token: ChannelSecurityToken { channel_id: CHANNEL_ID, token_id: TOKEN_ID, created_at: fixed_time(), revised_lifetime: 60000 },
        server_nonce: payload("opn-rsp", n),
    }
    .into()
}

fn close_request() -> SupportedMessage {
    CloseSecureChannelRequest { request_header: request_header() }.into()
}

/// A real service message of kind `kind` ("msg" | "opn" | "clo") sent in the given direction whose encoded size is
/// exactly `len` bytes (or the smallest possible size if `len` is smaller than that); returns (message, size).
pub fn message(kind: &str, c2s: bool, md: MessageSecurityMode, len: usize) -> (SupportedMessage, usize) {
    let make = |n: usize| match (kind, c2s) {
        ("opn", true) => opn_request(n, md),
        ("opn", false) => opn_response(n),
        ("clo", _) => close_request(),
        (_, true) => write_request(n),
        (_, false) => read_response(n),
    };
    let base = encoded(&make(0)).len();
    let m = make(len.saturating_sub(base));
    let l = encoded(&m).len();
    (m, l)
}

pub fn min_len(kind: &str, c2s: bool) -> usize {
    message(kind, c2s, MessageSecurityMode::None, 0).1
}

/// room the sender has for a secured chunk (the send buffers of the real transports are the chunk size + 1024)
pub fn dst_for(chunk: &MessageChunk) -> Vec<u8> {
    vec![0u8; chunk.data.len() * 2 + 8192]
}

pub fn status_name(s: StatusCode) -> String {
    s.name().to_string()
}

pub fn sanitize(s: &str) -> String {
    site_sig(s).chars().filter(|c| *c != '`').map(|c| if c.is_whitespace() { '_' } else { c }).collect()
}

/// secure every chunk of the message on the sender; Err((stage, status or panic site))
pub fn secure_message(sender: &SecureChannel, msg: &SupportedMessage, seq0: u32, req: u32, cs: usize)
    -> Result<(Vec<MessageChunk>, Vec<Vec<u8>>), (String, String, String)> {
    let chunks = match guard(|| Chunker::encode(seq0, req, 0, cs, sender, msg)) {
        Ok(Ok(c)) => c,
        Ok(Err(e)) => return Err(("encode".into(), "status".into(), status_name(e))),
        Err(p) => return Err(("encode".into(), "panic".into(), sanitize(&p))),
    };
    let mut wire = Vec::new();
    for ch in chunks.iter() {
        let mut dst = dst_for(ch);
        match guard(|| sender.apply_security(ch, &mut dst)) {
            Ok(Ok(n)) => {
                dst.truncate(n);
                wire.push(dst);
            }
            Ok(Err(e)) => return Err(("apply_security".into(), "status".into(), status_name(e))),
            Err(p) => return Err(("apply_security".into(), "panic".into(), sanitize(&p))),
        }
    }
    Ok((chunks, wire))
}

#[derive(Debug, Clone, PartialEq, Eq, PartialOrd, Ord)]
pub enum Outcome {
    Rejected(String),
    Panic(String),
    AcceptedOriginal,
    AcceptedOther,
    AcceptedUndecodable(String),
}

/// feed ONE secured chunk that claims to be a whole message to the receiver and classify what happens
pub fn receive_one(receiver: &mut SecureChannel, bytes: &[u8], original: &SupportedMessage) -> Outcome {
    match guard(|| receiver.verify_and_remove_security(bytes)) {
        Err(p) => Outcome::Panic(sanitize(&p)),
        Ok(Err(e)) => Outcome::Rejected(status_name(e)),
        Ok(Ok(chunk)) => match guard(|| Chunker::decode(&[chunk], receiver, None)) {
            Err(p) => Outcome::Panic(sanitize(&p)),
            Ok(Err(e)) => Outcome::AcceptedUndecodable(status_name(e)),
            Ok(Ok(m)) => {
                if &m == original {
                    Outcome::AcceptedOriginal
                } else {
                    Outcome::AcceptedOther
                }
            }
        },
    }
}

pub fn put_u32(b: &mut [u8], at: usize, v: u32) {
    b[at..at + 4].copy_from_slice(&v.to_le_bytes());
}

pub fn get_u32(b: &[u8], at: usize) -> u32 {
    u32::from_le_bytes([b[at], b[at + 1], b[at + 2], b[at + 3]])
}

// ------------------------------------------------------------------------------------------------ crafted chunks
use opcua::crypto::pkey::{KeySize, PublicKey};

/// a length-prefixed field of a security header; None = null (length -1)
pub fn put_field(v: &mut Vec<u8>, f: &Option<Vec<u8>>) {
    match f {
        None => v.extend_from_slice(&(-1i32).to_le_bytes()),
        Some(b) => {
            v.extend_from_slice(&(b.len() as i32).to_le_bytes());
            v.extend_from_slice(b);
        }
    }
}

pub struct AsymFields {
    pub uri: Option<Vec<u8>>,
    pub cert: Option<Vec<u8>>,
    pub thumb: Option<Vec<u8>>,
}

pub fn chunk_header(typ: &[u8], fin: u8, chan: u32) -> Vec<u8> {
    let mut v = typ.to_vec();
    v.push(fin);
    v.extend_from_slice(&0u32.to_le_bytes());
    v.extend_from_slice(&chan.to_le_bytes());
    v
}

/// Part 6 padding for an asymmetric chunk: `n` bytes of value n-1 (one size byte), or, for encryption keys above 2048
/// bits, n-1 bytes of the low byte of n-2 followed by the high byte.
pub fn asym_padding(pol: SecurityPolicy, enc_key: &PublicKey, body_len: usize, sig_len: usize) -> Vec<u8> {
    let block = enc_key.plain_text_block_size(pol.asymmetric_encryption_padding());
    let min = if enc_key.size() > 256 { 2 } else { 1 };
    let fixed = 8 + body_len + sig_len + min;
    let total = min + (block - fixed % block) % block;
    if min == 1 {
        vec![(total - 1) as u8; total]
    } else {
        let mut v = vec![((total - 2) & 0xff) as u8; total - 1];
        v.push(((total - 2) >> 8) as u8);
        v
    }
}

/// An OPN chunk built field by field: signed with `signer` over everything before the signature (as the receiver
/// computes it), the part after the security header encrypted to `enc_key`. `sig_len` bytes are reserved for the signature.
#[allow(clippy::too_many_arguments)]
pub fn craft_asym(pol: SecurityPolicy, fin: u8, chan: u32, f: &AsymFields, seq: u32, req: u32, body: &[u8], padding: &[u8],
                  signer: Option<&PrivateKey>, sig_len: usize, enc_key: &PublicKey) -> Result<Vec<u8>, String> {
    let mut hdr = chunk_header(b"OPN", fin, chan);
    put_field(&mut hdr, &f.uri);
    put_field(&mut hdr, &f.cert);
    put_field(&mut hdr, &f.thumb);
    let mut plain = Vec::new();
    plain.extend_from_slice(&seq.to_le_bytes());
    plain.extend_from_slice(&req.to_le_bytes());
    plain.extend_from_slice(body);
    plain.extend_from_slice(padding);
    let signed_len = plain.len();
    plain.extend(std::iter::repeat(0x5a).take(sig_len));
    let rsa_pad = pol.asymmetric_encryption_padding();
    let ct = enc_key.calculate_cipher_text_size(plain.len(), rsa_pad);
    let total = hdr.len() + ct;
    put_u32(&mut hdr, 4, total as u32);
    if let Some(k) = signer {
        if sig_len == k.size() {
            let mut data = hdr.clone();
            data.extend_from_slice(&plain[..signed_len]);
            let mut sig = vec![0u8; sig_len];
            match guard(|| pol.asymmetric_sign(k, &data, &mut sig)) {
                Ok(Ok(_)) => plain[signed_len..].copy_from_slice(&sig),
                other => return Err(format!("sign:{:?}", other.map(|r| r.map_err(status_name)))),
            }
        }
    }
    let mut dst = vec![0u8; ct + 1024];
    match guard(|| pol.asymmetric_encrypt(enc_key, &plain, &mut dst)) {
        Ok(Ok(n)) => {
            if n != ct {
                return Err(format!("cipher text size {} != {}", n, ct));
            }
            hdr.extend_from_slice(&dst[..n]);
            Ok(hdr)
        }
        other => Err(format!("encrypt:{:?}", other.map(|r| r.map_err(status_name)))),
    }
}

/// Part 6 padding for a symmetric chunk (AES block 16)
pub fn sym_padding(body_len: usize, sig_len: usize) -> Vec<u8> {
    let total = 1 + (16 - (8 + body_len + sig_len + 1) % 16) % 16;
    vec![(total - 1) as u8; total]
}

/// A MSG / CLO chunk built field by field and secured with the keys of `sender` (MAC over everything before the signature,
/// in SignAndEncrypt mode everything after the security header encrypted).
#[allow(clippy::too_many_arguments)]
pub fn craft_sym(sender: &SecureChannel, typ: &[u8], fin: u8, chan: u32, token: u32, seq: u32, req: u32, body: &[u8], padding: &[u8])
    -> Result<Vec<u8>, String> {
    let pol = sender.security_policy();
    let md = sender.security_mode();
    let secured = pol != SecurityPolicy::None && (md == MessageSecurityMode::Sign || md == MessageSecurityMode::SignAndEncrypt);
    let sig = if secured { pol.symmetric_signature_size() } else { 0 };
    let mut src = chunk_header(typ, fin, chan);
    src.extend_from_slice(&token.to_le_bytes());
    src.extend_from_slice(&seq.to_le_bytes());
    src.extend_from_slice(&req.to_le_bytes());
    src.extend_from_slice(body);
    src.extend_from_slice(padding);
    src.extend(std::iter::repeat(0).take(sig));
    let len = src.len();
    put_u32(&mut src, 4, len as u32);
    if !secured {
        return Ok(src);
    }
    let mut dst = vec![0u8; len + 64];
    match guard(|| sender.symmetric_sign_and_encrypt(&src, 0..(len - sig), 16..len, &mut dst[..len + 16])) {
        Ok(Ok(n)) => {
            dst.truncate(n);
            Ok(dst)
        }
        other => Err(format!("secure:{:?}", other.map(|r| r.map_err(status_name)))),
    }
}
