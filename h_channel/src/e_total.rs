//! Engine `total` (C09): the receive path of a secure channel on malformed chunks.
//!
//! A case names a malformed-shape class (spec/Totality.tla), the kind of chunk (opn / msg / clo), the role of the receiving
//! channel, policy, mode and key sizes. The shape is built from the parts of a valid chunk with the real crypto (so that
//! only the named defect is wrong: the MAC / signature is valid wherever the shape allows one), fed to
//! `SecureChannel::verify_and_remove_security` of a receiver-role channel under `util::guard`, followed by `nrand` seeded
//! random byte mutations around the shaped chunk.
use crate::chan::*;
use crate::mint;
use crate::util::*;
use crate::Obs;
use opcua::core::comms::secure_channel::SecureChannel;
use opcua::crypto::SecurityPolicy;
use opcua::types::MessageSecurityMode;
use rand::rngs::StdRng;
use rand::{Rng, SeedableRng};
use serde_json::{json, Value};

fn resize(mut b: Vec<u8>) -> Vec<u8> {
    if b.len() >= 8 {
        let n = b.len() as u32;
        put_u32(&mut b, 4, n);
    }
    b
}

/// (bytes of the shaped chunk, receiver) or a reason why the shape could not be built
fn build(c: &Value, setup: &Setup) -> Result<(Vec<u8>, SecureChannel), String> {
    let kind = gets(c, "kind");
    let shape = gets(c, "shape");
    let pol = setup.pol;
    let secured = pol != SecurityPolicy::None && (setup.md == MessageSecurityMode::Sign || setup.md == MessageSecurityMode::SignAndEncrypt);
    let sender = setup.sender();
    let mut receiver = setup.receiver();
    let (msg, _) = message(kind, setup.c2s, setup.md, if kind == "clo" { 0 } else { 120 });
    let body = encoded(&msg);
    let (seq, req) = (51u32, 7u32);

    if kind == "opn" {
        if !secured {
            // policy None: a plain chunk with the None security header
            let (_, wire) = secure_message(&sender, &msg, seq, req, 0).map_err(|e| format!("{:?}", e))?;
            let mut w = wire[0].clone();
            match shape {
                "valid" => {}
                "size-larger" => {
                    let n = w.len() as u32 + 1;
                    put_u32(&mut w, 4, n)
                }
                "size-smaller" => {
                    let n = w.len() as u32 - 1;
                    put_u32(&mut w, 4, n)
                }
                "hdr-truncated" => w.truncate(10),
                "sechdr-truncated" => w.truncate(30),
                _ => return Err(format!("shape {} not applicable", shape)),
            }
            return Ok((w, receiver));
        }
        let (scert, skey) = setup.sender_pair().ok_or("no sender pair")?;
        let (rcert, _) = setup.receiver_pair().ok_or("no receiver pair")?;
        let enc_key = rcert.public_key().map_err(status_name)?;
        let mut f = AsymFields {
            uri: Some(pol.to_uri().as_bytes().to_vec()),
            cert: scert.as_byte_string().value,
            thumb: Some(rcert.thumbprint().value().to_vec()),
        };
        let mut sig_len = {
            use opcua::crypto::pkey::KeySize;
            skey.size()
        };
        let mut signer = Some(&skey);
        let other_key;
        let mut body = body;
        let mut padding: Option<Vec<u8>> = None;
        match shape {
            "uri-unknown" => f.uri = Some(b"http://opcfoundation.org/UA/SecurityPolicy#Basic512".to_vec()),
            "uri-null" => f.uri = None,
            "cert-null" => f.cert = None,
            "cert-empty" => f.cert = Some(vec![]),
            "cert-garbage" => f.cert = Some(mint::stream("c09-garbage-cert", 300, |_| true)),
            "cert-truncated" => {
                let d = f.cert.clone().unwrap();
                f.cert = Some(d[..d.len() / 2].to_vec())
            }
            "thumb-null" => f.thumb = None,
            "thumb-len19" => f.thumb = Some(f.thumb.clone().unwrap()[..19].to_vec()),
            "thumb-len21" => {
                let mut t = f.thumb.clone().unwrap();
                t.push(1);
                f.thumb = Some(t)
            }
            "thumb-other" => f.thumb = Some(pair(setup.rbits, "signerB").0.thumbprint().value().to_vec()),
            "plain-shorter-than-sig" => {
                // one plain text block that holds a sequence header and one byte: no room for a signature
                body = vec![0x41];
                padding = Some(vec![]);
                sig_len = 0;
                signer = None;
            }
            "pad-too-large" => {
                // size bytes that announce more padding than there are bytes in front of them (0xff 0xff for the two byte form)
                let mut p = asym_padding(pol, &enc_key, body.len(), sig_len);
                let n = p.len();
                for b in p.iter_mut() {
                    *b = 0xff;
                }
                if n >= 2 {
                    p[n - 2] = 0xff;
                }
                padding = Some(p);
            }
            "pad-inconsistent" => {
                let mut p = asym_padding(pol, &enc_key, body.len(), sig_len);
                if p.len() >= 3 {
                    p[0] ^= 0x55;
                } else {
                    // too little padding to have an inner byte: grow the body so that there is
                    body.extend_from_slice(&[0x42; 7]);
                    p = asym_padding(pol, &enc_key, body.len(), sig_len);
                    if p.len() < 3 {
                        body.extend_from_slice(&[0x42; 9]);
                        p = asym_padding(pol, &enc_key, body.len(), sig_len);
                    }
                    p[0] ^= 0x55;
                }
                padding = Some(p);
            }
            "sig-foreign" => {
                other_key = pair(setup.sbits, "signerB").1;
                signer = Some(&other_key);
            }
            "no-own-cert" => {
                receiver.set_cert(None);
                receiver.set_private_key(None);
            }
            "no-own-key" => receiver.set_private_key(None),
            _ => {}
        }
        if shape == "pad-size" {
            // hand-built plain text, then the real signature and encryption over it
            use opcua::crypto::pkey::KeySize;
            let two = enc_key.size() > 256;
            let fill = geti(c, "keep") as usize;
            let padlen = asym_padding(pol, &enc_key, fill, sig_len).len();
            let hdr = 12 + 4 + f.uri.as_ref().map(|u| u.len()).unwrap_or(0) + 4 + f.cert.as_ref().map(|u| u.len()).unwrap_or(0)
                + 4 + f.thumb.as_ref().map(|u| u.len()).unwrap_or(0);
            let end = hdr + 8 + fill + padlen;
            let size = pad_size(gets(c, "psz"), end, padlen - if two { 2 } else { 1 }, two)?;
            body = vec![];
            padding = Some(pad_region(fill + padlen, size, two));
        }
        let padding = padding.unwrap_or_else(|| asym_padding(pol, &enc_key, body.len(), sig_len));
        let w = craft_asym(pol, b'F', CHANNEL_ID, &f, seq, req, &body, &padding, signer, sig_len, &enc_key)?;
        let hdr_len = 12 + 4 + f.uri.as_ref().map(|u| u.len()).unwrap_or(0) + 4 + f.cert.as_ref().map(|u| u.len()).unwrap_or(0)
            + 4 + f.thumb.as_ref().map(|u| u.len()).unwrap_or(0);
        let w = match shape {
            "size-larger" => {
                let mut w = w;
                let n = w.len() as u32 + 1;
                put_u32(&mut w, 4, n);
                w
            }
            "size-smaller" => {
                let mut w = w;
                let n = w.len() as u32 - 1;
                put_u32(&mut w, 4, n);
                w
            }
            "hdr-truncated" => w[..10].to_vec(),
            "sechdr-truncated" => resize(w[..hdr_len - 30].to_vec()),
            "ct-plus1" => {
                let mut w = w;
                w.push(0x17);
                resize(w)
            }
            "ct-minus1" => {
                let mut w = w;
                w.pop();
                resize(w)
            }
            "ct-none" => resize(w[..hdr_len].to_vec()),
            _ => w,
        };
        return Ok((w, receiver));
    }

    // symmetric chunk (MSG / CLO)
    let typ: &[u8] = if kind == "clo" { b"CLO" } else { b"MSG" };
    let sig = if secured { pol.symmetric_signature_size() } else { 0 };
    let encrypt = secured && setup.md == MessageSecurityMode::SignAndEncrypt;
    let mut body = body;
    let mut padding = if secured { sym_padding(body.len(), sig) } else { vec![] };
    let mut crafter = sender;
    match shape {
        "pad-too-large" => {
            // authentic chunk (valid MAC) whose padding size byte is larger than everything in front of it
            body.truncate(40);
            padding = sym_padding(body.len(), sig);
            for b in padding.iter_mut() {
                *b = 0xff;
            }
        }
        "pad-inconsistent" => {
            while sym_padding(body.len(), sig).len() < 3 {
                body.push(0x42);
            }
            padding = sym_padding(body.len(), sig);
            padding[0] ^= 0x55;
        }
        "pad-size" => {
            if !encrypt {
                return Err("pad-size needs an encrypted chunk".into());
            }
            let fill = geti(c, "keep") as usize;
            let padlen = sym_padding(fill, sig).len();
            let end = 16 + 8 + fill + padlen;
            let size = pad_size(gets(c, "psz"), end, padlen - 1, false)?;
            body = vec![];
            padding = pad_region(fill + padlen, size, false);
        }
        "mac-foreign" => crafter = setup.foreign_sender("both"),
        "before-keys" => {
            let (role, ln, rn) = if setup.c2s {
                (opcua::core::comms::secure_channel::Role::Server, &setup.sn, &setup.cn)
            } else {
                (opcua::core::comms::secure_channel::Role::Client, &setup.cn, &setup.sn)
            };
            receiver = channel(role, pol, setup.md, ln, rn, setup.receiver_pair(), setup.sender_pair().map(|p| p.0), false);
        }
        _ => {}
    }
    let token = if shape == "token-other" { TOKEN_ID ^ 0x0101 } else { TOKEN_ID };
    let w = craft_sym(&crafter, typ, b'F', CHANNEL_ID, token, seq, req, &body, &padding)?;
    let w = match shape {
        "size-larger" => {
            let mut w = w;
            let n = w.len() as u32 + 1;
            put_u32(&mut w, 4, n);
            w
        }
        "size-smaller" => {
            let mut w = w;
            let n = w.len() as u32 - 1;
            put_u32(&mut w, 4, n);
            w
        }
        "hdr-truncated" => w[..10].to_vec(),
        "sechdr-truncated" => resize(w[..14].to_vec()),
        "shorter-than-sig" => resize(w[..16 + geti(c, "keep") as usize].to_vec()),
        "ct-plus1" => {
            let mut w = w;
            w.push(0x17);
            resize(w)
        }
        "ct-minus1" => {
            let mut w = w;
            w.pop();
            resize(w)
        }
        _ => w,
    };
    Ok((w, receiver))
}

/// the announced padding size of the boundary family "pad-size": `end` = bytes in front of the signature, `ordinary` = the
/// size a well-formed chunk of this length has, `two` = two size bytes (receiver key above 2048 bits)
fn pad_size(psz: &str, end: usize, ordinary: usize, two: bool) -> Result<usize, String> {
    let max = if two { 65535 } else { 255 };
    let v = match psz {
        "zero" => 0,
        "one" => 1,
        "ordinary" => ordinary,
        "end-2" => end - 2,
        "end-1" => end - 1,
        "end" => end,
        "end+1" => end + 1,
        "max" => max,
        _ => return Err(format!("unknown padding size class {}", psz)),
    };
    if v > max {
        return Err(format!("padding size {} does not fit {} size byte(s)", v, if two { 2 } else { 1 }));
    }
    Ok(v)
}

/// every byte between the sequence header and the signature = low byte of the size, the size byte(s) at the end
fn pad_region(len: usize, size: usize, two: bool) -> Vec<u8> {
    let mut v = vec![(size & 0xff) as u8; len];
    if two && len >= 1 {
        v[len - 1] = (size >> 8) as u8;
    }
    v
}

/// one receive: ("chunk" | "error" | "panic", status name or panic site)
fn receive(receiver: &mut SecureChannel, pol: SecurityPolicy, bytes: &[u8]) -> (&'static str, String) {
    receiver.set_security_policy(pol);
    match guard(|| receiver.verify_and_remove_security(bytes)) {
        Err(p) => ("panic", sanitize(&p)),
        Ok(Err(e)) => ("error", status_name(e)),
        Ok(Ok(chunk)) => match guard(|| chunk.chunk_info(receiver).map(|i| i.body_offset + i.body_length == chunk.data.len())) {
            Err(p) => ("panic", sanitize(&p)),
            Ok(_) => ("chunk", "Good".into()),
        },
    }
}

pub fn run_case(case: &Value, out: &mut Obs) {
    let cid = case.get("case").cloned().unwrap_or(Value::Null);
    let c = &case["c"];
    let mut cc = c.clone();
    cc["dir"] = json!(if gets(c, "role") == "server" { "c2s" } else { "s2c" });
    let setup = Setup::from_case(&cc);
    let nrand = geti(c, "nrand") as usize;
    let built = match guard(|| build(c, &setup)) {
        Ok(Ok(x)) => x,
        Ok(Err(e)) => {
            out.push(json!({"case": cid, "i": 1, "c": c, "r": {"fail": "setup", "site": sanitize(&e), "class": "none", "code": "", "len": 0,
                            "rand": {"n": 0, "chunk": 0, "error": 0, "panic": 0, "sites": []}}}));
            return;
        }
        Err(p) => {
            out.push(json!({"case": cid, "i": 1, "c": c, "r": {"fail": "setup", "site": sanitize(&p), "class": "none", "code": "", "len": 0,
                            "rand": {"n": 0, "chunk": 0, "error": 0, "panic": 0, "sites": []}}}));
            return;
        }
    };
    let (bytes, mut receiver) = built;
    let (class, code) = receive(&mut receiver, setup.pol, &bytes);

    // seeded random mutations around the shaped chunk
    let seed = mint::seed().wrapping_mul(0x9E37_79B9_7F4A_7C15) ^ (geti(case, "case") as u64).wrapping_mul(0x1000_0001_b3);
    let mut rng = StdRng::seed_from_u64(seed);
    let (mut nchunk, mut nerror, mut npanic) = (0, 0, 0);
    let mut sites: Vec<String> = Vec::new();
    for _ in 0..nrand {
        let mut m = bytes.clone();
        let k = rng.gen_range(1..=3);
        for _ in 0..k {
            if m.is_empty() {
                break;
            }
            let pos = if rng.gen_bool(0.5) { rng.gen_range(0..m.len().min(80)) } else { rng.gen_range(0..m.len()) };
            m[pos] = match rng.gen_range(0..4) {
                0 => 0x00,
                1 => 0xff,
                2 => m[pos] ^ (1 << rng.gen_range(0..8)),
                _ => rng.gen(),
            };
        }
        match rng.gen_range(0..8) {
            0 => {
                let cut = rng.gen_range(0..=m.len());
                m.truncate(cut);
                m = resize(m);
            }
            1 => {
                let add = rng.gen_range(1..40);
                for _ in 0..add {
                    m.push(rng.gen());
                }
                m = resize(m);
            }
            2 => {
                let cut = rng.gen_range(0..=m.len());
                m.truncate(cut);
            }
            _ => {}
        }
        let (cl, co) = receive(&mut receiver, setup.pol, &m);
        match cl {
            "chunk" => nchunk += 1,
            "error" => nerror += 1,
            _ => {
                npanic += 1;
                if !sites.contains(&co) && sites.len() < 4 {
                    sites.push(co);
                }
            }
        }
    }
    let (fail, site) = if class == "panic" { ("panic", code.clone()) } else { ("none", String::new()) };
    out.push(json!({"case": cid, "i": 1, "c": c, "r": {"fail": fail, "site": site, "class": if class == "panic" { "none" } else { class },
                    "code": if class == "panic" { "".to_string() } else { code }, "len": bytes.len(),
                    "rand": {"n": nrand, "chunk": nchunk, "error": nerror, "panic": npanic, "sites": sites}}}));
}
