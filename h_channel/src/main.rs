//! conform — executes TLC-generated cases against the real opcua crate and records observations (group `channel`).
//!
//!   conform run <engine> <cases.ndjson> <obs.ndjson>     (cases spread over VERIF_JOBS threads, output in case order)
//!   conform child <engine> <cases.ndjson> <obs.ndjson>   (one case per process, wall-clock limit)
//!   conform one <engine>                                  (stdin: one case, stdout: observations)
#[path = "../../harness/src/util.rs"]
#[allow(dead_code)]
mod util;
#[path = "../../h_crypto/src/mint.rs"]
mod mint;
mod chan;
mod e_info;
mod e_layout;
mod e_tamper;
mod e_total;

use serde_json::Value;
use std::io::{BufRead, BufReader, BufWriter, Write};
use std::sync::atomic::{AtomicUsize, Ordering};
use std::sync::{Arc, Mutex};

pub type Obs = Vec<Value>;

fn run_case(engine: &str, case: &Value, out: &mut Obs) {
    match engine {
        "chaninfo" => e_info::run_case(case, out),
        "layout" => e_layout::run_case(case, out),
        "tamper" => e_tamper::run_case(case, out),
        "total" => e_total::run_case(case, out),
        _ => {
            eprintln!("unknown engine {}", engine);
            std::process::exit(2);
        }
    }
}

fn read_cases(path: &str) -> Vec<(String, Value)> {
    let inp = BufReader::new(std::fs::File::open(path).expect("cases"));
    let mut v = Vec::new();
    for line in inp.lines() {
        let line = line.unwrap();
        if line.trim().is_empty() {
            continue;
        }
        let case: Value = serde_json::from_str(&line).expect("case json");
        v.push((line, case));
    }
    v
}

fn main() {
    let args: Vec<String> = std::env::args().collect();
    if args.len() < 3 {
        eprintln!("usage: conform run|child|one <engine> [cases obs]");
        std::process::exit(2);
    }
    util::install_panic_hook();
    let mode = args[1].as_str();
    let engine = args[2].clone();
    match mode {
        "run" => {
            let cases = Arc::new(read_cases(&args[3]));
            let jobs: usize = std::env::var("VERIF_JOBS").ok().and_then(|s| s.parse().ok()).unwrap_or(4).clamp(1, 4);
            let results: Arc<Mutex<Vec<Option<Obs>>>> = Arc::new(Mutex::new(vec![None; cases.len()]));
            let next = Arc::new(AtomicUsize::new(0));
            let mut hs = Vec::new();
            for _ in 0..jobs {
                let (cases, results, next, engine) = (cases.clone(), results.clone(), next.clone(), engine.clone());
                hs.push(std::thread::Builder::new().stack_size(64 << 20).spawn(move || loop {
                    let i = next.fetch_add(1, Ordering::SeqCst);
                    if i >= cases.len() {
                        break;
                    }
                    let mut obs = Vec::new();
                    run_case(&engine, &cases[i].1, &mut obs);
                    results.lock().unwrap()[i] = Some(obs);
                }).unwrap());
            }
            for h in hs {
                if h.join().is_err() {
                    eprintln!("worker thread died");
                    std::process::exit(3);
                }
            }
            let mut outp = BufWriter::new(std::fs::File::create(&args[4]).expect("obs"));
            for r in results.lock().unwrap().iter() {
                for o in r.as_ref().expect("case not run") {
                    writeln!(outp, "{}", o).unwrap();
                }
            }
        }
        "one" => {
            let mut s = String::new();
            std::io::stdin().read_line(&mut s).unwrap();
            let case: Value = serde_json::from_str(&s).expect("case json");
            let mut obs = Vec::new();
            run_case(&engine, &case, &mut obs);
            let so = std::io::stdout();
            let mut so = so.lock();
            for o in obs {
                writeln!(so, "{}", o).unwrap();
            }
        }
        "child" => {
            // one process per case; abort / timeout become observations
            let limit_ms: u64 = std::env::var("VERIF_CHILD_MS").ok().and_then(|s| s.parse().ok()).unwrap_or(20000);
            let cases = read_cases(&args[3]);
            let mut outp = BufWriter::new(std::fs::File::create(&args[4]).expect("obs"));
            let exe = std::env::current_exe().unwrap();
            for (line, case) in cases.iter() {
                let cid = case.get("case").cloned().unwrap_or(Value::Null);
                let mut ch = std::process::Command::new(&exe)
                    .arg("one")
                    .arg(&engine)
                    .stdin(std::process::Stdio::piped())
                    .stdout(std::process::Stdio::piped())
                    .stderr(std::process::Stdio::null())
                    .spawn()
                    .expect("spawn");
                {
                    let mut si = ch.stdin.take().unwrap();
                    let _ = writeln!(si, "{}", line);
                }
                let start = std::time::Instant::now();
                let mut status = None;
                let mut so = ch.stdout.take().unwrap();
                let reader = std::thread::spawn(move || {
                    let mut s = String::new();
                    use std::io::Read;
                    let _ = so.read_to_string(&mut s);
                    s
                });
                while start.elapsed().as_millis() < limit_ms as u128 {
                    match ch.try_wait() {
                        Ok(Some(st)) => {
                            status = Some(st);
                            break;
                        }
                        _ => std::thread::sleep(std::time::Duration::from_millis(2)),
                    }
                }
                let fail = match status {
                    None => {
                        let _ = ch.kill();
                        let _ = ch.wait();
                        Some("timeout")
                    }
                    Some(st) if !st.success() => Some("abort"),
                    _ => None,
                };
                let text = reader.join().unwrap_or_default();
                let mut n = 0;
                for l in text.lines() {
                    if serde_json::from_str::<Value>(l).is_ok() {
                        writeln!(outp, "{}", l).unwrap();
                        n += 1;
                    }
                }
                if let Some(f) = fail {
                    let o = serde_json::json!({"case": cid, "i": n + 1, "c": case.get("c").cloned().unwrap_or(Value::Null),
                                               "r": {"fail": f, "site": f}});
                    writeln!(outp, "{}", o).unwrap();
                }
            }
        }
        _ => {
            eprintln!("unknown mode");
            std::process::exit(2);
        }
    }
}
