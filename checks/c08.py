"""C08 Modified or foreign secured chunks are never accepted."""
from vlib import *
from checks.channel_common import *

LEVEL = "model_checking"


def run(ctx):
    bits = {1024, 2048} if ctx.quick else {1024, 2048, 4096}
    chan_info(ctx, bits)
    if ctx.quick:
        pairs = {(1024, 1024), (2048, 2048), (1024, 2048)}
    else:
        pairs = {(1024, 1024), (1024, 2048), (2048, 1024), (2048, 2048), (2048, 4096), (4096, 2048), (4096, 4096)}
    consts = {"KeyPairs": pairs, "DevSignPadded": True, "Unsigned": set(), "MutSkipMac": False}
    # self-test of the model: a receiver that ignores the Mac comparison, or leaves a header field out of the Mac, breaks
    # the invariant
    ctx.model_check("mut_skip_mac", "MCTamper", dict(consts, MutSkipMac=True), ["DesignOK"], spec="Spec",
                    expect_violation="DesignOK", workers=2)
    ctx.model_check("mut_unsigned_channel_id", "MCTamper", dict(consts, Unsigned={"chan"}), ["DesignOK"], spec="Spec",
                    expect_violation="DesignOK", workers=2)
    stride = 5 if ctx.quick else 1
    cases, verdicts = fn_pipeline(
        ctx, "C08", "tamper", "GenTamper", "TraceTamper", consts=consts, trace_consts=consts, crate=CRATE,
        env={"VERIF_STRIDE": stride},
        key=lambda c: c.get("c"), expected=lambda c: sorted(c["exp"]["outcomes"]),
        observed=lambda o: sorted(x for x in (o.get("r") or {}).get("outcomes", []) if x != "panic") or ["rejected"],
        nontrivial=lambda c: c["c"]["act"]["k"] != "none",
        rule="TLC enumerates chunk kind (symmetric MSG, asymmetric OPN) x 5 policies x {Sign, SignAndEncrypt} x direction x key "
             "sizes x adversary action (Flip(region) for every region of the chunk: type bytes, final flag, size field, channel "
             "id, token id, sequence header, body, padding, signature, policy uri / sender certificate / receiver thumbprint and "
             "their length fields, cipher text; Truncate and Extend with and without rewriting the size field; keys derived from "
             "other nonces; foreign signer / recipient / swapped certificate) and checks the symbolic receiver; the harness applies "
             "the action to a real secured chunk in every concrete way (every byte position of the region x bit 0 and bit 7 - quick "
             "tier: every 5th position of regions longer than 64 bytes plus their first and last 8 bytes; every proper prefix; 19 "
             "extension lengths x 4 fillers) and reports the set of outcomes of the real receiver; distinct by case; non-trivial "
             "= a mutating action")
    obs = os.path.join(ctx.dir, "fn.obs.ndjson")
    mutants, per, panics = 0, {}, {}
    with open(obs) as f:
        for line in f:
            o = json.loads(line)
            r, c = o["r"], o["c"]
            a = c["act"]
            name = a["k"] + (":" + a["arg"] if a["arg"] else "") + (":size-rewritten" if a["resize"] else "")
            mutants += r.get("n", 0)
            per[name] = per.get(name, 0) + r.get("n", 0)
            if r.get("fail") == "none" and r.get("n", 0) == 0:
                raise ToolError("no mutant fed to the receiver for case %s" % json.dumps(c))
            for s in r.get("sites", []):
                panics[s] = panics.get(s, 0) + 1
    ctx.notes["mutants_fed_to_the_receiver"] = mutants
    ctx.notes["mutants_per_action"] = per
    ctx.notes["panics_seen_while_rejecting"] = panics      # a panic delivers nothing: reported by C09, not a C08 verdict
    ctx.cov["evaluations"] = mutants
    ctx.cov["exhaustive"] = ctx.cov["exhaustive"] and stride == 1    # quick samples the byte positions of long regions
    ctx.assumptions += ["Mac and Enc are uninterpreted in the model: no forgery, a changed cipher text decrypts to garbage",
                        "an OPN chunk that is self-consistently signed by another application (its own certificate in the "
                        "header) is a new peer, not a modified chunk: whether that certificate is trusted is decided above the "
                        "channel (C18), so this class is not generated",
                        "a mutant on which the receiver panics is not delivered: no C08 verdict (C09 judges panics)",
                        "quick tier samples every 5th byte position of regions longer than 64 bytes (offset by case number)"]
