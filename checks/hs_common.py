"""Shared pipeline of the handshake engine (Handshake.tla / HandshakeProps.tla / engine `handshake`)."""
import json
from vlib import *
from checks.subs_common import take

KINDS_ALL = [["HEL", "F", "none"], ["OPNI", "F", "none"], ["OPNR", "F", "none"], ["MSG", "F", "GetEndpoints"], ["MSG", "F", "Read"],
             ["CLO", "F", "none"], ["MSG", "C", "none"], ["MSG", "A", "none"], ["MSGS", "F", "GetEndpoints"]]


def strip(s):
    return {k: s[k] for k in ("ev", "kind", "fl", "svc")}


def pipeline(ctx, pid, hs, c, nontrivial, rule, name="handshake"):
    cases = [{"case": i + 1, "max_chunks": c["MaxChunks"], "max_msg": c["MaxMsg"], "steps": h} for i, h in enumerate(hs)]
    if ctx.replay:
        cases = [json.load(open(ctx.replay))["case"]]
        cases[0]["case"] = 1
    cpath = ctx.write_cases(name, cases)
    obs = ctx.run("handshake", cpath, name=name)
    verdicts = ctx.judge(name, "TraceHandshake", obs, {"MaxChunks": c["MaxChunks"], "MaxMsg": c["MaxMsg"], "Mons": {pid}})
    by = {x["case"]: x for x in cases}
    for v in verdicts:
        x = by.get(v["case"])
        ctx.add_violation("%s:%s" % (pid, v["clause"]), "%s at frame %s of case %s" % (v["clause"], v["i"], v["case"]),
                          dict(x, steps=[strip(s) for s in x["steps"]]) if x else None, engine="handshake")
    exp = {(x["case"], i + 1): s for x in cases for i, s in enumerate(x["steps"])}
    nsteps, drift, bad = 0, [], set()
    for line in open(obs):
        o = json.loads(line)
        e = exp.get((o["case"], o["i"]))
        if e is None or o["case"] in bad:
            continue
        nsteps += 1
        for k in ("fail", "fed", "out", "err", "state", "pend", "bytes"):
            if k in e and canon(e[k]) != canon(o.get(k)):
                bad.add(o["case"])
                drift.append({"case": o["case"], "i": o["i"], "field": k, "frames": [strip(s) for s in by[o["case"]]["steps"]][:o["i"]],
                              "expected": e[k], "observed": o.get(k)})
                break
    seen, nt = set(), 0
    for x in cases:
        k = canon([strip(s) for s in x["steps"]])
        if k not in seen:
            seen.add(k)
            nt += 1 if nontrivial(x) else 0
    ctx.cov["evaluations"] += len(cases)
    ctx.cov["distinct_nontrivial"] += nt
    ctx.cov["traces_validated_against_impl"] += len(cases)
    ctx.cov["rule"] = rule
    ctx.notes.setdefault("steps_replayed", 0)
    ctx.notes["steps_replayed"] += nsteps
    ctx.notes.setdefault("drift", {})[name] = {"cases_with_L1_mismatch": len(drift), "first": drift[:3]}
    for idx in (0, len(cases) // 2, len(cases) - 1):
        ctx.sample([strip(s) for s in cases[idx]["steps"]])
    log("[handshake] %d cases, %d frames, %d verdicts for %s, %d drifting" % (len(cases), nsteps, len(verdicts), pid, len(drift)))
