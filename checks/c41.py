"""C41 Saved configurations load back unchanged."""
import itertools
import re
from vlib import *

LEVEL = "model_checking"

INV = ("ConstructionOK", "DesignOK", "Emit")
CHUNK = 5000            # observation records per judge run
NSIM = 120              # thorough: behaviours of the simulation, 100 random rows each


def _gen(ctx, name, consts, **kw):
    cases, r = ctx.gen(name, "GenConfig", consts, invariants=INV, workers=kw.pop("workers", 4), **kw)
    if r.violated:
        raise ToolError("the case space of spec/Config.tla violates %s (%s):\n%s" % (r.violated, name, r.trace[:3000]))
    ctx.cov["tlc_runs"].append({"name": name, "generated": r.generated, "distinct": r.distinct, "wall_s": round(r.wall, 1),
                                "cases": len(cases)})
    ctx.cov["states"] += r.distinct
    ctx.cov["transitions"] += r.generated
    return cases


def _sig(v, c, o):
    """<C41>:<kind>:<clause>, positions in maps / lists generalised"""
    cl = re.sub(r"\.\d+(?=\.|$)", ".*", v["clause"])
    return "C41:%s:%s" % (c["c"]["kind"] if c else "?", cl)


def _pair_coverage(cases):
    """measured on the generated cases: pairs of values of every two scalar top-level fields of the abstract configurations
    of the arrays (the orthogonal array promises all of them)"""
    out = {}
    for kind in ("client", "server"):
        cs = [c["c"]["cfg"] for c in cases if c["c"]["kind"] == kind and c["c"]["src"]["fam"] == "pair"]
        if not cs:
            continue
        fields = [f for f, v in cs[0].items() if not isinstance(v, list) and f not in ("kind", "default_endpoint")]
        vals = {f: set(canon(c[f]) for c in cs) for f in fields}
        tot = cov = 0
        for a, b in itertools.combinations(fields, 2):
            tot += len(vals[a]) * len(vals[b])
            cov += len(set((canon(c[a]), canon(c[b])) for c in cs))
        out[kind] = {"rows": len(cs), "scalar_fields": len(fields), "value_pairs_covered": cov, "value_pairs_total": tot}
    return out


def run(ctx):
    q = ctx.quick
    consts = {"P": 41 if q else 89, "PS": 89, "Wide": not q, "Fams": {"pair", "sweep", "mut"} if q else {"pair", "mut"},
              "NBase": 2 if q else 5}
    if ctx.replay:
        cases = [json.load(open(ctx.replay))["case"]]
    else:
        # the model of the pinned tree (a path that is not UTF-8 stops the writer) must exhibit the known finding
        ctx.model_check("dev_non_utf8_path", "MCConfig", dict(consts, Fams={"mut"}, NBase=1), ["DevOK"], spec="Spec",
                        expect_violation="DevOK", workers=2, timeout=300)
        cases = _gen(ctx, "array", consts, spec="Spec", timeout=300 if q else 900)
        if not q:
            sim = _gen(ctx, "sim", consts, spec="SimSpec", simulate="num=%d" % NSIM, workers=1, timeout=900)
            rows = set((c["c"]["kind"], tuple(c["c"]["src"]["co"])) for c in sim)
            if len(sim) < 90 * NSIM or len(rows) < 0.9 * len(sim):
                raise ToolError("the simulation produced %d cases with %d different rows (expected %d random rows)" % (
                    len(sim), len(rows), 100 * NSIM))
            cases += sim
        ctx.cov["exhaustive"] = True    # every row of the arrays is replayed (the arrays are not the whole product space)
    for i, c in enumerate(cases):
        c["case"] = i + 1
    by = {c["case"]: c for c in cases}
    cpath = ctx.write_cases("rt", cases)
    obs = ctx.run("config_rt", cpath, name="rt", crate="h_config", timeout=600)

    # judge (TLC, spec/TraceConfig.tla -> Config!RtViol), in chunks
    olines = open(obs).read().splitlines()
    verdicts = []
    for k in range(0, len(olines), CHUNK):
        part = os.path.join(ctx.dir, "rt.obs.%d.ndjson" % (k // CHUNK))
        with open(part, "w") as f:
            f.write("\n".join(olines[k:k + CHUNK]) + "\n")
        verdicts += ctx.judge("rt%d" % (k // CHUNK), "TraceConfig", part, {}, timeout=600)
        os.remove(part)
    oby = {}
    stat = {"valid_roundtrip_ok": 0, "not_valid_refused_by_save": 0, "not_valid_but_saved": 0, "valid_with_verdict": 0,
            "valid_but_save_refused_nothing_written": 0,
            "panic_in_is_valid_outside_the_property": 0, "abstract_difference_but_equal": 0}
    drift = []
    nd = 0
    for line in olines:
        o = json.loads(line)
        oby[o["case"]] = o
        r, c = o["r"], by.get(o["case"])
        if r["fail"] != "none" and r["stage"] == "is_valid":
            stat["panic_in_is_valid_outside_the_property"] += 1
            ctx.notes.setdefault("panics_outside_the_property", [])
            if len(ctx.notes["panics_outside_the_property"]) < 3:
                ctx.notes["panics_outside_the_property"].append({"site": r["site"], "src": c["c"]["src"] if c else None})
        elif not r["valid0"]:
            stat["not_valid_but_saved" if r["saved"] else "not_valid_refused_by_save"] += 1
        elif r["saved"] and r["loaded"] and r["equal"] and r["valid1"]:
            stat["valid_roundtrip_ok"] += 1
        elif r["fail"] == "none" and not r["saved"]:
            stat["valid_but_save_refused_nothing_written"] += 1
        else:
            stat["valid_with_verdict"] += 1
        if r["equal"] and r["absdiff"]:
            stat["abstract_difference_but_equal"] += 1
        # L1 drift: the real is_valid() against Valid of the specification, the real outcome against the specified save / load
        ok = r["saved"] and r["loaded"] and r["equal"] and r["valid1"]
        if c is not None and not (r["fail"] != "none" and r["stage"] == "is_valid") and (
                c["exp"]["valid"] != r["valid0"] or c["exp"]["ok"] != ok):
            nd += 1
            if len(drift) < 3:
                drift.append({"src": c["c"]["src"], "kind": c["c"]["kind"], "Valid": c["exp"]["valid"], "is_valid": r["valid0"],
                              "specified_ok": c["exp"]["ok"], "ok": ok})
    for v in verdicts:
        c, o = by.get(v["case"]), oby.get(v["case"])
        r = o["r"] if o else {}
        what = "%s (%s configuration, %s)" % (v["clause"], c["c"]["kind"] if c else "?", json.dumps(c["c"]["src"]) if c else "?")
        if v["clause"] == "not-equal:(PartialEq)":
            what += " no difference in the serde view of the two configurations; first difference of the Debug texts at field `%s`" % (
                r.get("debug_hint"))
        elif r.get("orig") and v["clause"].startswith("not-equal:"):
            p = v["clause"][len("not-equal:"):]
            what += " original %s, loaded %s" % (r["orig"].get(p), r["back"].get(p))
        ctx.add_violation(_sig(v, c, o), what, c, engine="config_rt",
                          extra={k: r.get(k) for k in ("stage", "site", "reason", "debug_hint", "yaml") if r.get(k)})
    if not ctx.replay and stat["valid_roundtrip_ok"] + stat["valid_with_verdict"] == 0:
        raise ToolError("no valid configuration was executed (vacuous run)")

    seen = set()
    nt = 0
    for c in cases:
        k = canon(c["c"]["cfg"])
        if k in seen:
            continue
        seen.add(k)
        if c["exp"]["valid"]:
            nt += 1
    ctx.cov["evaluations"] += len(cases)
    ctx.cov["distinct_nontrivial"] += nt
    ctx.cov["traces_validated_against_impl"] += len(olines)
    fams = {}
    for c in cases:
        f = c["c"]["src"]["fam"] + "/" + c["c"]["kind"]
        fams[f] = fams.get(f, 0) + 1
    ctx.notes["cases_by_family"] = fams
    ctx.notes["outcomes"] = stat
    ctx.notes["pair_coverage_measured"] = _pair_coverage(cases)
    ctx.notes["drift"] = {"rt": {"cases_where_is_valid_or_the_outcome_differs_from_the_specification": nd, "first": drift}}
    ctx.cov["rule"] = (
        "TLC builds abstract ClientConfig / ServerConfig values from rows of an orthogonal array over Z_%d (every pair of "
        "classes of every two slots: strings by class out of a table of %s YAML-relevant strings at every string field, map "
        "key, set and list element; every Option None / Some; maps, sets and lists with 0 / 1 / 2 / 3 entries; every security "
        "policy name and URI, mode, password policy; booleans; numbers at 0 / 1 / typical / i64::MAX / i64::MAX+1 / "
        "max-of-type; floats incl. -0.0, 5e-324, f64::MAX, +-inf; durations up to u64::MAX s)%s, plus single changes of the "
        "first rows: every rule of is_valid() broken once, and valid corner configurations (path that is not UTF-8, cached "
        "thumbprints, client without endpoints and dangling default). TLC checks that the rows are valid by Valid() and the "
        "changes are not (ConstructionOK). The harness builds the real struct (ClientBuilder / public fields), calls "
        "is_valid, save, load, ==, is_valid; a TLA+ predicate (Config!RtViol) judges each observation. Distinct by abstract "
        "configuration; non-trivial = valid by Valid(). Drift = is_valid() differs from Valid(), or the outcome from the "
        "specified save / load of the pinned tree (SpecRtDev).") % (
            consts["P"], "86" if consts["Wide"] else "23 (quick: the rest of the 86 once at every string slot, family sweep)",
            "" if q else " and %d rows of random cubic polynomials over Z_89 (TLC simulation, seed %s)" % (100 * NSIM, ctx.seed))
    for idx in (0, len(cases) // 2, len(cases) - 1):
        ctx.sample({"kind": cases[idx]["c"]["kind"], "src": cases[idx]["c"]["src"]})
    log("[config_rt] %d cases, %d verdicts, %s, is_valid / outcome differs from the specification in %d cases" % (len(cases), len(verdicts), stat, nd))
    ctx.assumptions += [
        "string fields are exercised at the strings of the class table in h_config/src/table.rs (86 strings), not at arbitrary strings",
        "ClientConfig is built through ClientBuilder (its fields are crate-private); a reserved token id and a retry limit "
        "below -1, which the builder refuses, are patched in through serde_json (cases for Valid() conformance only)",
        "the field-by-field re-abstraction goes through serde_json::to_value of the original and of the loaded configuration "
        "(plus direct reads of the server's thumbprints and floats); the verdict `equal` is the PartialEq of the real type",
        "outcomes.abstract_difference_but_equal counts loaded configurations that are == the original while a re-abstracted field "
        "differs: the cached X509 thumbprint of a server user token, which is never written (equality ignores it since 0bb4f6df)",
        "files are written to a directory of the engine's own under std::env::temp_dir(), created and removed per case"]
