"""C40 Republish and acknowledgement see the same retained notifications."""
from checks.subs_common import *

LEVEL = "model_checking"


def run(ctx):
    q = ctx.quick
    s1 = [["CreateSub", 1, 1, 3, True, 0, 1], ["CreateItem", 1, 1, 1, 2, True, "Reporting", -1]]
    s2 = [["CreateSub", 1, 1, 3, True, 0, 1], ["CreateSub", 2, 1, 3, True, 0, 1],
          ["CreateItem", 1, 1, 1, 2, True, "Reporting", -1], ["CreateItem", 2, 1, 1, 2, True, "Reporting", -1]]
    one = consts(Vals={0, 1}, Acts={"Write", "Pub", "Tick", "Republish"}, Scripts=scripts([s1]),
                 AckModes={"none", "one", "all", "bogus"}, MaxWrites=3, MaxPubs=4, MaxTicks=4, MaxDepth=2 + (7 if q else 9))
    two = consts(SubIds={1, 2}, Vals={0, 1}, Acts={"Write", "Pub", "Tick", "Republish", "DeleteSub"}, Scripts=scripts([s2]),
                 AckModes={"none", "one", "bogus"}, MaxWrites=2, MaxPubs=4, MaxTicks=4, MaxDepth=4 + (6 if q else 8))
    ctx.model_check("design_one", "MCSubs", dict(one, Mons={"C40"}), ["C40"], view="MView")
    ctx.model_check("design_two", "MCSubs", dict(two, Mons={"C40"}), ["C40"], view="MView")
    gens = []
    h, r = ctx.gen("one_sub", "GenSubs", dict(one, MaxDepth=2 + (6 if q else 8)))
    gens.append(("one_sub", to_cases(take(h, 3000 if q else 50000, ctx.seed))))
    h, r = ctx.gen("two_subs", "GenSubs", dict(two, MaxDepth=4 + (5 if q else 7)))
    gens.append(("two_subs", to_cases(take(h, 1500 if q else 50000, ctx.seed))))
    # eviction when another subscription goes away: both subscriptions hold retained notifications (k each, 2k within the
    # limit of 4 per subscription), one of them is deleted (the limit shrinks to 4), a tick evicts; what is retained for the
    # surviving subscription alone was never over the limit and must still be there
    for k in (2, 3, 4) if q else (2, 3, 4, 5):
        ev = []
        for gone in (1, 2):
            sc = list(s2)
            for j in range(k):
                v = 1 + (j % 2)
                sc += [["Pub"], ["Pub"], ["Write", 1, v], ["Tick", 1]]
            sc += [["DeleteSub", gone], ["Tick", 1]]
            ev.append(sc)
        # after the script: two more calls (Republish of anything retained, publish requests with acknowledgements)
        evc = consts(SubIds={1, 2}, Vals={0, 1, 2}, Acts={"Republish", "Pub"}, Scripts=scripts(ev), AckModes={"one", "bogus"}, MaxPubs=99,
                     MaxDepth=len(ev[0]) + 2)
        ctx.model_check("design_evict_%d" % k, "MCSubs", dict(evc, Mons={"C40"}), ["C40"], view="MView")
        h, r = ctx.gen("evict_%d" % k, "GenSubs", evc)
        gens.append(("evict_%d" % k, to_cases(take(h, 600 if q else 8000, ctx.seed))))
    n = 300 if q else 4000
    h, r = ctx.gen("random", "GenSubs", dict(two, MaxDepth=40, MaxWrites=14, MaxPubs=18, MaxTicks=18),
                   simulate="num=%d" % max(20, n // 8))
    gens.append(("random", to_cases(take(h, n, ctx.seed))))
    ctx.cov["exhaustive"] = True

    def nontrivial(c):
        rep = any(s["ev"] == "Republish" for s in c["steps"])
        ack = any(s["ev"] == "Pub" and s["acks"] for s in c["steps"])
        return rep and ack

    pipeline(ctx, "C40", gens, trace_consts(two), nontrivial,
             "all interleavings of Write/Pub(acks: none, one retained, all, duplicate, unknown)/Tick/Republish(retained or unknown)/"
             "DeleteSubscription to a depth bound plus simulation; non-trivial = at least one republish and one acknowledging publish")
