"""Shared pipeline of the session engine (Session.tla / SessionProps.tla / engine `session`, crate h_session)."""
import json
from vlib import *
from checks.subs_common import take

ALL_ACTS = {"Create", "Activate", "Close", "Service", "Discovery", "ChannelChange", "Tick"}
BASE = dict(NConns=2, NSlots=2, Secure=False, DevChanPerConn=False, DevStaleNonce=False, Acts=ALL_ACTS, ActKinds={"anon"},
            SvcKinds={"Read", "Write"}, Creds={"good", "bad"}, ExtraToks={0, 8}, Timeouts={2}, Dts={3}, Warm=False, MaxDepth=6)
ARGS = ("ev", "conn", "tok", "kind", "cred", "g", "d", "tmo")


def consts(**kw):
    c = dict(BASE)
    c.update(kw)
    return c


def strip(s):
    return {k: s[k] for k in ARGS if k in s}


def to_cases(hists, c, name):
    return [{"secure": c["Secure"], "nconns": c["NConns"], "nslots": c["NSlots"], "gen": name, "steps": h} for h in hists]


def compare_drift(cases, obs_path):
    """L1 conformance: class / effect (of service requests) / status code (where the model names one) / projection of the
    real sessions equal what Session.tla predicted. Drift is reported, never an alarm."""
    exp = {(c["case"], i + 1): s for c in cases for i, s in enumerate(c["steps"])}
    n, drift, bad = 0, [], set()
    with open(obs_path) as f:
        for line in f:
            o = json.loads(line)
            e = exp.get((o["case"], o["i"]))
            if e is None or o["case"] in bad:
                continue
            n += 1
            keys = ["fail", "class", "chan", "tmo", "beyond", "st"]
            if e["ev"] == "Service":
                keys.append("effect")
            if e.get("code") not in (None, "BadAuth"):
                keys.append("code")
            for k in keys:
                if k in e and canon(e[k]) != canon(o.get(k)):
                    bad.add(o["case"])
                    drift.append({"case": o["case"], "i": o["i"], "field": k, "call": strip(e), "expected": e[k], "observed": o.get(k)})
                    break
    return n, drift


def pipeline(ctx, pid, gens, nontrivial, rule, env=None):
    """gens: list of lists of cases. Runs the harness, judges with the monitor of `pid`, records evidence."""
    all_cases = []
    for cases in gens:
        for c in cases:
            c["case"] = len(all_cases) + 1
            all_cases.append(c)
    if ctx.replay:
        all_cases = [json.load(open(ctx.replay))["case"]]
        all_cases[0]["case"] = 1
    cpath = ctx.write_cases("session", all_cases)
    obs = ctx.run("session", cpath, crate="h_session", env=dict(env or {}, VERIF_PKI_TAG=pid.lower(), VERIF_SEED=ctx.seed))
    verdicts = ctx.judge("session", "TraceSession", obs, {"Mons": {pid}})
    nsteps, drift = compare_drift(all_cases, obs)
    by = {c["case"]: c for c in all_cases}
    mine = [v for v in verdicts if v["prop"] == pid]
    for v in mine:
        c = by.get(v["case"])
        ctx.add_violation("%s:%s" % (pid, v["clause"]), "%s at step %s of case %s (%s)" % (v["clause"], v["i"], v["case"], c.get("gen") if c else "?"),
                          dict(c, case=1, steps=[strip(s) for s in c["steps"]]) if c else None, engine="session")
    seen, nt = set(), 0
    for c in all_cases:
        k = canon([c["secure"], [strip(s) for s in c["steps"]]])
        if k in seen:
            continue
        seen.add(k)
        if nontrivial(c):
            nt += 1
    ctx.cov["evaluations"] += len(all_cases)
    ctx.cov["distinct_nontrivial"] += nt
    ctx.cov["traces_validated_against_impl"] += len(all_cases)
    ctx.cov["rule"] = rule
    ctx.notes["steps_replayed"] = nsteps
    ctx.notes.setdefault("drift", {})["session"] = {"cases_with_L1_mismatch": len(drift), "first": drift[:3]}
    if all_cases:
        for idx in (0, len(all_cases) // 2, len(all_cases) - 1):
            c = all_cases[idx]
            ctx.sample({"gen": c.get("gen"), "secure": c["secure"], "steps": [strip(s) for s in c["steps"]][:20]})
    log("[session] %d cases, %d steps, %d verdicts for %s, %d drifting cases" % (len(all_cases), nsteps, len(mine), pid, len(drift)))
    return all_cases, verdicts, drift
