"""Shared pipeline of the address space engine (AddressSpace.tla / AspaceProps.tla / engine `aspace`)."""
import json
from vlib import *
from checks.subs_common import take, scripts, strip_expected as _se

BASE = dict(Nodes={1, 2, 3}, Types={"HC", "OR"}, DevDeleteReverse=False, DevNoVisited=False, Acts=set(), MaxDepth=5,
            Paths=Tla("{}"), Scripts=Tla("{}"), TranslateLast=False)


def consts(**kw):
    c = dict(BASE)
    c.update(kw)
    return c


def strip(step):
    s = dict(step)
    for k in ("st", "fail", "found", "res"):
        s.pop(k, None)
    return s


def st0(nodes):
    n = len(nodes)
    return {"nodes": sorted(nodes), "f": [[] for _ in range(n)], "i": [[] for _ in range(n)], "fa": [[] for _ in range(n)],
            "ia": [[] for _ in range(n)], "fc": [[] for _ in range(n)], "has": []}


def pipeline(ctx, pid, gens, c, nontrivial, rule, mode="child"):
    cases = []
    for name, hs in gens:
        for h in hs:
            cases.append({"case": len(cases) + 1, "gen": name, "nodes": len(c["Nodes"]), "types": sorted(c["Types"]),
                          "st0": st0(c["Nodes"]), "steps": h})
    if ctx.replay:
        cases = [json.load(open(ctx.replay))["case"]]
        cases[0]["case"] = 1
    cpath = ctx.write_cases("aspace", cases)
    obs = ctx.run("aspace", cpath, mode=mode, env={"VERIF_CHILD_MS": 20000})
    verdicts = ctx.judge("aspace", "TraceAspace", obs, {"Nodes": c["Nodes"], "Types": c["Types"], "Mons": {pid}})
    by = {x["case"]: x for x in cases}
    for v in verdicts:
        if v["prop"] != pid:
            continue
        x = by.get(v["case"])
        ctx.add_violation("%s:%s" % (pid, v["clause"]), "%s at step %s of case %s (%s)" % (v["clause"], v["i"], v["case"], x and x["gen"]),
                          dict(x, steps=[strip(s) for s in x["steps"]]) if x else None, engine="aspace")
    # L1 drift
    exp = {(x["case"], i + 1): s for x in cases for i, s in enumerate(x["steps"])}
    nsteps, drift, bad = 0, [], set()
    for line in open(obs):
        o = json.loads(line)
        e = exp.get((o["case"], o["i"]))
        if e is None or o["case"] in bad:
            continue
        nsteps += 1
        for k in ("fail", "found", "res", "st"):
            if k in e and canon(e[k]) != canon(o.get(k)):
                bad.add(o["case"])
                drift.append({"case": o["case"], "i": o["i"], "field": k, "call": strip(e), "expected": e[k], "observed": o.get(k)})
                break
    seen, nt = set(), 0
    for x in cases:
        k = canon([strip(s) for s in x["steps"]])
        if k not in seen:
            seen.add(k)
            nt += 1 if nontrivial(x) else 0
    ctx.cov["evaluations"] += len(cases)
    ctx.cov["distinct_nontrivial"] += nt
    ctx.cov["traces_validated_against_impl"] += len(cases)
    ctx.cov["rule"] = rule
    ctx.notes["steps_replayed"] = nsteps
    ctx.notes["drift"] = {"cases_with_L1_mismatch": len(drift), "first": drift[:3]}
    for idx in (0, len(cases) // 2, len(cases) - 1):
        if cases:
            ctx.sample({"gen": cases[idx]["gen"], "steps": [strip(s) for s in cases[idx]["steps"]]})
    log("[aspace] %d cases, %d steps, %d verdicts for %s, %d drifting cases" % (
        len(cases), nsteps, len([v for v in verdicts if v["prop"] == pid]), pid, len(drift)))
