"""C02 Decoding arbitrary bytes never panics, overflows the stack or over-allocates."""
import random
from vlib import *

LEVEL = "model_checking"

# length words substituted by the random driver: the C03 boundary set for the limits in force (default / minimal options)
WORDS = [-2, -1, 0, 1, 999, 1000, 1001, 8191, 8192, 8193, 65534, 65535, 65536, 327675, 327676, 2147483647]


def _judge(ctx, name, obs, cases, engine="nest"):
    verdicts = ctx.judge(name, "TraceCodecNest", obs, {})
    by = {c["case"]: c for c in cases}
    for v in verdicts:
        c = by.get(v["case"])
        cl = v["clause"]
        nm = c["c"].get("name", "?") if c else "?"
        if cl.startswith("process-"):
            # one signature per grammar cycle / path class: the edges without the repetition count
            s = "C02:%s:%s" % (cl, nm)
        else:
            s = "C02:%s" % cl
        ctx.add_violation(s, "%s (%s, options %s)" % (cl, nm, c["c"]["opts"]["nm"] if c else "?"), c, engine=engine)
    return verdicts


def run(ctx):
    maxlen = 3 if ctx.quick else 6
    # the tree before the repair: DataValue inside Variant and inner DiagnosticInfo took no depth lock
    ctx.model_check("dev_nolock", "MCCodecNest", {"MaxLen": 2, "NoLock": {"V>DV", "DI>DI"}}, ["CycleLocked"], spec="Spec",
                    expect_violation="CycleLocked")
    r = run_tlc(ctx.sub("gen_nest"), "GenCodecNest", {"MaxLen": maxlen, "NoLock": set(), "Deep": 200000}, spec="Spec",
                invariants=["DesignOK", "Emit"], workers=4, timeout=900)
    if r.error:
        raise ToolError("TLC error in GenCodecNest: %s" % r.error[:2000])
    if r.violated:
        raise ToolError("the specified decoder violates %s:\n%s" % (r.violated, r.trace[:3000]))
    ctx.cov["tlc_runs"].append({"name": "GenCodecNest", "generated": r.generated, "distinct": r.distinct, "wall_s": round(r.wall, 1)})
    ctx.cov["states"] += r.distinct
    ctx.cov["transitions"] += r.generated
    cases = parse_case_lines(r.printed)
    log("[tlc] GenCodecNest: %d states (nesting paths, cycles, mask bytes, frames), %d cases, %.1fs" % (r.distinct, len(cases), r.wall))
    if ctx.replay:
        cases = [json.load(open(ctx.replay))["case"]]
    for i, c in enumerate(cases):
        c["case"] = i + 1
    # repeated cycles (up to 200000 levels) run one child process per case; paths of a few edges cannot exhaust the stack
    deep = [c for c in cases if c["c"]["kind"] == "cycle"]
    flat = [c for c in cases if c["c"]["kind"] in ("path", "mask", "frame")]
    nverd = 0
    obs_all = []
    if deep:
        o = ctx.run("nest", ctx.write_cases("deep", deep), name="deep", mode="child", crate="h_codec", env={"VERIF_CHILD_MS": 20000})
        nverd += len(_judge(ctx, "deep", o, deep))
        obs_all.append(o)
    if flat:
        o = ctx.run("nest", ctx.write_cases("flat", flat), name="flat", mode="run", crate="h_codec")
        nverd += len(_judge(ctx, "flat", o, flat))
        obs_all.append(o)
    # drift against the decision of the design (accepted exactly when the locks fit)
    by = {c["case"]: c for c in cases}
    nd, first, nobs, outcomes = 0, [], 0, {}
    for p in obs_all:
        for line in open(p):
            o = json.loads(line)
            nobs += 1
            if "r" not in o:
                outcomes[o.get("fail", "?")] = outcomes.get(o.get("fail", "?"), 0) + 1
                continue
            out = o["r"]["out"]
            outcomes[out] = outcomes.get(out, 0) + 1
            c = by.get(o["case"])
            if c and c.get("exp") and c["exp"] != ("ok" if out in ("ok", "more") else out):
                nd += 1
                if len(first) < 3:
                    first.append({"name": c["c"]["name"], "opts": c["c"]["opts"]["nm"], "n": c["c"].get("n", 1), "expected": c["exp"], "observed": out})
    ctx.notes.setdefault("drift", {})["structured"] = {"cases_differing_from_specified_decision": nd, "first": first}
    kinds = {}
    for c in cases:
        kinds[c["c"]["kind"]] = kinds.get(c["c"]["kind"], 0) + 1
    ctx.cov["evaluations"] += len(cases)
    ctx.cov["distinct_nontrivial"] += len({canon([c["c"]["root"], c["c"]["opts"], c["c"]["segs"]]) for c in cases if c["c"]["kind"] != "frame"})
    ctx.cov["traces_validated_against_impl"] += nobs
    ctx.cov["exhaustive"] = True
    for idx in (0, len(deep) // 2, len(deep) - 1):
        if deep:
            c = deep[idx]["c"]
            ctx.sample({"name": c["name"], "root": c["root"], "opts": c["opts"]["nm"], "segs": c["segs"], "must_reject": c["must"]})

    # ---- secondary part: the random driver (seeded mutations of spec-generated valid encodings)
    nb = 60 if ctx.quick else 800
    per = 100 if ctx.quick else 300
    g = run_tlc(ctx.sub("gen_bases"), "GenCodecRt", {"Lvl": 0 if ctx.quick else 1}, spec="Spec", invariants=["Emit"], workers=4, timeout=900)
    if g.error:
        raise ToolError("TLC error in GenCodecRt: %s" % g.error[:2000])
    bases = [(c["c"]["ty"], c["exp"]["bytes"]) for c in parse_case_lines(g.printed) if len(c["exp"]["bytes"]) >= 3]
    rnd = random.Random(ctx.seed)
    bases = [bases[i] for i in sorted(rnd.sample(range(len(bases)), min(nb, len(bases))))]
    # the four frames of the specification, as the framing layer, the chunk decoder and the message decoders see them
    for c in cases:
        if c["c"]["kind"] == "frame":
            bases.append((c["c"]["root"], c["c"]["segs"][0]["b"]))
    muts = []
    default = {"nm": "default", "msg": 0, "str": 0, "bs": 0, "arr": 0, "depth": 0}
    for i, (ty, b) in enumerate(bases):
        for nm in ("default", "minimal"):
            muts.append({"case": 100000 + len(muts), "c": {"kind": "mut", "name": "mutations of a valid %s" % ty, "root": ty, "base": b,
                                                          "seed": i, "count": per, "words": WORDS, "opts": dict(default, nm=nm)}})
    nm_total = 0
    if muts and not ctx.replay:
        o = ctx.run("nest", ctx.write_cases("mut", muts), name="mut", mode="child", crate="h_codec", env={"VERIF_CHILD_MS": 60000, "VERIF_SEED": ctx.seed})
        nverd += len(_judge(ctx, "mut", o, muts))
        agg = {"ok": 0, "err": 0, "panic": 0, "ops": {}}
        for line in open(o):
            x = json.loads(line)
            if "r" in x:
                agg["ok"] += x["r"].get("nok", 0)
                agg["err"] += x["r"].get("nerr", 0)
                agg["panic"] += x["r"].get("npanic", 0)
                for k, v in x["r"].get("ops", {}).items():
                    agg["ops"][k] = agg["ops"].get(k, 0) + v
        nm_total = agg["ok"] + agg["err"] + agg["panic"]
        ctx.notes["random_driver"] = {"bases": len(bases), "batches": len(muts), "mutants_decoded": nm_total, "outcomes": agg,
                                      "note": "harness-side seeded mutations (bit flips, length-word substitutions from the C03 boundary set, "
                                              "truncations, byte replacement) of TLC-generated valid encodings; not enumerated by the specification"}
    ctx.notes["structured"] = {"cases_by_kind": kinds, "outcomes": outcomes, "max_path_length": maxlen}
    ctx.cov["rule"] = (
        "Structured part (model checked): TLC enumerates every nesting path of the container grammar (13 edges: Variant>Variant scalar / array / "
        "multi-dimensional array, Variant>DataValue scalar / array, DataValue>Variant with and without trailing status, Variant>DiagnosticInfo "
        "scalar / array, DiagnosticInfo>inner with and without fields, Variant>ExtensionObject scalar / array) up to %d edges from each root, "
        "every simple cycle repeated depth-1, depth, depth+1 and 200000 times (bare and embedded in CallRequest / WriteRequest / ServiceFault), "
        "the first byte 0..255 of Variant, DataValue, DiagnosticInfo, NodeId, ExpandedNodeId, LocalizedText, ExtensionObject and 4 UA TCP frames; "
        "options default, minimal and depth 3. TLC checks the specified decoder on each (depth budget, accepted exactly when the locks fit, "
        "allocation bound); the harness writes the bytes and decodes them on a 2 MiB stack with a counting allocator (repeated cycles and mutation batches: one child process each, abort / timeout are observations); the "
        "TLA+ predicate demands outcome in {value, error}, rejection when a type is nested in itself more often than the depth limit, and peak "
        "allocation <= AllocBound(limits, input length). distinct_nontrivial = distinct (root, options, bytes). Secondary part (random driver, "
        "reported under random_driver, %d mutants): seeded mutations of valid encodings, judged by the same predicate per batch. NOT covered: "
        "uniformly random byte strings; service messages other than the 4 representative ones; ExtensionObject bodies are opaque to the decoder."
        % (maxlen, nm_total))
    ctx.assumptions += ["decoding runs on a thread with a 2 MiB stack (tokio's default worker stack); the child process is killed after 20 s",
                        "peak allocation is measured by a counting global allocator in the harness process from just before the decode call",
                        "max_message_size = 0 (no limit) is not exercised"]
    log("[nest] %d structured cases (%s), %d verdicts, %d decisions differ from the design (drift), %d mutants" % (
        len(cases), kinds, nverd, nd, nm_total))
