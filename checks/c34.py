"""C34 Node management results describe what actually happened."""
import json
from vlib import *
from checks.subs_common import take

LEVEL = "model_checking"


def strip(s):
    s = dict(s)
    for k in ("st", "fail", "status", "id"):
        s.pop(k, None)
    return s


def run(ctx):
    q = ctx.quick
    c = dict(K=6, Types={"HC", "OR"}, Names={"x", "y"}, DevRefFromChild=False, DevAutoIdCollision=False, DevChildResultIgnored=False,
             TRs={True, False}, Acts={"AddNode", "AddRef", "DelRef", "DelNode"}, MaxDepth=3 if q else 4)
    ctx.model_check("design", "MCNodeMgmt", dict(c, MaxDepth=4, TRs={True}), ["C34"], view="MView")
    ctx.model_check("dev_ref_from_child", "MCNodeMgmt", dict(c, DevRefFromChild=True), ["C34"], view="MView", expect_violation="C34")
    ctx.model_check("dev_auto_id", "MCNodeMgmt", dict(c, DevAutoIdCollision=True), ["C34"], view="MView", expect_violation="C34")
    # deleting with and without the target references, re-creating nodes under references that were left behind
    cd = dict(c, K=3, Types={"HC"}, Names={"x"}, Acts={"AddNode", "DelNode"}, MaxDepth=4 if q else 5)
    ctx.model_check("design_delete", "MCNodeMgmt", dict(cd, MaxDepth=6), ["C34"], view="MView")
    # the departure that the fix removed: what was deleted below the given id did not count for the status
    ctx.model_check("dev_child_result_ignored", "MCNodeMgmt", dict(cd, MaxDepth=6, DevChildResultIgnored=True), ["C34"], view="MView", expect_violation="C34")
    h, r = ctx.gen("sequences", "GenNodeMgmt", c if q else dict(c, TRs={True}))
    hs = take(h, 4000 if q else 60000, ctx.seed)
    h, r = ctx.gen("delete", "GenNodeMgmt", cd)
    hs += take(h, 2500 if q else 40000, ctx.seed)
    n = 300 if q else 3000
    h2, r = ctx.gen("random", "GenNodeMgmt", dict(c, MaxDepth=10), simulate="num=%d" % max(20, n // 8))
    hs += take(h2, n, ctx.seed)
    ctx.cov["exhaustive"] = True
    cases = [{"case": i + 1, "k": 6, "steps": x} for i, x in enumerate(hs)]
    if ctx.replay:
        cases = [json.load(open(ctx.replay))["case"]]
        cases[0]["case"] = 1
    cpath = ctx.write_cases("nodemgmt", cases)
    obs = ctx.run("nodemgmt", cpath)
    verdicts = ctx.judge("nodemgmt", "TraceNodeMgmt", obs, {})
    by = {x["case"]: x for x in cases}
    for v in verdicts:
        x = by.get(v["case"])
        ctx.add_violation("C34:%s" % v["clause"], "%s at step %s of case %s" % (v["clause"], v["i"], v["case"]),
                          dict(x, steps=[strip(s) for s in x["steps"]]) if x else None, engine="nodemgmt")
    exp = {(x["case"], i + 1): s for x in cases for i, s in enumerate(x["steps"])}
    nsteps, drift, bad = 0, [], set()
    for line in open(obs):
        o = json.loads(line)
        e = exp.get((o["case"], o["i"]))
        if e is None or o["case"] in bad:
            continue
        nsteps += 1
        for k in ("fail", "status", "id", "st"):
            if k in e and canon(e[k]) != canon(o.get(k)):
                bad.add(o["case"])
                drift.append({"case": o["case"], "i": o["i"], "field": k, "call": strip(e), "expected": e[k], "observed": o.get(k)})
                break
    seen, nt = set(), 0
    for x in cases:
        k = canon([strip(s) for s in x["steps"]])
        if k not in seen:
            seen.add(k)
            auto = sum(1 for s in x["steps"] if s["ev"] == "AddNode" and s["rid"] == 0)
            expl = sum(1 for s in x["steps"] if s["ev"] == "AddNode" and s["rid"] != 0)
            nt += 1 if auto and expl else 0
    ctx.cov["evaluations"] += len(cases)
    ctx.cov["distinct_nontrivial"] += nt
    ctx.cov["traces_validated_against_impl"] += len(cases)
    ctx.cov["rule"] = ("every sequence of AddNodes (parent existing/missing, explicit ids equal to the next server-assigned ids or null, "
                       "2 browse names, 2 reference types) / AddReferences / DeleteReferences / DeleteNodes items up to the depth bound "
                       "plus simulation, through the real services on a real server; non-trivial = both an explicit and a server "
                       "assigned id were requested")
    ctx.notes["steps_replayed"] = nsteps
    ctx.notes["drift"] = {"cases_with_L1_mismatch": len(drift), "first": drift[:3]}
    for idx in (0, len(cases) // 2, len(cases) - 1):
        ctx.sample({"steps": [strip(s) for s in cases[idx]["steps"]]})
    log("[nodemgmt] %d cases, %d steps, %d verdicts, %d drifting" % (len(cases), nsteps, len(verdicts), len(drift)))
