"""C11 Framing is independent of how the byte stream is segmented.

spec/Framing.tla (L1: TcpCodec::decode driven like FramedRead; client SendBuffer {Writing, Reading(end)}),
spec/FramingProps.tla (L2 monitor), harness crate h_framing (engines frcat, framing, sendbuf)."""
import json, os, random
from vlib import *

LEVEL = "model_checking"
CRATE = "h_framing"

SHAPE = dict(HdrLen=8, Peek=9, Slack=0, LoseTail=False)          # the pinned tree: buf.len() > 8, >= message_size
NONE = Tla("{}")


def dec_consts(streams, **kw):
    c = dict(SHAPE, Side="dec", Streams=streams, Scripts=NONE)
    c.update(kw)
    return c


def sb_consts(scripts, **kw):
    c = dict(SHAPE, Side="sb", Streams=NONE, Scripts=scripts)
    c.update(kw)
    return c


def tla_set(items):
    return Tla("{" + ", ".join(tla_value(x) for x in items) + "}")


def catalog(ctx, names):
    p = ctx.write_cases("catalog", [{"case": 1, "names": names}])
    obs = ctx.run("frcat", p, name="catalog", crate=CRATE)
    cat, msgs = {}, {}
    for line in open(obs):
        o = json.loads(line)
        cat[o["name"]] = o
        msgs.setdefault(o["msg"], []).append(o["len"])
    return cat, msgs


def stream(cat, names, max_size, cuts, run=1, big=None):
    """a stream of catalog frames with its segmentation mode; big = (name, declared, len) appends an oversize frame"""
    fr = [{"id": i + 1, "kind": n, "size": cat[n]["size"], "len": cat[n]["len"]} for i, n in enumerate(names)]
    if big:
        fr.append({"id": len(fr) + 1, "kind": big[0], "size": big[1], "len": big[2]})
    return {"frames": fr, "max": max_size, "cuts": cuts, "run": run}


def script(msgs, cuts, run=1, idle=0):
    return {"msgs": msgs, "cuts": cuts, "run": run, "idle": idle}


def take(cases, n, seed):
    if len(cases) <= n:
        return cases
    r = random.Random(seed)
    return [cases[i] for i in sorted(r.sample(range(len(cases)), n))]


def dec_case(h):
    st = h["steps"][0]
    return {"engine": "framing", "frames": [{"name": f["kind"], "size": f["size"], "len": f["len"]} for f in st["frames"]],
            "max": st["max"], "steps": h["steps"]}


def sb_case(h, payload_of):
    st = h["steps"][0]
    return {"engine": "sendbuf", "msgs": [payload_of[tuple(m)] for m in st["msgs"]], "steps": h["steps"]}


DEC_FIELDS = {"Read": ("n", "nout", "at", "err", "buf"), "Eof": ("nout", "err", "buf")}
SB_FIELDS = {"Submit": ("ok", "chunks", "st"), "Encode": ("ok", "st"), "Sock": ("n", "offered", "got", "tot", "st"),
             "End": ("idle", "tot", "want", "st")}


def proj(rec, fields):
    o = {}
    for f in fields:
        o[f] = len(rec.get("out", [])) if f == "nout" else rec.get(f)
    return o


def drift(cases, obs_path, fields):
    exp = {(c["case"], i + 1): s for c in cases for i, s in enumerate(c["steps"])}
    n, bad, first = 0, set(), []
    for line in open(obs_path):
        o = json.loads(line)
        e = exp.get((o["case"], o["i"]))
        f = fields.get(o.get("ev"))
        if e is None or f is None or o["case"] in bad:
            continue
        n += 1
        if canon(proj(e, f)) != canon(proj(o, f)):
            bad.add(o["case"])
            if len(first) < 3:
                first.append({"case": o["case"], "i": o["i"], "ev": o["ev"], "expected": proj(e, f), "observed": proj(o, f)})
    return n, len(bad), first


def run(ctx):
    q = ctx.quick
    # ------------------------------------------------------------------ 1. the design and its monitor, model checked
    inv = ["C11", "Progress", "RunEquiv"]
    abs2 = Tla("AbstractStreams({3, 4, 5, 6}, 3, 5)")                 # 2 byte header: <= 3 frames of 3..6 bytes, 6 is oversize
    abs8 = Tla("AbstractStreams({9, 10, 12}, %d, 10)" % (2 if q else 3))  # 8 byte header: frames of 9..12 bytes, 12 is oversize
    ctx.model_check("dec_hdr2", "MCFraming", dec_consts(abs2, HdrLen=2, Peek=3), inv, view="MView", workers=4)
    ctx.model_check("dec_hdr8", "MCFraming", dec_consts(abs8), inv, view="MView", workers=4)
    two = Tla("AbstractStreams({9, 12}, 2, 0)")
    ctx.model_check("dev_peek7", "MCFraming", dec_consts(two, Peek=7), ["C11"], view="MView", expect_violation="C11", workers=4)
    ctx.model_check("dev_slack", "MCFraming", dec_consts(two, Slack=1), ["C11"], view="MView", expect_violation="C11", workers=4)
    # every sequence of partial / zero / pending writes for every script of <= 3 messages of <= 3 chunks, <= 10 (quick: 6) bytes
    scripts = Tla("AbstractScripts(1..5, 3, 3, %d, %d)" % ((6, 1) if q else (10, 2)))
    ctx.model_check("sendbuf", "MCFraming", sb_consts(scripts), inv, view="MView", timeout=1500, workers=4)
    ctx.model_check("dev_losetail", "MCFraming", sb_consts(Tla("AbstractScripts(1..4, 2, 2, 6, 1)"), LoseTail=True), ["C11"],
                    view="MView", expect_violation="C11", workers=4)

    # ------------------------------------------------------------------ 2. real frames
    names = ["hel", "hel0", "ack", "err", "err0", "opn", "clo", "msg", "abort", "tiny12", "tiny13", "w:100", "w:9000", "w:18000"]
    cat, msgs = catalog(ctx, names)
    M = 20000                                                           # max_message_size of the decoder
    w3 = ["w:18000#1", "w:18000#2", "w:18000#3"]
    gens = []

    def gen_dec(name, streams, simulate=None, limit=None):
        h, r = ctx.gen(name, "GenFraming", dec_consts(tla_set(streams)), simulate=simulate, timeout=1500, workers=4,
                       spec="GSpecSim" if simulate else "GSpec")
        by = {}
        for x in h:
            c = dec_case(x)
            by.setdefault(name + ":" + "+".join(f["name"] for f in c["frames"]), []).append(c)
        for k in sorted(by):
            gens.append((k, take(by[k], limit, ctx.seed) if limit else by[k]))

    long1 = ["hel", "ack", "opn", "msg", "w:100#1", "err", "clo"]
    long2 = ["hel0", "opn"] + w3 + ["msg", "w:9000#1", "w:9000#2", "abort", "err0"]
    long3 = ["msg"] + w3
    huge = ("bigmsg", 1 << 30, 40)
    # exhaustive: every segmentation of the smallest frame; every combination of cuts next to header ends and frame ends
    # for streams of two (thorough: three) frames incl. frames at and above the maximum; the all-single-bytes schedule
    pairs = [["tiny12", "tiny13"]] if q else [["hel", "ack"], ["err0", "msg"], ["tiny12", "tiny13"], ["opn", "clo"], ["abort", "err"]]
    exh = [stream(cat, ["tiny12"], M, "all")] + [stream(cat, p, M, "near") for p in pairs] + [
        stream(cat, ["ack"], 28, "near"),                                       # size = maximum: accepted
        stream(cat, ["tiny13"], M, "edge", big=("bigmsg", M + 1, 16)),          # one byte above the maximum, cut short
        stream(cat, ["err0"], 64, "edge", big=("bighel", 65, 65)),              # oversize frame present in full
        stream(cat, long1, M, "ones", run=100000), stream(cat, long3, M, "ones", run=100000, big=huge)]
    if not q:
        exh += [stream(cat, ["msg"], 100, "near", big=("bigerr", 70000, 9)), stream(cat, long2, M, "ones", run=100000),
                stream(cat, ["hel", "ack", "msg"], M, "edge"), stream(cat, ["tiny12", "err0", "tiny13"], M, "edge")]
    gen_dec("exh", exh, limit=1200 if q else 50000)
    # sampled by TLC simulation: long streams of real frames, segment sizes from KSet, runs of equal reads
    gen_dec("sim", [stream(cat, long1, M, "sample", run=64), stream(cat, long2, M, "sample", run=64),
                    stream(cat, long3, M, "sample", run=64, big=huge)], simulate="num=%d" % (100 if q else 1500))

    # send side: scripts of WriteRequests whose secured chunks have the sizes the catalog measured
    payload_of = {tuple(msgs[n]): int(n[2:]) for n in msgs if n.startswith("w:")}
    m1, m2, m3 = msgs["w:100"], msgs["w:9000"], msgs["w:18000"]

    def gen_sb(name, scr, simulate=None, limit=None):
        h, r = ctx.gen(name, "GenFraming", sb_consts(tla_set(scr)), simulate=simulate, timeout=1500, workers=4,
                       spec="GSpecSim" if simulate else "GSpec")
        by = {}
        for x in h:
            c = sb_case(x, payload_of)
            by.setdefault(name + ":" + "+".join(str(m) for m in c["msgs"]), []).append(c)
        for k in sorted(by):
            gens.append((k, take(by[k], limit, ctx.seed) if limit else by[k]))

    # exhaustive: every combination of writes that end 1 or 2 bytes into a chunk, in its middle, 1 byte before its end or at
    # its end (with one pending / zero answer anywhere for the one message scripts); single byte writes
    if q:
        sexh = [script([m1], "near", idle=1), script([m2], "near"), script([m1, m1], "near"), script([m2, m1], "ones", run=100000)]
    else:
        sexh = [script([m1], "near", idle=1), script([m2], "near", idle=1), script([m3], "near"), script([m1, m2], "near"),
                script([m3, m1, m2], "ones", run=100000)]
    gen_sb("sb_exh", sexh, limit=1200 if q else 30000)
    gen_sb("sb_sim", [script(x, "sample", run=64, idle=4) for x in ([m1, m3, m2], [m2, m2, m1], [m3, m3])],
           simulate="num=%d" % (100 if q else 1500))
    sgens = []

    # ------------------------------------------------------------------ 3. replay on the real code, 4. judge
    all_cases = []
    for name, cs in gens + sgens:
        for c in cs:
            c["case"] = len(all_cases) + 1
            c["gen"] = name
            all_cases.append(c)
    if ctx.replay:
        rp = json.load(open(ctx.replay))
        all_cases = [dict(rp["case"], case=1)]
    by_case = {c["case"]: c for c in all_cases}
    nsteps, ndrift, firsts = 0, 0, []
    for engine, fields in (("framing", DEC_FIELDS), ("sendbuf", SB_FIELDS)):
        cs = [c for c in all_cases if c["engine"] == engine]
        if not cs:
            continue
        obs = ctx.run(engine, ctx.write_cases(engine, cs), crate=CRATE)
        for v in ctx.judge(engine, "TraceFraming", obs, {}):
            c = by_case.get(v["case"])
            ctx.add_violation("C11:%s" % v["clause"], "%s at step %d of case %s (%s)" % (v["clause"], v["i"], v["case"], c.get("gen")),
                              c, engine=engine)
        n, nd, first = drift(cs, obs, fields)
        nsteps += n
        ndrift += nd
        firsts += first
    nt, seen = 0, set()
    for c in all_cases:
        st = c["steps"]
        key = canon([c["engine"], c.get("frames"), c.get("max"), c.get("msgs"),
                     [[s.get(k) for k in ("ev", "k", "n", "r")] for s in st]])
        if key in seen:
            continue
        seen.add(key)
        if c["engine"] == "framing":
            nt += any(s["ev"] == "Read" and s["buf"] > 0 for s in st)       # a read ended inside a frame
        else:
            nt += any(s["ev"] == "Sock" and (s["got"] < s["offered"]) for s in st)   # a short, zero or pending write
    ctx.cov["evaluations"] += len(all_cases)
    ctx.cov["distinct_nontrivial"] += nt
    ctx.cov["traces_validated_against_impl"] += len(all_cases)
    ctx.cov["exhaustive"] = True
    ctx.cov["rule"] = ("TLC model-checks Framing.tla with the monitor attached for every stream of <= 3 abstract frames and EVERY "
                       "segmentation (Read(k) for all k), and every script of <= 3 messages of <= 3 chunks (<= 10 secured bytes) with every "
                       "sequence of partial / zero / pending writes; TLC generates the schedules replayed on the real TcpCodec and SendBuffer: "
                       "every segmentation of a 12 byte frame, every combination of cuts next to header ends and frame ends for streams "
                       "of 2 (thorough: 3) real frames incl. frames at and above max_message_size, simulation-sampled segmentations of "
                       "streams of up to 10 real frames (HEL ACK ERR OPN CLO MSG, 3-chunk messages) and the all-single-bytes schedule; "
                       "partial-write schedules (near chunk start / middle / end exhaustively, sampled, single bytes) over 1..3 chunk messages; "
                       "distinct by stream / script and schedule; non-trivial = some read ends inside a frame / some write is short")
    ctx.notes["cases_per_generator"] = {n: len(cs) for n, cs in gens + sgens}
    ctx.notes["distinct_cases"] = len(seen)
    ctx.notes["steps_replayed"] = nsteps
    ctx.notes["drift"] = {"cases_with_L1_mismatch": ndrift, "first": firsts[:3]}
    ctx.notes["catalog"] = {k: v["len"] for k, v in cat.items()}
    for idx in (0, len(all_cases) // 2, len(all_cases) - 1):
        c = all_cases[idx]
        ctx.sample({"gen": c.get("gen"), "engine": c["engine"], "frames": c.get("frames"), "msgs": c.get("msgs"),
                    "steps": [{k: s[k] for k in ("ev", "k", "n", "r") if k in s} for s in c["steps"][:30]]})
    ctx.assumptions += ["frames are identified by the sha1 of their bytes (sent) / of their re-encoding with the real encoders (yielded)",
                        "the send buffer is driven like client::transport::tcp::TcpTransport::poll drives it; a Pending write future is "
                        "dropped (select! cancellation); secured chunks are observed through the cfg-guarded projection "
                        "SendBuffer::verif_queued_chunks and SecureChannel::apply_security (policy None)",
                        "a frame whose declared size exceeds max_message_size ends the stream; only the frames before it are due"]
    log("[c11] %d cases (%d non-trivial), %d steps, %d drifting cases" % (len(all_cases), nt, nsteps, ndrift))
