"""C11 Framing is independent of how the byte stream is segmented.

spec/Framing.tla (L1: TcpCodec::decode driven like FramedRead; client SendBuffer {Writing, Reading(end)}),
spec/FramingProps.tla (L2 monitor), harness crate h_framing (engines frcat, framing, sendbuf)."""
import json, os, random
from vlib import *

LEVEL = "model_checking"
CRATE = "h_framing"

SHAPE = dict(HdrLen=8, Peek=9, Slack=0, LoseTail=False)          # the pinned tree: buf.len() > 8, >= message_size
NONE = Tla("{}")


def dec_consts(streams, cuts, max_run=1, **kw):
    c = dict(SHAPE, Side="dec", Streams=streams, Cuts=cuts, MaxRun=max_run, Scripts=NONE, MaxIdle=0)
    c.update(kw)
    return c


def sb_consts(scripts, cuts, max_run=1, max_idle=2, **kw):
    c = dict(SHAPE, Side="sb", Streams=NONE, Cuts=cuts, MaxRun=max_run, Scripts=scripts, MaxIdle=max_idle)
    c.update(kw)
    return c


def tla_set(items):
    return Tla("{" + ", ".join(tla_value(x) for x in items) + "}")


def catalog(ctx, names):
    p = ctx.write_cases("catalog", [{"case": 1, "names": names}])
    obs = ctx.run("frcat", p, name="catalog", crate=CRATE)
    cat, msgs = {}, {}
    for line in open(obs):
        o = json.loads(line)
        cat[o["name"]] = o
        msgs.setdefault(o["msg"], []).append(o["len"])
    return cat, msgs


def stream(cat, names, max_size, big=None):
    """a stream of catalog frames; big = (name, declared, len) appends an oversize frame"""
    fr = [{"id": i + 1, "kind": n, "size": cat[n]["size"], "len": cat[n]["len"]} for i, n in enumerate(names)]
    if big:
        fr.append({"id": len(fr) + 1, "kind": big[0], "size": big[1], "len": big[2]})
    return {"frames": fr, "max": max_size}


def take(cases, n, seed):
    if len(cases) <= n:
        return cases
    r = random.Random(seed)
    return [cases[i] for i in sorted(r.sample(range(len(cases)), n))]


def dec_case(h):
    st = h["steps"][0]
    return {"engine": "framing", "frames": [{"name": f["kind"], "size": f["size"], "len": f["len"]} for f in st["frames"]],
            "max": st["max"], "steps": h["steps"]}


def sb_case(h, payload_of):
    st = h["steps"][0]
    return {"engine": "sendbuf", "msgs": [payload_of[tuple(m)] for m in st["msgs"]], "steps": h["steps"]}


DEC_FIELDS = {"Read": ("n", "nout", "at", "err", "buf"), "Eof": ("nout", "err", "buf")}
SB_FIELDS = {"Submit": ("ok", "chunks", "st"), "Encode": ("ok", "st"), "Sock": ("n", "offered", "got", "tot", "st"),
             "End": ("idle", "tot", "want", "st")}


def proj(rec, fields):
    o = {}
    for f in fields:
        o[f] = len(rec.get("out", [])) if f == "nout" else rec.get(f)
    return o


def drift(cases, obs_path, fields):
    exp = {(c["case"], i + 1): s for c in cases for i, s in enumerate(c["steps"])}
    n, bad, first = 0, set(), []
    for line in open(obs_path):
        o = json.loads(line)
        e = exp.get((o["case"], o["i"]))
        f = fields.get(o.get("ev"))
        if e is None or f is None or o["case"] in bad:
            continue
        n += 1
        if canon(proj(e, f)) != canon(proj(o, f)):
            bad.add(o["case"])
            if len(first) < 3:
                first.append({"case": o["case"], "i": o["i"], "ev": o["ev"], "expected": proj(e, f), "observed": proj(o, f)})
    return n, len(bad), first


def run(ctx):
    q = ctx.quick
    # ------------------------------------------------------------------ 1. the design and its monitor, model checked
    abs2 = Tla("AbstractStreams({3, 4, 5, 6}, 3, 5)")                 # 2 byte header: <= 3 frames of 3..6 bytes, 6 is oversize
    abs8 = Tla("AbstractStreams({9, 10, 12}, %d, 10)" % (2 if q else 3))  # 8 byte header: frames of 9..12 bytes, 12 is oversize
    ctx.model_check("dec_hdr2", "MCFraming", dec_consts(abs2, "all", HdrLen=2, Peek=3), ["C11", "Progress", "RunEquiv"], view="MView")
    ctx.model_check("dec_hdr8", "MCFraming", dec_consts(abs8, "all"), ["C11", "Progress", "RunEquiv"], view="MView")
    ctx.model_check("dev_peek7", "MCFraming", dec_consts(Tla("AbstractStreams({9, 12}, 2, 0)"), "all", Peek=7), ["C11"],
                    view="MView", expect_violation="C11")
    ctx.model_check("dev_slack", "MCFraming", dec_consts(Tla("AbstractStreams({9, 12}, 2, 0)"), "all", Slack=1), ["C11"],
                    view="MView", expect_violation="C11")
    scripts = Tla("AbstractScripts(1..5, 3, 3, %d)" % (7 if q else 10))  # every partial write sequence of <= 10 secured bytes
    ctx.model_check("sendbuf", "MCFraming", sb_consts(scripts, "all", max_idle=1 if q else 2), ["C11", "Progress", "RunEquiv"], view="MView",
                    timeout=1500)
    ctx.model_check("dev_losetail", "MCFraming", sb_consts(Tla("AbstractScripts(1..4, 2, 2, 6)"), "all", LoseTail=True), ["C11"],
                    view="MView", expect_violation="C11")

    # ------------------------------------------------------------------ 2. real frames
    names = ["hel", "hel0", "ack", "err", "err0", "opn", "clo", "msg", "abort", "tiny12", "tiny13", "w:100", "w:9000", "w:18000"]
    cat, msgs = catalog(ctx, names)
    M = 20000                                                           # max_message_size of the decoder
    w3 = ["w:18000#1", "w:18000#2", "w:18000#3"]
    gens = []

    def gen_dec(name, streams, cuts, max_run=1, simulate=None, limit=None):
        h, r = ctx.gen(name, "GenFraming", dec_consts(tla_set(streams), cuts, max_run), simulate=simulate, timeout=1500,
                       spec="GSpecSim" if simulate else "GSpec")
        cs = [dec_case(x) for x in h]
        gens.append((name, take(cs, limit, ctx.seed) if limit else cs))

    # exhaustive: every segmentation of the smallest frame, and every combination of cuts next to header ends and frame ends
    gen_dec("all_tiny12", [stream(cat, ["tiny12"], M)], "all", limit=1000 if q else None)
    pairs = [["tiny12", "tiny13"]] if q else [["hel", "ack"], ["err0", "msg"], ["tiny12", "tiny13"], ["opn", "clo"], ["abort", "err"]]
    near = [stream(cat, p, M) for p in pairs] + [
        stream(cat, ["ack"], 28),                                       # size = maximum: accepted
        stream(cat, ["tiny13"], M, big=("bigmsg", M + 1, 16)),          # one byte above the maximum, cut short
        stream(cat, ["err0"], 64, big=("bighel", 65, 65))]              # oversize frame present in full
    if not q:
        near.append(stream(cat, ["msg"], 100, big=("bigerr", 70000, 9)))
    gen_dec("near_pairs", near, "near", limit=2500 if q else None)
    if not q:
        gen_dec("near_triples", [stream(cat, ["hel", "ack", "msg"], M), stream(cat, ["tiny12", "err0", "tiny13"], M)], "near",
                limit=60000)
    # sampled by TLC simulation: long streams of real frames, segment sizes from KSet, runs of equal reads
    long1 = stream(cat, ["hel", "ack", "opn", "msg", "w:100#1", "err", "clo"], M)
    long2 = stream(cat, ["hel0", "opn"] + w3 + ["msg", "w:9000#1", "w:9000#2", "abort", "err0"], M)
    long3 = stream(cat, ["msg"] + w3, M, big=("bigmsg", 1 << 30, 40))
    gen_dec("random", [long1, long2, long3], "sample", max_run=64, simulate="num=%d" % (100 if q else 1500))
    # the all-single-bytes schedule
    gen_dec("single_bytes", [long1, long2, long3] if not q else [long1, long3], "ones", max_run=100000)

    # send side: scripts of WriteRequests whose secured chunks have the sizes the catalog measured
    payload_of = {tuple(msgs[n]): int(n[2:]) for n in msgs if n.startswith("w:")}
    m1, m2, m3 = msgs["w:100"], msgs["w:9000"], msgs["w:18000"]
    sgens = []

    def gen_sb(name, scr, cuts, max_run=1, max_idle=1, simulate=None, limit=None):
        h, r = ctx.gen(name, "GenFraming", sb_consts(tla_set(scr), cuts, max_run, max_idle), simulate=simulate, timeout=1500,
                       spec="GSpecSim" if simulate else "GSpec")
        cs = [sb_case(x, payload_of) for x in h]
        sgens.append((name, take(cs, limit, ctx.seed) if limit else cs))

    gen_sb("sb_near_one", [[m2]] if q else [[m1], [m2]], "near", max_idle=1, limit=1500 if q else None)
    gen_sb("sb_near", [[m1, m1]] if q else [[m3], [m1, m2], [m2, m2]], "near", max_idle=0, limit=1500 if q else 40000)
    gen_sb("sb_random", [[m1, m3, m2], [m2, m2, m1], [m3, m3]], "sample", max_run=64, max_idle=4,
           simulate="num=%d" % (100 if q else 1500))
    gen_sb("sb_single_bytes", [[m2, m1]] if q else [[m3, m1, m2]], "ones", max_run=100000, max_idle=0)

    # ------------------------------------------------------------------ 3. replay on the real code, 4. judge
    all_cases = []
    for name, cs in gens + sgens:
        for c in cs:
            c["case"] = len(all_cases) + 1
            c["gen"] = name
            all_cases.append(c)
    if ctx.replay:
        rp = json.load(open(ctx.replay))
        all_cases = [dict(rp["case"], case=1)]
    by_case = {c["case"]: c for c in all_cases}
    nsteps, ndrift, firsts = 0, 0, []
    for engine, fields in (("framing", DEC_FIELDS), ("sendbuf", SB_FIELDS)):
        cs = [c for c in all_cases if c["engine"] == engine]
        if not cs:
            continue
        obs = ctx.run(engine, ctx.write_cases(engine, cs), crate=CRATE)
        for v in ctx.judge(engine, "TraceFraming", obs, {}):
            c = by_case.get(v["case"])
            ctx.add_violation("C11:%s" % v["clause"], "%s at step %d of case %s (%s)" % (v["clause"], v["i"], v["case"], c.get("gen")),
                              c, engine=engine)
        n, nd, first = drift(cs, obs, fields)
        nsteps += n
        ndrift += nd
        firsts += first
    nt = 0
    for c in all_cases:
        st = c["steps"]
        if c["engine"] == "framing":
            nt += any(s["ev"] == "Read" and s["buf"] > 0 for s in st)       # a read ended inside a frame
        else:
            nt += any(s["ev"] == "Sock" and (s["got"] < s["offered"]) for s in st)   # a short, zero or pending write
    ctx.cov["evaluations"] += len(all_cases)
    ctx.cov["distinct_nontrivial"] += nt
    ctx.cov["traces_validated_against_impl"] += len(all_cases)
    ctx.cov["exhaustive"] = True
    ctx.cov["rule"] = ("TLC model-checks Framing.tla with the monitor attached for every stream of <= 3 abstract frames and EVERY "
                       "segmentation (Read(k) for all k), and every script of <= 3 messages of <= 3 chunks (<= 10 secured bytes) with every "
                       "sequence of partial / zero / pending writes; TLC generates the schedules replayed on the real TcpCodec and SendBuffer: "
                       "every segmentation of a 12 byte frame, every combination of cuts next to header ends and frame ends for streams "
                       "of 2 (thorough: 3) real frames incl. frames at and above max_message_size, simulation-sampled segmentations of "
                       "streams of up to 10 real frames (HEL ACK ERR OPN CLO MSG, 3-chunk messages) and the all-single-bytes schedule; "
                       "partial-write schedules (near chunk start / middle / end exhaustively, sampled, single bytes) over 1..3 chunk messages; "
                       "non-trivial = some read ends inside a frame / some write is short")
    ctx.notes["cases_per_generator"] = {n: len(cs) for n, cs in gens + sgens}
    ctx.notes["steps_replayed"] = nsteps
    ctx.notes["drift"] = {"cases_with_L1_mismatch": ndrift, "first": firsts[:3]}
    ctx.notes["catalog"] = {k: v["len"] for k, v in cat.items()}
    for idx in (0, len(all_cases) // 2, len(all_cases) - 1):
        c = all_cases[idx]
        ctx.sample({"gen": c.get("gen"), "engine": c["engine"], "frames": c.get("frames"), "msgs": c.get("msgs"),
                    "steps": [{k: s[k] for k in ("ev", "k", "n", "r") if k in s} for s in c["steps"][:30]]})
    ctx.assumptions += ["frames are identified by the sha1 of their bytes (sent) / of their re-encoding with the real encoders (yielded)",
                        "the send buffer is driven like client::transport::tcp::TcpTransport::poll drives it; a Pending write future is "
                        "dropped (select! cancellation); secured chunks are observed through the cfg-guarded projection "
                        "SendBuffer::verif_queued_chunks and SecureChannel::apply_security (policy None)",
                        "a frame whose declared size exceeds max_message_size ends the stream; only the frames before it are due"]
    log("[c11] %d cases (%d non-trivial), %d steps, %d drifting cases" % (len(all_cases), nt, nsteps, ndrift))
