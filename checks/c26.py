"""C26 Client timestamps and wall-clock jumps cannot crash subscription processing."""
from checks.subs_common import *

LEVEL = "model_checking"


def run(ctx):
    q = ctx.quick
    s1 = [["CreateSub", 1, 1, 3, True, 0, 2], ["CreateItem", 1, 1, 1, 2, True, "Reporting", -1]]
    s0 = [["CreateSub", 1, 1, 3, True, 0, 2], ["CreateItem", 1, 1, 1, 2, True, "Reporting", 0]]
    s3 = [["CreateSub", 1, 1, 3, True, 0, 1], ["CreateItem", 1, 1, 1, 2, True, "Reporting", -1]]
    base = consts(Vals={0, 1}, ReqTimeout=30, Acts={"Write", "Pub", "Tick"}, Scripts=scripts([s1, s0]),
                  Dts={-3, -1, 0, 1, 2, 31}, Hints={0, 2}, TsOffs={-40, -3, 0, 3, 40}, MaxWrites=1,
                  MaxPubs=3, MaxTicks=4 if q else 5, MaxDepth=2 + (5 if q else 6))
    mc = dict(base, Mons={"C26"})
    ctx.model_check("design", "MCSubs", mc, ["C26"], view="MView")
    ctx.model_check("dev_neg", "MCSubs", dict(mc, DevNegPanic=True), ["C26"], view="MView", expect_violation="C26")
    ctx.model_check("dev_expire", "MCSubs", dict(mc, DevExpirePanic=True, Dts={1}, TsOffs={0}, Hints={0}, MaxTicks=8,
                                                 MaxWrites=3, MaxDepth=12, Acts={"Write", "Tick"}, Scripts=scripts([s3])), ["C26"],
                    view="MView", expect_violation="C26")
    h, r = ctx.gen("clock", "GenSubs", dict(base, MaxDepth=2 + (3 if q else 4)))
    gens = [("clock", to_cases(take(h, 3000 if q else 60000, ctx.seed)))]
    n = 300 if q else 4000
    h, r = ctx.gen("random", "GenSubs", dict(base, MaxDepth=30, MaxPubs=12, MaxTicks=18, MaxWrites=6),
                   simulate="num=%d" % max(20, n // 8))
    gens.append(("random", to_cases(take(h, n, ctx.seed))))
    # lifetime expiring in the same cycle as a data change
    h, r = ctx.gen("expire", "GenSubs", dict(base, Dts={1}, TsOffs={0}, Hints={0}, MaxTicks=8, MaxWrites=3, MaxDepth=11,
                                             Acts={"Write", "Tick"}, Scripts=scripts([s3])))
    gens.append(("expire", to_cases(take(h, 1500 if q else 20000, ctx.seed))))
    ctx.cov["exhaustive"] = True

    def nontrivial(c):
        ts = [s["t"] for s in c["steps"] if s["ev"] == "Tick"]
        back = any(b < a for a, b in zip(ts, ts[1:]))
        odd = any(s["ev"] == "Pub" and s["ts"] != 0 for s in c["steps"])
        return back or odd

    pipeline(ctx, "C26", gens, trace_consts(mc), nontrivial,
             "behaviours with clock steps in {-3,-1,0,1,2,31} units, request timestamps offset by {-40,-3,0,3,40} units and timeout "
             "hints {none, 2}; exhaustive to a depth bound plus simulation; non-trivial = the clock moved backwards or a request "
             "carried a timestamp different from the server clock")
    # the same engine with a fine clock: one model unit = 0.2 ms, so that steps of a fraction of a millisecond (backwards and
    # forwards) reach the interval arithmetic of subscriptions and of items with their own sampling interval
    U = 200
    sec = 1000000 // U
    f1 = [["CreateSub", 1, 1, 3, True, 0, sec], ["CreateItem", 1, 1, 1, 2, True, "Reporting", sec // 2]]
    f2 = [["CreateSub", 1, 1, 3, True, 0, sec], ["CreateItem", 1, 1, 1, 2, True, "Reporting", -1]]
    fine = consts(Vals={0, 1}, ReqTimeout=30 * sec, Acts={"Write", "Pub", "Tick"}, Scripts=scripts([f1, f2]),
                  Dts={-sec // 2, -2, -1, 1, sec // 2, sec}, Hints={0}, TsOffs={-2, 0, 2}, MaxWrites=1, MaxPubs=2,
                  MaxTicks=4 if q else 5, MaxDepth=2 + (5 if q else 6))
    mcf = dict(fine, Mons={"C26"})
    ctx.model_check("design_fine_clock", "MCSubs", mcf, ["C26"], view="MView")
    h, r = ctx.gen("fine_clock", "GenSubs", dict(fine, MaxDepth=2 + (4 if q else 5)))
    gf = [("fine_clock", to_cases(take(h, 2500 if q else 40000, ctx.seed)))]
    h, r = ctx.gen("fine_random", "GenSubs", dict(fine, MaxDepth=30, MaxPubs=10, MaxTicks=18, MaxWrites=6),
                   simulate="num=%d" % max(20, n // 8))
    gf.append(("fine_random", to_cases(take(h, n, ctx.seed))))
    pipeline(ctx, "C26", gf, trace_consts(mcf), nontrivial,
             "the same with a fine clock (one unit = 0.2 ms): steps of -2, -1, +1 units (fractions of a millisecond), half a second "
             "and a second, an item with its own 500 ms sampling interval", name="subs_fine", unit_us=U)
