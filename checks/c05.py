"""C05 Relative path strings round-trip and parse safely."""
from checks.text_common import *

LEVEL = "model_checking"


def run(ctx):
    c = consts(ctx, "C05")
    extra = None
    if not ctx.quick:
        # long paths (4..32 elements): random walks over the printable one-element paths, TLC simulation mode
        extra, _ = ctx.gen("longpaths", "GenTextSim", c, spec="SSpec", invariants=("EmitSim",),
                           simulate="num=150", workers=1)
    run_text(ctx, "C05", "text05", extra_cases=extra,
             rule="TLC enumerates relative paths: the empty path; one element = reference type {HierarchicalReferences, Aggregates, "
                  "HasChild, 11 ns-qualified string reference types incl. reserved characters, 2 numeric custom} x inverse x "
                  "subtypes x {no target, namespace 0/1/9/10/65535 x every name of length <= 2 (thorough 3) over "
                  "{a 1 & / . < > : # ! U+E9}} (quick: full names with 3 reference types, all reference types with 5 targets); "
                  "every path of 2..3 (thorough 4) elements over 8 boundary-sensitive elements; thorough: random paths of 4..32 elements "
                  "by TLC simulation. Each path is printed and re-parsed by the real code and TLC compares element by element. "
                  "No-panic half: every string of length <= 4 (thorough 5) over the reserved characters, 1, a, U+E9 and every "
                  "one-character mutation of 16 printed paths through RelativePath::from_str and RelativePathElement::from_str; "
                  "distinct by input")
    ctx.assumptions += [
        "a present target name is non-empty; an absent target is QualifiedName::null()",
        "reference types are identified by node id; string node ids stand for their own browse name (default resolvers)"]
