"""C38 Server locks are always taken in one global order."""
import json, re, subprocess, itertools, random
from vlib import *

LEVEL = "model_checking"
PER_CONN = {"TcpTransport", "SessionManager", "Session", "SecureChannel", "SessionDiagnostics"}
# documented order (message_handler.rs: ServerState, Session, AddressSpace), extended with the per-connection outer locks
RANK = {"TcpTransport": 0, "SessionManager": 1, "ServerState": 2, "Session": 3, "AddressSpace": 4}


def programs(obs_path):
    recs = [json.loads(l) for l in open(obs_path)]
    inst = {}      # (class, addr) -> lock id
    per_class = {}
    progs = {}
    tr = {}        # conn -> transport lock id
    fails = []
    for r in recs:
        if r["fail"] != "none":
            fails.append(r)
        seq = []
        for e in r["events"]:
            # the engine keeps every object alive until the end, so an address identifies one lock instance
            key = (e["class"], e["inst"])
            if key not in inst:
                per_class[e["class"]] = per_class.get(e["class"], 0) + 1
                inst[key] = "%s#%d" % (e["class"], per_class[e["class"]])
            lid = inst[key]
            if e["class"] == "TcpTransport":
                tr.setdefault(r["conn"], lid)
            seq.append(["acq" if e["a"] else "rel", lid, "R" if e["mode"] == "R" else "W"])
        progs["%s@%d" % (r["task"], r["conn"])] = seq
    # the timer task holds the transport READ lock around its body (tcp_transport.rs spawn_subscriptions_task)
    for c, lid in tr.items():
        body = progs.pop("SubscriptionTickBody@%d" % c, None)
        progs.pop("SubscriptionTick@%d" % c, None)
        if body is not None:
            progs["SubscriptionTick@%d" % c] = [["acq", lid, "R"]] + body + [["rel", lid, "R"]]
    # drop immediately repeated acquire/release pairs (same lock, same mode): irrelevant for ordering and deadlock
    out = {}
    for n, seq in progs.items():
        s2 = []
        i = 0
        while i < len(seq):
            if i + 3 < len(seq) and seq[i][0] == "acq" and seq[i + 1] == ["rel", seq[i][1], seq[i][2]] and seq[i + 2] == seq[i] and seq[i + 3] == seq[i + 1]:
                i += 2
                continue
            s2.append(seq[i])
            i += 1
        out[n] = s2
    return out, fails


def direct_lock_calls():
    """acquisitions that do not go through the three macros (not seen by the hook): inventoried, not judged"""
    p = subprocess.run(["grep", "-rnE", r"\.(read|write|lock)\(\)", "/repo/lib/src/server", "/repo/lib/src/core", "--include=*.rs"],
                       stdout=subprocess.PIPE, text=True)
    out = []
    for l in p.stdout.splitlines():
        if "trace_" in l or "/tests/" in l or "verif" in l or l.split(":", 2)[2].strip().startswith("//"):
            continue
        out.append(l.replace("/repo/lib/src/", "")[:160])
    return out


REPLAYABLE = ("ServerState#1", "AddressSpace#1", "SessionManager#1", "Session#1", "Session#2", "TcpTransport#1", "TcpTransport#2")


def confirm_on_real_locks(ctx, group, progs):
    """Replays TLC's deadlock schedule of one group on the real lock objects (engine lockconfirm); informational: the
    result goes to the evidence, the verdict is TLC's."""
    try:
        sub = {n: [i for i in progs[n] if i[1] in REPLAYABLE] for n in group}
        names = sorted(sub)
        locks = sorted({i[1] for s in sub.values() for i in s})
        P = Tla("[n \\in {%s} |-> CASE %s]" % (", ".join(tla_value(n) for n in names),
                                              " [] ".join("n = %s -> %s" % (tla_value(n), tla_value(sub[n])) for n in names)))
        classof = Tla("[l \\in {%s} |-> CASE %s]" % (", ".join(tla_value(l) for l in locks),
                                                    " [] ".join("l = %s -> %s" % (tla_value(l), tla_value(l.split("#")[0])) for l in locks)))
        G = Tla("{{" + ", ".join(tla_value(n) for n in names) + "}}")
        r = run_tlc(ctx.sub("confirm"), "Locks", {"Prog": P, "Groups": G, "ClassOf": classof}, spec="Spec", invariants=["NoDeadlock"],
                    workers=1, timeout=300)
        if not r.violated:
            ctx.notes["real_lock_confirmation"] = {"group": list(group), "result": "the projection to the replayable locks does not deadlock in TLC"}
            return
        # schedule = which program's pc moved between consecutive states of the counterexample
        pcs = []
        for line in r.stdout.splitlines():
            if line.startswith("/\\ pc = "):
                d = {}
                for n in names:
                    mm = re.search(r'"%s" :> (\d+)' % re.escape(n), line)
                    d[n] = int(mm.group(1)) if mm else 0
                pcs.append(d)
        sched = []
        for a, b in zip(pcs, pcs[1:]):
            moved = [k for k, n in enumerate(names) if a[n] != b[n]]
            if moved:
                sched.append(moved[0])
            else:
                # a writer announced that it waits: the step belongs to the program whose next instruction is a blocked write
                sched.append(-1)
        sched = [x for x in sched if x >= 0]
        cpath = ctx.write_cases("lockconfirm", [{"case": 1, "group": names, "programs": sub, "schedule": sched}])
        obs = ctx.run("lockconfirm", cpath, name="lockconfirm")
        o = json.loads(open(obs).readline())
        rr = o.get("r", {})
        ok = o.get("fail") == "none" and rr.get("unfinished", 0) >= 2 and rr.get("blocked") == rr.get("unfinished")
        ctx.notes["real_lock_confirmation"] = {
            "group": names, "schedule_steps": len(sched), "unfinished_threads": rr.get("unfinished"), "blocked_threads": rr.get("blocked"),
            "confirmed": ok,
            "how": "one OS thread per program on the real RwLocks of a real server (ServerState, AddressSpace, shared SessionManager, "
                   "Sessions and transports of two connections), timed acquisitions following TLC's schedule; confirmed = at the end "
                   "every unfinished thread fails to get its next lock while all attempts run concurrently"}
        log("[locks] deadlock of %s on the real locks: %s" % (names, "confirmed" if ok else "NOT confirmed %s" % rr))
    except Exception as ex:
        ctx.notes["real_lock_confirmation"] = {"error": str(ex)[:300]}


def run(ctx):
    q = ctx.quick
    # variants: the requests of Services.tla that are likely to be carried out plus a seeded sample of the whole universe
    # (other parameter classes reach error paths and other branches of the same services)
    rv = run_tlc(ctx.sub("variants"), "GenServicesLive", {}, spec="Spec", invariants=["Emit"], workers=2, timeout=600)
    if rv.error:
        raise ToolError("TLC (variants): %s" % rv.error[:1000])
    live = [c["steps"][0] for c in parse_case_lines(rv.printed)]
    ru = run_tlc(ctx.sub("universe"), "GenServices", {}, spec="Spec", invariants=["Emit"], workers=4, timeout=900,
                 printed_cap=400 if q else 800, seed=ctx.seed)
    variants = live + [c["steps"][0] for c in parse_case_lines(ru.printed)]
    cpath = ctx.write_cases("locks", [{"case": 1, "variants": variants}])
    obs = ctx.run("locks", cpath)
    progs, fails = programs(obs)
    for f in fails:
        ctx.add_violation("C38:task-failed:%s" % f["task"], "task %s panicked at %s while being traced" % (f["task"], f["site"]), {"case": 1}, engine="locks")
    names = sorted(progs)
    locks = sorted({i[1] for s in progs.values() for i in s})
    P = Tla("[n \\in {%s} |-> CASE %s]" % (", ".join(tla_value(n) for n in names),
                                          " [] ".join("n = %s -> %s" % (tla_value(n), tla_value(progs[n])) for n in names)))
    classof = Tla("[l \\in {%s} |-> CASE %s]" % (", ".join(tla_value(l) for l in locks),
                                                " [] ".join("l = %s -> %s" % (tla_value(l), tla_value(l.split("#")[0])) for l in locks)))
    # distinct programs (many services take exactly the same locks in the same order)
    sig = {}
    for n in names:
        sig.setdefault(canon(progs[n]), []).append(n)
    reps = sorted(v[0] for v in sig.values())
    # (a) the class-level order
    r = run_tlc(ctx.sub("order"), "MCLocksOrder", {"Prog": P, "Groups": Tla("{}"), "ClassOf": classof}, spec="OSpec", invariants=["Emit"],
                workers=1, timeout=600)
    if r.error:
        raise ToolError("TLC error (order): %s" % r.error[:1500])
    res = parse_case_lines(r.printed)
    if not res:
        raise ToolError("no order result")
    inv = res[0]["inv"]
    seen = set()
    culprits = set()                      # tasks that take a pair of lock classes against the documented order
    for x, y, p in inv:
        task = p.split("@")[0].split("~")[0]
        # an inverted pair is reported at the side that departs from the documented order (unranked classes: alphabetical)
        if (RANK.get(x, 99), x) <= (RANK.get(y, 99), y):
            continue                      # (a recursive read of one lock is not an order inversion; TLC decides whether it can deadlock)
        if x in RANK and y in RANK:
            culprits.add(task)         # departs from the documented order of the main server locks
        sg = "C38:lock-order-inverted:%s-while-holding-%s:%s" % (y, x, task)
        if sg in seen:
            continue
        seen.add(sg)
        # report the inversion at the program that departs from the documented order ServerState -> Session -> AddressSpace
        ctx.add_violation(sg, "task %s acquires %s while holding %s, and another task takes them in the opposite order" % (task, y, x),
                          {"case": 1, "program": p, "instructions": progs[p]}, engine="locks")
    ctx.notes["class_order_edges"] = sorted(["%s -> %s" % (a, b) for a, b in res[0]["edges"]])
    # (b) deadlock freedom of every composition of two programs
    pairs = [sorted(x) for x in itertools.combinations(reps, 2)] + [[a] for a in reps]
    # the same task kind on the two connections
    for a in reps:
        t, c = a.split("@")
        other = "%s@%d" % (t, 3 - int(c))       # (variants run on connection 1 only)
        if other in progs:
            pairs.append(sorted([a, other]))
    cap = 900 if q else 1200
    if len(pairs) > cap:
        pairs = [pairs[i] for i in sorted(random.Random(ctx.seed).sample(range(len(pairs)), cap))]
    G = Tla("{" + ", ".join("{" + ", ".join(tla_value(n) for n in g) + "}" for g in pairs) + "}")
    def compose(name, G, workers, timeout):
        r2 = run_tlc(ctx.sub(name), "Locks", {"Prog": P, "Groups": G, "ClassOf": classof}, spec="Spec", invariants=["ReportDeadlocks"],
                     workers=workers, timeout=timeout)
        if r2.error:
            raise ToolError("TLC error (%s): %s" % (name, r2.error[:1500]))
        ctx.cov["states"] += r2.distinct
        ctx.cov["transitions"] += r2.generated
        dead = set()
        for l in r2.printed:
            if l.startswith('<<"DEADLOCK"'):
                dead.add(tuple(sorted(re.findall(r'"([^"]+@\d)"', l))))
        ctx.cov["tlc_runs"].append({"name": name, "generated": r2.generated, "distinct": r2.distinct, "wall_s": round(r2.wall, 1),
                                    "deadlocked_groups": len(dead)})
        log("[tlc] %s: %d distinct states, %.1fs, %d deadlocked groups" % (name, r2.distinct, r2.wall, len(dead)))
        seen_sig = set()
        for g in sorted(dead):
            # a deadlock is attributed to the programs of the group that depart from the documented order
            names_g = sorted({x.split("@")[0].split("~")[0] for x in g})
            bad = [t for t in names_g if t in culprits] or names_g
            sg = "C38:deadlock:%s" % "+".join(bad)
            if sg in seen_sig:
                continue
            seen_sig.add(sg)
            ctx.add_violation(sg, "the composition of the recorded acquisition programs {%s} can deadlock" % ", ".join(g),
                              {"case": 1, "group": list(g), "programs": {x: progs[x] for x in g}}, engine="locks")
        return dead

    dead2 = compose("compose2", G, 4 if q else 8, 1500 if q else 3000)
    if dead2:
        confirm_on_real_locks(ctx, sorted(dead2)[0], progs)
    if not q:
        trip = [sorted(x) for x in itertools.combinations(reps, 3)]
        trip = [trip[i] for i in sorted(random.Random(ctx.seed).sample(range(len(trip)), min(len(trip), 150)))]
        G3 = Tla("{" + ", ".join("{" + ", ".join(tla_value(n) for n in g) + "}" for g in trip) + "}")
        compose("compose3", G3, 8, 2400)
    ctx.cov["evaluations"] += len(pairs)
    ctx.cov["distinct_nontrivial"] += len([g for g in pairs if len(g) == 2])
    ctx.cov["traces_validated_against_impl"] += len(names)
    ctx.cov["exhaustive"] = len(pairs) < cap
    ctx.cov["rule"] = ("acquisition programs recorded from the real code by running each of %d task kinds (every service of the message "
                       "handler, the subscription timer body, session creation, transport teardown) on two connections of one real "
                       "server, plus %d variant requests of Services.tla (the likely-to-succeed set and a seeded sample of the adversarial "
                       "universe: error paths and other branches of the same services) on connection 1; %d distinct programs; every pair "
                       "(thorough: plus sampled triples) composed by TLC under task-fair RwLock semantics; non-trivial = a group of two "
                       "different programs" % (len([n for n in names if "~" not in n]) // 2, len(variants), len(reps)))
    ctx.notes["direct_lock_calls_not_seen_by_the_hook"] = direct_lock_calls()
    ctx.sample({"program": reps[0], "instructions": progs[reps[0]]})
    ctx.sample({"program": "Call_GetMonitoredItems@1", "instructions": progs.get("Call_GetMonitoredItems@1")})
    ctx.assumptions += ["parking_lot task-fair RwLock policy as modelled in Locks.tla",
                        "only acquisitions made through trace_lock!/trace_read_lock!/trace_write_lock! are recorded; direct .read()/.write()/.lock() "
                        "calls are inventoried in the evidence, not composed",
                        "one program per task kind and per variant request from one execution each (branches that none of the requests reaches are not explored)"]
