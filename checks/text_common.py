"""Shared pipeline of the textual-form checks C04 / C05 (spec/TextForms.tla, harness crate h_text)."""
from vlib import *

CRATE = "h_text"


def consts(ctx, which):
    return dict(Which=which, StrMax=4 if ctx.quick else 5, NameMax=2 if ctx.quick else 3, PathMax=3 if ctx.quick else 4, Deep=not ctx.quick)


def is_parse(c):
    return c["c"]["t"] == "parse"


def run_text(ctx, pid, engine, rule, extra_cases=None):
    c = consts(ctx, pid)
    # design obligation on the specified printers (L1): injective on the value space, i.e. a parser with
    # Parse(Print(v)) = v exists for the canonical forms
    ctx.model_check("printers_injective", "MCTextInj", c, ["PrintersInjective"], spec="ISpec", workers=1)
    cases, verdicts = fn_pipeline(
        ctx, pid, engine, "GenTextForms", "TraceTextForms", consts=c, trace_consts={"Which": pid}, crate=CRATE,
        expected=lambda k: None if is_parse(k) else k.get("exp"),
        observed=lambda o: {"text": o["r"].get("text")},
        extra_cases=extra_cases, rule=rule, timeout=1500)
    kinds = {}
    for k in cases:
        kinds[k["c"]["t"]] = kinds.get(k["c"]["t"], 0) + 1
    ctx.notes["cases_by_kind"] = kinds
    ctx.assumptions += [
        "text and string payloads are sequences of Unicode code points in the specification; the harness converts "
        "them with char::from_u32 / chars()",
        "u32 values are carried as <<hi, lo>> pairs (TLC integers are 32 bit)",
        "the harness re-abstracts the re-parsed Rust value field by field (h_text/src/e_text.rs); this mapping is trusted"]
    return cases, verdicts
