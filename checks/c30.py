"""C30 Browsing in pages returns the full result exactly once."""
import json
from vlib import *
from checks.subs_common import take

LEVEL = "model_checking"
CRATE = "h_view"
OUTS = ("fail", "status", "refs", "ncp", "fstatus", "full", "changed", "ngood")


def kid(t, c):
    return {"t": t, "c": c}


def kidset(cfgs):
    return Tla("{" + ", ".join(tla_value(x) for x in cfgs) + "}")


MIXED = [kid("OR", "Object"), kid("HC", "Variable"), kid("HP", "Variable"), kid("OR", "Variable"), kid("HC", "Object")]
SMALL = [kid("OR", "Object"), kid("HC", "Variable"), kid("HP", "Variable")]


def strip(s):
    return {k: v for k, v in s.items() if k not in OUTS}


def run(ctx):
    q = ctx.quick
    base = dict(K=8, MaxCps=20, DevDeleteNoBump=False, Mode="free", MaxDepth=3, Warm=0, KidConfigs=kidset([SMALL]),
                Nodes={0}, Dirs={"Both"}, Filts={"none"}, Masks={"All"}, Pages={1, 2},
                ModKinds={"AddNode", "AddRef", "DelNode", "DelRef", "AddNodeNoParent", "DelNodeMissing"},
                RefTypes={"OR", "HC"}, NextCps={-1}, Seeds={0}, Script=[], Rels={True, False})
    allb = dict(Nodes={0, 1, 9}, Dirs={"Both", "Forward", "Inverse"}, Filts={"none", "OR", "HC", "HIER"},
                Masks={"All", "Object", "Variable"}, Pages={0, 1, 2, 3})

    # 1. the design: interleavings of Browse / BrowseNext / release / modifications satisfy the monitor, also when the
    #    session may keep only 2 continuation points; the pinned behaviour of delete (no stamp) does not
    #    (every generation run below also checks the monitor on each behaviour it emits)
    ctx.model_check("design", "MCBrowse", dict(base, MaxDepth=3 if q else 5, MaxCps=2), ["C30"], view="MView")
    ctx.model_check("dev_delete_keeps_stamp", "MCBrowse", dict(base, DevDeleteNoBump=True), ["C30"], view="MView", expect_violation="C30")

    cases = []

    def add(hs, k=8):
        for h in hs:
            cases.append({"case": len(cases) + 1, "k": k, "kids": h["kids"], "steps": h["steps"]})

    def gen(name, consts, **kw):
        h, r = ctx.gen(name, "GenBrowse", consts, invariants=("C30", "Emit"), **kw)
        if r.violated == "C30":
            raise ToolError("design model (%s) violates the monitor:\n%s" % (name, r.trace[:3000]))
        if not kw.get("simulate"):
            ctx.cov["states"] += r.distinct
            ctx.cov["transitions"] += r.generated
        ctx.cov["tlc_runs"].append({"name": "gen_" + name, "generated": r.generated, "distinct": r.distinct, "cases": len(h), "wall_s": round(r.wall, 1)})
        h.sort(key=canon)       # TLC's workers print in no fixed order; the sample below must depend on the seed only
        return h

    # 2. every Browse (node, direction, filter, class mask, page size) followed to the end of its chain
    cfgs = [MIXED, [], [kid("HC", "Variable")] * 4]
    if not q:
        cfgs += [SMALL]
        cfgs += [[kid(t, c) for t, c in zip(ts, cs)] for ts in (("OR", "OR", "HC", "HP"), ("HP", "HC", "OR", "OR", "HC", "HP"))
                 for cs in (("Object",) * 6, ("Variable", "Object") * 3)]
    h = gen("chains", dict(base, Mode="chain", KidConfigs=kidset(cfgs), **allb))
    nchains = len(h)
    add(h if not q else take(h, 700, ctx.seed))
    # 3. every interleaving of Browse, BrowseNext (any continuation point ever issued or a bogus one, with and without release)
    #    and effective / ineffective modifications up to the depth bound
    h = gen("interleavings", dict(base, MaxDepth=3, Pages={1}, RefTypes={"HC"}) if q else base)
    ninter = len(h)
    add(take(h, 2000 if q else 20000, ctx.seed))
    if not q:
        h = gen("interleavings4", dict(base, MaxDepth=4, Pages={1}, RefTypes={"HC"}, ModKinds={"AddNode", "AddRef", "DelNode", "DelRef"}))
        ninter += len(h)
        add(take(h, 8000, ctx.seed))
    # 4. longer random behaviours over the whole input space
    n = 150 if q else 2000
    seeds = {(int(ctx.seed) * 7919 + i * 104729) % 65537 for i in range(n)}
    h = gen("random", dict(base, Mode="random", MaxDepth=10, KidConfigs=kidset([MIXED]), Seeds=seeds, **allb))
    add(h)
    # 5. the cap: 21 (23) open continuation points, then every interleaving of 2 further calls
    h = gen("cap", dict(base, Warm=21 if q else 23, MaxDepth=23 if q else 25, ModKinds={"DelNode"}, NextCps={0, 1, 2, 3, 20, 21, 22, 23, 24}))
    ncap = len(h)
    add(take(h, 300 if q else 4000, ctx.seed))
    # 6. several live continuation points with address space changes between / after their creation, then BrowseNext on the older and
    #    the newer ones: Browse, (Browse | change) x 2, (Browse | BrowseNext [| change]), BrowseNext [, BrowseNext]; never sampled
    if q:
        script = [{"Browse"}, {"Browse", "Modify"}, {"Browse", "Modify"}, {"Browse", "Next"}, {"Next"}]
        h = gen("stale", dict(base, Mode="script", Script=script, MaxDepth=len(script), Pages={1}, RefTypes={"HC"},
                              ModKinds={"AddNode", "DelNode"}, Rels={False}))
    else:
        script = [{"Browse"}, {"Browse", "Modify"}, {"Browse", "Modify"}, {"Browse", "Next", "Modify"}, {"Next"}, {"Next"}]
        h = gen("stale", dict(base, Mode="script", Script=script, MaxDepth=len(script), Pages={1}, RefTypes={"HC"},
                              ModKinds={"AddNode", "AddRef", "DelNode", "DelRef"}, Rels={False}))
    nstale = len(h)
    add(h)
    ctx.cov["exhaustive"] = not q

    if ctx.replay:
        cases = [json.load(open(ctx.replay))["case"]]
        cases[0]["case"] = 1
    cpath = ctx.write_cases("browse", [dict(x, steps=[strip(s) for s in x["steps"]]) for x in cases])
    obs = ctx.run("browse", cpath, crate=CRATE)
    verdicts = ctx.judge("browse", "TraceBrowse", obs, {"Cap": 20})
    by = {x["case"]: x for x in cases}
    for v in verdicts:
        x = by.get(v["case"])
        ctx.add_violation("C30:%s" % v["clause"], "%s at step %s of case %s" % (v["clause"], v["i"], v["case"]),
                          dict(x, steps=[strip(s) for s in x["steps"]]) if x else None, engine="browse")
    # L1 conformance (drift is reported, it is not an alarm)
    exp = {(x["case"], i + 1): s for x in cases for i, s in enumerate(x["steps"])}
    nsteps, drift, bad, kinds, maxopen = 0, [], set(), {}, 0
    for line in open(obs):
        o = json.loads(line)
        kinds[o["ev"]] = kinds.get(o["ev"], 0) + 1
        if o["ev"] == "Probe":
            maxopen = max(maxopen, o.get("cp", 0))
        e = exp.get((o["case"], o["i"]))
        if e is None or o["case"] in bad:
            continue
        nsteps += 1
        for k in OUTS:
            if k in e and canon(e[k]) != canon(o.get(k)):
                bad.add(o["case"])
                drift.append({"case": o["case"], "i": o["i"], "field": k, "call": strip(e), "expected": e[k], "observed": o.get(k)})
                break
    seen, nt = set(), 0
    for x in cases:
        k = canon([x["kids"], [strip(s) for s in x["steps"]]])
        if k not in seen:
            seen.add(k)
            nt += 1 if any(s.get("ncp") for s in x["steps"]) else 0
    ctx.cov["evaluations"] += len(cases)
    ctx.cov["distinct_nontrivial"] += nt
    ctx.cov["traces_validated_against_impl"] += len(cases)
    ctx.cov["rule"] = ("behaviours of Browse.tla generated by TLC and replayed through the real Browse / BrowseNext / AddNodes / AddReferences / "
                       "DeleteNodes / DeleteReferences services of one session on a real server: (a) every Browse of the folder, a child or a "
                       "missing node with 3 directions x 4 reference filters x 3 class masks x page sizes 0..3 on generated folders, followed "
                       "to the end of the chain; (b) every interleaving of Browse / BrowseNext on any continuation point ever issued or a bogus "
                       "one, with and without release / modifications up to the depth bound; (c) pseudo random behaviours of 10 calls (one per seed, derived from VERIF_SEED); (d) more open "
                       "continuation points than the session keeps; (e) every behaviour of the shape Browse, (Browse | change) x 2, (Browse | BrowseNext), "
                       "BrowseNext: several live continuation points with a change between or after their creation, then use of an older or the "
                       "newer one. Each case ends with BrowseNext on every continuation point ever issued. "
                       "distinct_nontrivial = distinct cases in which at least one continuation point was issued")
    ctx.notes["steps_replayed"] = nsteps
    ctx.notes["calls_by_kind"] = kinds
    ctx.notes["generated"] = {"chains": nchains, "interleavings": ninter, "cap": ncap, "stale": nstale}
    ctx.notes["max_continuation_points_issued_in_one_session"] = maxopen
    ctx.notes["drift"] = {"cases_with_L1_mismatch": len(drift), "first": drift[:3]}
    ctx.assumptions += [
        "the unlimited result `full` is obtained by the harness with requestedMaxReferencesPerNode = 0 through the same session right before "
        "each Browse; the server caps it at 255 references, the generated folders have at most 10",
        "the harness sleeps 1 ms before every modification request, so that the address space change is unambiguously later than every "
        "continuation point made before it (the server compares wall clock stamps); two modifications within the clock resolution are not exercised",
        "a modification counts as a change when the nodes / references of the generated folder differ afterwards (read directly from the "
        "address space); after a modification request that changed nothing the monitor accepts both answers for older continuation points",
        "once a session has held more than 20 continuation points the monitor no longer requires any of them to be served (the statement "
        "does not fix which ones are dropped); the bound itself is judged by the final BrowseNext on everything ever issued",
        "a crash of a call is not judged here (C33); one session per case, server shared by the cases of a run",
    ]
    for idx in (0, len(cases) // 2, len(cases) - 1):
        ctx.sample({"kids": cases[idx]["kids"], "steps": [strip(s) for s in cases[idx]["steps"]][:6]})
    log("[browse] %d cases, %d steps, %d verdicts, %d drifting" % (len(cases), nsteps, len(verdicts), len(drift)))
