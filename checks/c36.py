"""C36 Each received notification is acknowledged exactly once."""
from checks.client_common import *

LEVEL = "model_checking"

BASE = dict(Subs={1, 2}, DevAckKeepAlive=False, MutNoRequeue=False, Kinds={"data", "status", "ka"},
            Hows={"timeout", "fault", "unexpected", "dropped"}, Links={"up", "down", "closed"}, SubChanges=True,
            MaxInflight=2, MaxNotif=4, MaxFail=3, MaxFree=7)
PREDICTED = ("acks", "res", "st")


def run(ctx):
    q = ctx.quick
    # the corrected design satisfies the monitor on all histories within the bounds
    ctx.model_check("design", "MCClientAcks", dict(BASE, MaxFree=7 if q else 10), ["C36"], view="MView")
    if not q:
        ctx.model_check("design_3_inflight", "MCClientAcks",
                        dict(BASE, Subs={1}, MaxInflight=3, SubChanges=False, Links={"up", "down"}, MaxFree=11), ["C36"], view="MView")
    # the pinned tree acknowledges keep-alive responses: the model exhibits the double acknowledgement ...
    ctx.model_check("dev_ack_keepalive", "MCClientAcks", dict(BASE, DevAckKeepAlive=True, MaxFree=7), ["C36"], view="MView",
                    expect_violation="C36")
    if not q:
        # ... and nothing else
        ctx.model_check("dev_ack_keepalive_only", "MCClientAcks", dict(BASE, DevAckKeepAlive=True, MaxFree=9), ["C36Hard"], view="MView")
        # the monitor is not vacuous: dropping the acknowledgements of a failed request is caught
        ctx.model_check("mutant_no_requeue", "MCClientAcks", dict(BASE, MutNoRequeue=True, MaxFree=7), ["C36Hard"], view="MView",
                        expect_violation="C36Hard")
    # behaviours: the generator follows the pinned tree (keep-alives acknowledged) so that L1 drift stays meaningful;
    # histories without keep-alives show any double acknowledgement of real notification messages undisguised
    pinned = dict(BASE, DevAckKeepAlive=True)
    gens = []
    exh = [("exhaustive_no_keepalive", dict(pinned, Kinds={"data", "status"}, MaxFree=5 if q else 6, Links={"up", "down"}), 2000 if q else 30000),
           ("exhaustive_keepalive", dict(pinned, Subs={1}, SubChanges=False, Links={"up", "closed"}, Hows={"timeout", "fault"},
                                         MaxFree=6 if q else 7), 1000 if q else 20000)]
    if not q:
        exh.append(("exhaustive_deep", dict(pinned, Subs={1}, Kinds={"data"}, SubChanges=False, Links={"up", "down"}, Hows={"timeout", "dropped"},
                                            MaxInflight=3, MaxNotif=5, MaxFree=9), 30000))
    for nm, c, cap in exh:
        h, r = ctx.gen(nm, "GenClientAcks", c)
        gens.append((nm, {}, take(h, cap, ctx.seed)))
    n = 150 if q else 4000
    for nm, c in (("random_no_keepalive", dict(pinned, Kinds={"data", "status"}, MaxInflight=3, MaxNotif=14, MaxFail=8, MaxFree=30)),
                  ("random_keepalive", dict(pinned, MaxInflight=3, MaxNotif=14, MaxFail=8, MaxFree=30))):
        h, r = ctx.gen(nm, "GenClientAcks", c, simulate="num=%d" % max(40, n // 8))
        gens.append((nm, {}, take(h, n, ctx.seed)))
    ctx.cov["exhaustive"] = True

    def nontrivial(c):
        evs = [s["ev"] for s in c["steps"]]
        acked = any(s["ev"] == "Send" and s["acks"] for s in c["steps"])
        return "Fail" in evs and acked and sum(1 for s in c["steps"] if s["ev"] == "Ok" and s["kind"] != "ka") >= 2

    pipeline(ctx, "C36", "cacks", "TraceClientAcks", gens, PREDICTED, nontrivial,
             "all histories of publish calls (up to 2-3 in flight), publish responses (data / status change notification messages and "
             "keep-alives of 2 subscriptions, answered in any order), failures (timeout, service fault, unexpected response, request "
             "dropped, not connected, queue closed), subscription add / delete and connection changes, closed by a publish that succeeds; "
             "exhaustive to a depth bound (with and without keep-alives), plus random simulation to depth 30, replayed on the real "
             "Session::publish / SubscriptionState; non-trivial = a failure, a request that carries acknowledgements and at least two "
             "notification messages")
    ctx.assumptions += ["the harness sits where TcpTransport takes requests from the session's request queue: it reads the PublishRequest "
                        "the session really sent and answers through the request's own callback (cfg-guarded hooks Session::verif_wire / "
                        "verif_publish); the subscription event loop that decides WHEN to publish is not involved",
                        "the peer numbers notification messages per subscription 1, 2, ...; a keep-alive carries the next number without "
                        "consuming it (OPC UA Part 4, 5.13.1.1)"]
