"""C25 Data change filters report exactly the changes they describe."""
from vlib import *

LEVEL = "model_checking"


def run(ctx):
    q = ctx.quick
    fn_pipeline(ctx, "C25", "filter", "GenFilter", "TraceFilter", consts={"MaxLen": 2, "MaxLenV": 3 if q else 5},
                limit=None if q else 40000, trace_consts={"MaxLen": 3, "MaxLenV": 3},
                nontrivial=lambda c: len(c["c"]["dvs"]) >= 2,
                rule="TLC enumerates every trigger x deadband {none, abs 0, abs 1, abs -1, percent} x every sequence of up to "
                     "2 DataValues over value {0,1,2,5,string} x status {Good,Bad} x timestamp {t0,t1} and every sequence of up to "
                     "3 (thorough 5) samples in which only the value changes (a slowly drifting value); each case runs on a real "
                     "monitored item with the real DataChangeFilter, one sample per publishing interval with a publish request "
                     "queued; non-trivial = at least two samples; distinct by (filter, sequence)")
    ctx.assumptions += ["a reported sample = a DataChangeNotification in the publish response of that interval",
                        "source and server timestamp are written together"]
