"""C03 Configured decoding limits are enforced exactly."""
from vlib import *

LEVEL = "model_checking"


def run(ctx):
    def key(c):
        x = c.get("c")
        return {k: x[k] for k in ("con", "pos", "l", "L", "oth", "root")}

    cases, verdicts = fn_pipeline(
        ctx, "C03", "lim", "GenCodecLim", "TraceCodecLim", invariants=("DesignOK",), crate="h_codec", key=key,
        expected=lambda c: c["exp"], observed=lambda o: "ok" if o["r"]["out"] in ("ok", "more") else o["r"]["out"],
        nontrivial=lambda c: True,
        sig=lambda v, c: "C03:%s" % v["clause"],
        rule="TLC enumerates the decision table: construct (String, ByteString, generic array, Variant array, multi-dimensional Variant: "
             "element count and number of dimensions) x nesting position (top level, element of an array, inside a Variant, inside a "
             "DataValue, inside an ExtensionObject body decoded with decode_inner, field of WriteRequest / BrowseNextRequest / CallRequest) "
             "x declared length in {L-1, L, L+1, -1, -2, 0, 2^31-1} x L in {0, 1, 5, default} x the other limits at their defaults or all "
             "equal to L; plus chunk headers (MessageChunk::decode and the TcpCodec framing layer) with declared size around "
             "max_message_size in {0 = no limit, 100, 8196, default}, 2^31-1 and 2^32-1. Every length word on the path is listed in the "
             "case; the TLA+ table accepts iff every word is -1 or within 0..limit; for cases of at most 400 bytes TLC also runs the "
             "specified decoder and checks that it decides like the table. The harness writes the bytes (content materialised up to "
             "70000 elements), decodes with DecodingOptions built from the case, reports accept / reject, bytes taken from the stream "
             "and peak allocation; for chunks the judge also demands that nothing after the 12 byte header is read and nothing large "
             "is allocated when the size is rejected. Distinct by (construct, position, length, limit, other limits, root). NOT covered: "
             "other generated structures than the three request messages; limits nested deeper than one container.")
    ctx.assumptions += ["2^31-1 is an abstract point: the content is not supplied, acceptance would show as a >= 1 GiB allocation",
                        "max_message_size = 0 means no limit (documented in DecodingOptions)"]
