"""C12 Sequence numbers increase by one per chunk and replays are rejected.

spec/SeqNum.tla (L1: client SendBuffer / server MessageWriter counters, server and client receive paths with
Chunker::validate_chunks, adversary), spec/SeqNumProps.tla (L2 monitor, DESIGN.md Appendix A), harness crate h_framing
(engine seqnum)."""
import json, os, random
from vlib import *

LEVEL = "model_checking"
CRATE = "h_framing"

ALL = {"Reorder", "Duplicate", "Drop", "Replay", "Foreign", "Mixed"}
NOFORGE = {"Reorder", "Duplicate", "Drop", "Replay"}          # what an adversary without the keys can do to signed chunks
BASE = dict(Chan=7, Chan2=9, Seq0=0, Req0=1000, MaxMsgs=4, MaxChunks=3, MaxMoves=1, Kinds=ALL, Responder="writer",
            Refuse=Tla("{}"), MaxRefused=0, DevClientMerge=False, DevSeqPerMsg=False, DevAcceptEq=False, DevCountRefused=False)
REFUSE = Tla("{TooMany, TooLarge}")      # a request of 4 chunks (chunk limit 3), a request / response above max_message_size


def consts(**kw):
    c = dict(BASE)
    c.update(kw)
    return c


def take(cases, n, seed):
    if len(cases) <= n:
        return cases
    r = random.Random(seed)
    return [cases[i] for i in sorted(r.sample(range(len(cases)), n))]


FIELDS = {"Send": ("side", "ok", "emits"), "Move": ("kind", "w", "m"), "Deliver": ("rcv", "res", "chunk"),
          "Present": ("rcv", "chunks", "acc", "last")}


def drift(cases, obs_path):
    exp = {(c["case"], i + 1): s for c in cases for i, s in enumerate(c["steps"])}
    n, bad, first = 0, set(), []
    for line in open(obs_path):
        o = json.loads(line)
        if o.get("aux"):
            continue
        e = exp.get((o["case"], o["i"]))
        if e is None or o["case"] in bad or o.get("ev") not in FIELDS:
            continue
        n += 1
        f = FIELDS[o["ev"]] if o["ev"] == e.get("ev") else ("ev",)
        a, b = {k: e.get(k) for k in f}, {k: o.get(k) for k in f}
        if canon(a) != canon(b):
            bad.add(o["case"])
            if len(first) < 3:
                first.append({"case": o["case"], "i": o["i"], "expected": a, "observed": b})
    return n, len(bad), first


def run(ctx):
    q = ctx.quick
    # ------------------------------------------------------------------ 1. the design and its monitor, model checked
    # quick: <= 4 messages, one move; thorough: <= 6 (chunking peer: 5) messages, two moves
    ctx.model_check("writer", "MCSeqNum", consts(MaxMsgs=4 if q else 6, MaxMoves=1 if q else 2), ["C12"], timeout=1500, workers=4)
    ctx.model_check("peer", "MCSeqNum", consts(Responder="peer", MaxMsgs=4 if q else 5, MaxMoves=1 if q else 2), ["C12"], timeout=1500, workers=4)
    # messages refused by their sender (too many chunks, too large) anywhere in the history, followed by further messages
    ref = dict(Refuse=REFUSE, MaxRefused=1 if q else 2, MaxMsgs=4, MaxMoves=1)
    ctx.model_check("refusals", "MCSeqNum", consts(**ref), ["C12"], timeout=1500, workers=4)
    ctx.model_check("dev_count_refused", "MCSeqNum", consts(DevCountRefused=True, Kinds=set(), MaxMoves=0, **{k: ref[k] for k in ("Refuse", "MaxRefused", "MaxMsgs")}),
                    ["C12"], expect_violation="C12", workers=4)
    ctx.model_check("dev_seq_per_message", "MCSeqNum", consts(DevSeqPerMsg=True), ["C12"], expect_violation="C12", workers=4)
    ctx.model_check("dev_accept_equal", "MCSeqNum", consts(DevAcceptEq=True), ["C12"], expect_violation="C12", workers=4)
    ctx.model_check("dev_client_merge", "MCSeqNum", consts(Responder="peer", DevClientMerge=True), ["C12"], expect_violation="C12", workers=4)

    # ------------------------------------------------------------------ 2. histories
    gens = []

    def gen(name, cfg, c, simulate=None, limit=None):
        h, r = ctx.gen(name, "GenSeqNum", c, simulate=simulate, timeout=1500, workers=4)
        cs = [{"cfg": cfg, "steps": x} for x in h]
        gens.append((name, take(cs, limit, ctx.seed) if limit else cs))

    none_w = {"policy": "None", "responder": "writer"}
    none_p = {"policy": "None", "responder": "peer"}
    sign_w = {"policy": "Basic256Sha256-SignAndEncrypt", "responder": "writer"}
    sign_p = {"policy": "Basic256Sha256-SignAndEncrypt", "responder": "peer"}
    # exhaustive: <= 3 (thorough: 4) messages of 1..3 chunks, one adversary move at any point
    k = 3 if q else 4
    gen("writer_1move", none_w, consts(MaxMsgs=k))
    gen("peer_1move", none_p, consts(MaxMsgs=k, Responder="peer"))
    # a refused message (thorough: two) at any position of a history of <= 3 (thorough: 4) sent messages; thorough also with one move
    gen("refusals", none_w, consts(Refuse=REFUSE, MaxRefused=1 if q else 2, MaxMsgs=k, Kinds=set(), MaxMoves=0))
    if q:
        # the 4 message histories are sampled by simulation
        gen("writer_4msgs", none_w, consts(), simulate="num=100")
        gen("peer_4msgs", none_p, consts(Responder="peer"), simulate="num=100")
    else:
        gen("refusals_1move", none_w, consts(Refuse=REFUSE, MaxRefused=1, MaxMsgs=3))
        gen("refusals_peer", none_p, consts(Refuse=REFUSE, MaxRefused=1, MaxMsgs=3, Kinds=set(), MaxMoves=0, Responder="peer"))
        gen("signed_1move", sign_w, consts(Kinds=NOFORGE, MaxMsgs=3))
        gen("signed_peer_1move", sign_p, consts(Kinds=NOFORGE, MaxMsgs=3, Responder="peer"))
        # beyond the exhaustive bound: <= 6 messages, two moves, sampled by simulation
        n = 1500
        gen("writer_2moves", none_w, consts(MaxMsgs=6, MaxMoves=2), simulate="num=%d" % n)
        gen("peer_2moves", none_p, consts(MaxMsgs=6, MaxMoves=2, Responder="peer"), simulate="num=%d" % n)
        gen("signed_2moves", sign_p, consts(MaxMsgs=6, MaxMoves=2, Kinds=NOFORGE, Responder="peer"), simulate="num=%d" % (n // 3))

    # ------------------------------------------------------------------ 3. replay on the real code, 4. judge
    all_cases = []
    for name, cs in gens:
        for c in cs:
            c["case"] = len(all_cases) + 1
            c["gen"] = name
            all_cases.append(c)
    if ctx.replay:
        rp = json.load(open(ctx.replay))
        all_cases = [dict(rp["case"], case=1)]
    by_case = {c["case"]: c for c in all_cases}
    obs = ctx.run("seqnum", ctx.write_cases("seqnum", all_cases), crate=CRATE)
    for v in ctx.judge("seqnum", "TraceSeqNum", obs, {}):
        c = by_case.get(v["case"])
        ctx.add_violation("C12:%s" % v["clause"], "%s at step %d of case %s (%s)" % (v["clause"], v["i"], v["case"], c.get("gen")),
                          c, engine="seqnum")
    nsteps, ndrift, firsts = drift(all_cases, obs)
    npresent = nemit = nrefused = 0
    for line in open(obs):
        o = json.loads(line)
        nrefused += o.get("ev") == "Send" and o.get("ok") is False
        npresent += o.get("ev") == "Present"
        nemit += len(o.get("emits", [])) if o.get("ev") == "Send" else 0
    nt, seen = 0, set()
    for c in all_cases:
        key = canon([c["cfg"], [[s.get(k) for k in ("ev", "side", "n", "kind", "w", "m", "rcv")] for s in c["steps"]]])
        if key in seen:
            continue
        seen.add(key)
        evs = [s["ev"] for s in c["steps"]]
        if "Move" in evs and "Present" in evs[evs.index("Move"):]:
            nt += 1
    ctx.cov["evaluations"] += len(all_cases)
    ctx.cov["distinct_nontrivial"] += nt
    ctx.cov["traces_validated_against_impl"] += len(all_cases)
    ctx.cov["exhaustive"] = True
    ctx.cov["rule"] = ("TLC model-checks SeqNum.tla with the monitor attached: every history of <= 4 (thorough: 6) messages (requests of 1..3 "
                       "chunks through the client SendBuffer, responses through the server MessageWriter or through a chunking peer) with "
                       "<= 1 (thorough: 2) adversary moves (Reorder, Duplicate, Drop, Replay of a delivered message, ForeignChannelId, "
                       "MixedRequestIds) placed at any point, and histories in which a sender refuses a message (one chunk above its chunk limit, "
                       "above its max_message_size) and then goes on sending; the same histories are generated (exhaustive for 3 (thorough: 4) messages / 1 "
                       "move, also on a signed channel in thorough; simulation for 4 messages (quick) and 6 messages / 2 moves) and replayed on the real SendBuffer, MessageWriter, "
                       "server TcpTransport::process_chunk, client TransportState and Chunker::validate_chunks/decode; "
                       "distinct by channel configuration and action sequence; non-trivial = an adversary move followed by a message presented to a receiver")
    ctx.notes["cases_per_generator"] = {n: len(cs) for n, cs in gens}
    ctx.notes["steps_replayed"] = nsteps
    ctx.notes["distinct_cases"] = len(seen)
    ctx.notes["chunk_headers_emitted"] = nemit
    ctx.notes["messages_presented"] = npresent
    ctx.notes["drift"] = {"cases_with_L1_mismatch": ndrift, "first": firsts[:3]}
    for idx in (0, len(all_cases) // 2, len(all_cases) - 1):
        c = all_cases[idx]
        ctx.sample({"gen": c.get("gen"), "cfg": c["cfg"],
                    "steps": [{k: s[k] for k in ("ev", "side", "n", "kind", "w", "m", "rcv", "acc") if k in s} for s in c["steps"][:30]]})
    ctx.notes["messages_refused_by_sender"] = nrefused
    ctx.assumptions += ["both senders are configured with max_chunk_count 3 and max_message_size 40000; a refused message leaves the "
                        "SendBuffer / MessageWriter object in use (the real client transport closes the connection after a refused write)",
                        "histories run on an open channel (channel id 7, token 1); sequence numbers do not wrap (u32) within a history",
                        "chunk headers are parsed back from the emitted bytes the way the receiver reads them (verify_and_remove_security "
                        "with a helper channel of the receiving role, then MessageChunk::chunk_info); forged headers (ForeignChannelId, "
                        "MixedRequestIds) only on the policy None channel; the secured channel of the thorough tier is Basic256Sha256 "
                        "SignAndEncrypt with keys derived from fixed nonces (under Sign a multi chunk message does not decode: known C07 finding)",
                        "the server MessageWriter never splits a response (Chunker::encode is called with max_chunk_size 0): multi chunk "
                        "responses reach the client receiver from a peer that splits with Chunker::encode (not a sender under test)",
                        "a receiver that rejected a message has closed the connection: nothing more is delivered to it"]
    log("[c12] %d cases (%d non-trivial), %d steps, %d chunk headers, %d presented messages, %d drifting cases" % (
        len(all_cases), nt, nsteps, nemit, npresent, ndrift))
