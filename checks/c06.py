"""C06 Implicit Variant conversion never changes a numeric value."""
import random, re
from vlib import *
from checks import numline_gen as ng

LEVEL = "model_checking"


def static_names():
    """names of BaseLine in spec/NumLine.tla"""
    txt = open(os.path.join(SPEC, "NumLine.tla")).read()
    body = txt[txt.index("BaseLine =="):txt.index("Line == BaseLine")]
    return re.findall(r'\[n \|-> "([^"]+)"', body)


def extra_names(seed, n):
    """seeded interior points (thorough tier): integers between the named boundaries, with their quarter
    neighbours while these are still exact in binary64, so that every interval of the line is sampled"""
    rnd = random.Random(seed)
    base = sorted({ng.value(x) for x in ng.BASE_NAMES if abs(ng.value(x)) < 2 ** 100})
    ints = sorted({v for v in base if v.denominator == 1})
    out = set()
    gaps = [(a, b) for a, b in zip(ints, ints[1:]) if b - a > 2]
    for _ in range(n):
        a, b = gaps[rnd.randrange(len(gaps))]
        v = int(a) + 1 + rnd.randrange(int(b - a) - 1)
        out.add(str(v))
        if abs(v) < 2 ** 50:
            q = rnd.choice(["25", "5", "75"])
            if v >= 0:
                out.add("%d.%s" % (v, q))
                out.add(str(v + 1))
            else:
                out.add("-%d.%s" % (-v, q))
                out.add(str(v - 1))
    have = {ng.value(x) for x in ng.BASE_NAMES}
    return [x for x in sorted(out) if ng.value(x) not in have]


def name_of(v):
    """decimal name of a multiple of 1/4"""
    assert v.denominator in (1, 2, 4)
    a = abs(v)
    i = ng.floor_frac(a)
    frac = {0: "", ng.Fraction(1, 4): ".25", ng.Fraction(1, 2): ".5", ng.Fraction(3, 4): ".75"}[a - i]
    return ("-" if v < 0 else "") + str(i) + frac


def complete(names):
    """add the neighbours (nearest binary32/binary64 values) that a table over `names` needs to be closed"""
    names = list(names)
    have = {ng.value(x): x for x in names}
    for x in list(names):
        v = ng.value(x)
        for y in ng.n32(v) + ng.n64(v):
            if y not in have:
                have[y] = name_of(y)
                names.append(have[y])
    for x in list(names):          # the new points need their integer neighbours as well
        v = ng.value(x)
        if v.denominator != 1:
            f = ng.floor_frac(v)
            for y in (ng.Fraction(f), ng.Fraction(f + 1)):
                if y not in have:
                    have[y] = name_of(y)
                    names.append(have[y])
    return names


def run(ctx):
    # the static table of the specification is the one exact rational arithmetic computes from the names
    names = static_names()
    recs = ng.table(names)
    txt = open(os.path.join(SPEC, "NumLine.tla")).read()
    static = txt[txt.index("BaseLine =="):txt.index("Line == BaseLine")]
    for r in recs:
        if ng.tla_record(r) not in static:
            raise ToolError("spec/NumLine.tla: table row of %s differs from checks/numline_gen.py" % r["n"])
    consts = {}
    if not ctx.quick:
        extra = extra_names(ctx.seed, 90)
        allrecs = ng.table(complete(names + extra))
        consts = {"Line": Tla(ng.tla_table(allrecs))}
        ctx.notes["interior_points_added"] = len(allrecs) - len(recs)
    cases, verdicts = fn_pipeline(
        ctx, "C06", "num", "GenNum", "TraceNum", consts=consts, trace_consts=consts, crate="h_num",
        key=lambda c: {k: c["c"].get(k) for k in ("op", "src", "p", "enc", "dst")},
        expected=lambda c: None if c["c"]["op"] == "table" else c["exp"],
        observed=lambda o: {k: o["r"].get(k) for k in ("fail", "t", "p")},
        nontrivial=lambda c: c["c"]["op"] != "table" and c["c"]["src"] != c["c"]["dst"],
        rule="TLC enumerates every value of every one of the eleven numeric source types on the abstract number line "
             "(type extremes and their neighbours, x.25/x.5/x.75 rounding neighbours, largest binary32/binary64-exact "
             "integers, f32/f64 max, tiny values, +-0, NaN, +-inf%s) x every numeric target type x {implicit convert, "
             "explicit cast}; checks the specified function against the predicate; each point is run through the real "
             "Variant::convert / Variant::cast and judged by the same predicate. Non-trivial: source type differs from "
             "target type; distinct by (op, source type, point, encoding, target type)" % (
                 "" if ctx.quick else ", plus seeded interior points"))
    # the table case: the harness re-derived every attribute from the names with exact integer arithmetic
    obs = os.path.join(ctx.dir, "fn.obs.ndjson")
    seen = False
    nres = 0
    for line in open(obs):
        o = json.loads(line)
        if o["c"]["op"] == "table":
            seen = True
            if o["r"]["errs"]:
                raise ToolError("number line table disagrees with the concrete Rust types: %s" % o["r"]["errs"][:5])
            ctx.notes["number_line_points"] = o["r"]["points"]
        else:
            if o["r"]["fail"] == "setup":
                raise ToolError("harness could not build a source value: %s" % json.dumps(o)[:300])
            if o["r"]["t"] != "Empty":
                nres += 1
    if not seen and not ctx.replay:
        raise ToolError("table case missing")
    ctx.notes["calls_that_yielded_a_result"] = nres
    ctx.assumptions += ["a point name is evaluated by the harness (exact i128 quarters) and by checks/numline_gen.py (exact "
                        "rationals); both must agree with the TLA+ table, the harness also with T::MIN/T::MAX of the Rust types",
                        "on a rounding tie (x.5) both neighbouring integers count as nearest; on a binary32/binary64 tie both "
                        "neighbouring representable values count as nearest",
                        "cast to Boolean and the result of casting a Double beyond the binary32 range to Float are outside the statement "
                        "and not judged"]
