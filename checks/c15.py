"""C15 No service is processed before the handshake or after channel close."""
from checks.hs_common import *

LEVEL = "model_checking"


def run(ctx):
    q = ctx.quick
    kinds = KINDS_ALL[:6] + [KINDS_ALL[6], KINDS_ALL[8]]
    c = dict(MaxChunks=3, MaxMsg=65536, ChunkBytes=1024, DevMsgBeforeOpen=False, DevNoChunkLimit=False,
             Kinds=Tla("{" + ", ".join(tla_value(k) for k in kinds) + "}"), MaxDepth=5 if q else 6)
    ctx.model_check("design", "MCHandshake", dict(c, MaxDepth=7), ["C15"], view="MView")
    ctx.model_check("dev_msg_before_open", "MCHandshake", dict(c, DevMsgBeforeOpen=True), ["C15"], view="MView",
                    expect_violation="C15")
    h, r = ctx.gen("frames", "GenHandshake", c)
    ctx.cov["exhaustive"] = True
    pipeline(ctx, "C15", take(h, 8000 if q else 200000, ctx.seed), c,
             lambda x: any(s["kind"] in ("MSG", "MSGS") and s["fl"] == "F" for s in x["steps"]),
             "every sequence of frames over {HEL, OPN issue, OPN renew, MSG GetEndpoints, MSG Read, MSG with a stale channel id, CLO, intermediate MSG chunk} up to the "
             "depth bound, fed to a real TcpTransport the way its reading task feeds it; non-trivial = contains a complete MSG")
