"""Shared by the channel checks C07 C08 C09 (crate h_channel)."""
from vlib import *

CRATE = "h_channel"


def chan_info(ctx, bits, main_bits=()):
    """concrete sizes the abstract layout needs (DER length of the minted certificates, smallest messages), measured on
    the real code; also generates the RSA keys once, before the engines run in parallel"""
    p = ctx.write_cases("info", [{"case": 1, "c": {"bits": sorted(bits), "bits_main": sorted(set(main_bits) - set(bits))}}])
    obs = ctx.run("chaninfo", p, name="info", crate=CRATE)
    with open(obs) as f:
        r = json.loads(f.readline())["r"]
    certs = {k.replace("-", ""): v for k, v in r["certs"].items() if k.split("-")[0] in ("app", "server")}
    mins = {k.replace("-", ""): v for k, v in r["mins"].items()}
    return {"certs": certs, "mins": mins}


def key_pairs(quick, kind="all"):
    """<<sender bits, receiver bits>>; 1024/2048 in quick, 4096 added in thorough"""
    if quick:
        return {(1024, 1024), (1024, 2048), (2048, 1024), (2048, 2048)}
    return {(a, b) for a in (1024, 2048, 4096) for b in (1024, 2048, 4096)}
