"""Shared pipeline of the stateful client engines (ClientTransport.tla / engine `ctrans`, ClientAcks.tla / engine `cacks`)."""
import json, random
from vlib import *

CRATE = "h_client"


def take(hists, n, seed):
    """deterministic sample of at most n behaviours"""
    if len(hists) <= n:
        return hists
    r = random.Random(seed)
    idx = sorted(r.sample(range(len(hists)), n))
    return [hists[i] for i in idx]


def strip_expected(step, predicted):
    s = dict(step)
    for k in predicted:
        s.pop(k, None)
    return s


def compare_drift(cases, obs_path, fields):
    """L1 conformance: the real observation of every step equals the record the specification predicted.
    Returns (steps compared, first mismatch of every drifting case, steps of the real code that did not return)."""
    exp = {}
    for c in cases:
        for i, s in enumerate(c["steps"]):
            exp[(c["case"], i + 1)] = s
    n = 0
    drift = []
    failed = []
    bad = set()
    with open(obs_path) as f:
        for line in f:
            o = json.loads(line)
            if o.get("fail", "none") != "none":
                failed.append({"case": o["case"], "i": o["i"], "ev": o.get("ev"), "site": o.get("site")})
            e = exp.get((o["case"], o["i"]))
            if e is None or o["case"] in bad:
                continue
            n += 1
            for k in ("fail",) + tuple(fields):
                ev = "none" if k == "fail" else e.get(k)
                if canon(ev) != canon(o.get(k)):
                    bad.add(o["case"])
                    drift.append({"case": o["case"], "i": o["i"], "field": k, "ev": o.get("ev"), "expected": ev, "observed": o.get(k)})
                    break
    return n, drift, failed


def pipeline(ctx, pid, engine, trace_root, gens, predicted, nontrivial, rule, trace_consts=None):
    """gens: list of (name, cfg, histories). Runs the harness, judges with the TLC trace monitor, records evidence."""
    all_cases = []
    for name, cfg, hists in gens:
        for h in hists:
            all_cases.append({"case": len(all_cases) + 1, "gen": name, "cfg": cfg, "steps": h})
    if ctx.replay:
        rp = json.load(open(ctx.replay))
        all_cases = [rp["case"]]
        all_cases[0]["case"] = 1
    cpath = ctx.write_cases(engine, all_cases)
    obs = ctx.run(engine, cpath, crate=CRATE)
    verdicts = ctx.judge(engine, trace_root, obs, trace_consts or {})
    nsteps, drift, failed = compare_drift(all_cases, obs, predicted) if not ctx.replay else (0, [], [])
    by_case = {c["case"]: c for c in all_cases}
    for v in verdicts:
        c = by_case.get(v["case"])
        ctx.add_violation("%s:%s" % (pid, v["clause"]),
                          "%s at step %d of case %s (%s)" % (v["clause"], v["i"], v["case"], c.get("gen") if c else "?"),
                          {"case": 1, "gen": c.get("gen"), "cfg": c.get("cfg"), "steps": c["steps"]} if c else None, engine=engine)
    seen = set()
    nt = 0
    for c in all_cases:
        k = canon([c["cfg"], [strip_expected(s, predicted) for s in c["steps"]]])
        if k in seen:
            continue
        seen.add(k)
        if nontrivial(c):
            nt += 1
    ctx.cov["evaluations"] += len(all_cases)
    ctx.cov["distinct_nontrivial"] += nt
    ctx.cov["traces_validated_against_impl"] += len(all_cases)
    ctx.cov["rule"] = rule
    ctx.notes["steps_replayed"] = nsteps
    ctx.notes["drift"] = {"cases_with_L1_mismatch": len(drift), "first": drift[:3]}
    ctx.notes["steps_that_did_not_return"] = {"count": len(failed), "first": failed[:3]}
    if all_cases:
        for idx in (0, len(all_cases) // 2, len(all_cases) - 1):
            c = all_cases[idx]
            ctx.sample({"gen": c.get("gen"), "cfg": c.get("cfg"), "steps": [strip_expected(s, predicted) for s in c["steps"]][:40]})
    log("[%s] %d cases, %d steps, %d verdicts, %d drifting cases, %d steps did not return" % (
        engine, len(all_cases), nsteps, len(verdicts), len(drift), len(failed)))
    return all_cases, verdicts, drift
