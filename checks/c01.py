"""C01 Binary encoding round-trips every valid value exactly."""
from vlib import *

LEVEL = "model_checking"

FIX = {"Empty", "Boolean", "SByte", "Byte", "Int16", "UInt16", "Int32", "UInt32", "Int64", "UInt64", "Float", "Double",
       "Guid", "StatusCode"}


def run(ctx):
    lvl = 1 if ctx.quick else 3
    # the tree before the repair (dimensions of an array without elements never consumed) violates the design predicate
    ctx.model_check("dev_dims_never", "MCCodecRt", {"Lvl": 0}, ["DevOK"], spec="Spec", expect_violation="DevOK")
    cases, verdicts = fn_pipeline(
        ctx, "C01", "rt", "GenCodecRt", "TraceCodecRt", consts={"Lvl": lvl}, invariants=("DesignOK", "TreeOK"),
        crate="h_codec", key=lambda c: c.get("c"),
        expected=lambda c: c["exp"]["bytes"], observed=lambda o: o["r"].get("bytes"),
        nontrivial=lambda c: c["c"]["w"]["t"] not in FIX,
        sig=lambda v, c: "C01:%s" % v["clause"],
        rule="TLC enumerates abstract values of Variant (every scalar type, single / multi-dimensional arrays of every element "
             "type incl. arrays without elements with and without dimensions, nested Variant / DataValue / arrays of them to "
             "nesting level %d), DataValue (every valid presence combination), DiagnosticInfo (every subset of the optional "
             "fields, inner chains of 1-3), ExtensionObject, NodeId (all six encodings), ExpandedNodeId (flags), LocalizedText, "
             "QualifiedName, String, ByteString and 4 representative service messages (WriteRequest, CallRequest, ReadResponse, "
             "ServiceFault); TLC checks the specified decoder against the specified layout for each; the real byte_len / encode "
             "/ decode run on each value embedded between two sentinels and once more on the decoded value; a TLA+ predicate "
             "judges predicted length = bytes written, consumed = written, sentinels intact, decoded = Norm(value). Distinct by "
             "value; non-trivial = not a fixed-width scalar. NOT covered: the other ~400 generated structures, leaf-value "
             "fidelity (float bits, UTF-8, ticks other than the named points; leaves travel as byte images). Drift = real "
             "bytes differ from the specified layout Enc(v) (not an alarm)." % lvl)
    ctx.assumptions += ["leaf values are built from little-endian byte images; DateTime only at the named points epoch/mid/mid+50ns/<1601/>9999/endtimes",
                        "service messages are decoded through SupportedMessage::decode_by_object_id with default DecodingOptions"]
