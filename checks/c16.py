"""C16 Encrypted user passwords round-trip, bind to the nonce, and never crash."""
from vlib import *

LEVEL = "model_checking"


def pw(cls, n):
    return '[cls |-> "%s", n |-> %d]' % (cls, n)


def run(ctx):
    if ctx.quick:
        bits = {1024, 2048}
        nlens = {0, 1, 32, 64}
        pws = [pw("ascii", n) for n in (0, 1, 8, 512)] + [pw("latin", 1), pw("latin", 100), pw("cjk", 1), pw("cjk", 170),
               pw("emoji", 1), pw("emoji", 128), pw("mixed", 7), pw("mixed", 204)]
    else:
        bits = {1024, 2048, 4096}
        nlens = {0, 1, 16, 32, 33, 64}
        pws = [pw("ascii", n) for n in list(range(0, 17)) + [31, 32, 33, 63, 64, 65, 100, 127, 128, 255, 256, 257, 511, 512]] + \
              [pw("latin", n) for n in (1, 2, 31, 100, 256)] + [pw("cjk", n) for n in (1, 2, 21, 170)] + \
              [pw("emoji", n) for n in (1, 2, 16, 128)] + [pw("mixed", n) for n in (2, 3, 4, 7, 50, 204)]
    combos = [(b, p) for b in sorted(bits) for p in ("pkcs1", "oaep-sha1", "oaep-sha256")]
    consts = {"KeyBits": bits, "NonceLens": nlens, "Passwords": Tla("{" + ", ".join(pws) + "}"),
              "ByteCombos": Tla("<<" + ", ".join('<<%d, "%s">>' % c for c in combos) + ">>"), "ByteSample": ctx.quick}
    fn_pipeline(ctx, "C16", "pwtoken", "GenPasswordToken", "TracePasswordToken", consts=consts, trace_consts=consts,
                spec="Spec0", crate="h_crypto", key=lambda c: c.get("c"),
                expected=lambda c: strip(c["exp"]["r"]), observed=lambda o: strip(o.get("r")),
                nontrivial=lambda c: not (c["c"]["kind"] == "rt" and c["c"]["pw"]["n"] == 0 and c["c"]["nonce"]["len"] == 0),
                rule="TLC enumerates (a) round trips: password (character class x length, 0..512 bytes, ASCII / 2-, 3-, 4-byte "
                     "UTF-8 / mixed, lengths around the RSA block boundaries) x nonce (length 0..64, two byte classes) x padding "
                     "(PKCS#1, OAEP-SHA1, OAEP-SHA256) x key size, each decrypted with the same nonce and with 8 nonce variants "
                     "through legacy_password_decrypt and decrypt_user_identity_token_password; (b) the decision table of crafted "
                     "plaintexts (length prefix x password class x nonce relation); (c) arbitrary ciphertexts (11 lengths x 3 "
                     "fills); (d) byte-level crafted plaintexts of a hostile client, correctly encrypted: length prefix classes "
                     "{0, nonce_len-5..nonce_len+1, body length, +1, +nonce_len, 0xFFFFFFFF} x body classes {tails of the nonce, the "
                     "nonce, password+nonce, password+wrong nonce, empty, unrelated} x nonce classes {pseudo-random, all zero, 1..4 "
                     "leading zero bytes, a length-prefix look-alike; lengths 0..5, 32}, judged against a total specified "
                     "decryption on byte sequences; distinct by case record; non-trivial = not the empty password with the empty nonce")
    ctx.assumptions += ["RSA is symbolic in the model; the harness encrypts crafted plaintexts with openssl's EVP encrypter",
                        "a nonce variant that the plaintext body ends with (empty nonce, nonce without its first byte) is by "
                        "the token format a valid token for that nonce: only 'no panic' is required there",
                        "password bytes and nonce bytes are drawn from disjoint alphabets; adjacent nonce bytes differ",
                        "an arbitrary ciphertext that happens to decrypt to a well-formed plaintext (probability < 2^-40) "
                        "would be counted as drift, not as a violation"]


def strip(r):
    if not isinstance(r, dict):
        return r
    r = dict(r)
    r.pop("plain_len", None)
    return r
