"""C27 Higher-priority subscriptions are served first."""
from checks.subs_common import *

LEVEL = "model_checking"


def run(ctx):
    q = ctx.quick
    # two (thorough: three) subscriptions with distinct priorities, one item each on its own node
    nsub = 2 if q else 3
    subs = set(range(1, nsub + 1))
    setup_sets = []
    import itertools
    for prios in itertools.permutations([0, 5, 9][:nsub] if nsub == 3 else [1, 7]):
        sc = []
        for i, p in enumerate(prios):
            sc.append(["CreateSub", i + 1, 2, 6, True, p, 1])
        for i in range(nsub):
            sc.append(["CreateItem", i + 1, 1, i + 1, 2, True, "Reporting", -1])
        setup_sets.append(sc)
    base = consts(SubIds=subs, Nodes=subs, Vals={0, 1, 2}, Acts={"Write", "Pub", "Tick"}, Scripts=scripts(setup_sets),
                  MaxWrites=3 if q else 4, MaxPubs=3 if q else 4, MaxTicks=4 if q else 5,
                  MaxDepth=len(setup_sets[0]) + (6 if q else 7))
    mc = dict(base, Mons={"C27"})
    ctx.model_check("design", "MCSubs", mc, ["C27"], view="MView")
    ctx.model_check("dev_prio_asc", "MCSubs", dict(mc, DevPrioAsc=True), ["C27"], view="MView", expect_violation="C27")
    h, r = ctx.gen("interleavings", "GenSubs", base if q else dict(base, MaxDepth=len(setup_sets[0]) + 5), timeout=2400)
    gens = [("interleavings", to_cases(take(h, 3000 if q else 60000, ctx.seed)))]
    n = 200 if q else 3000
    # a ModifySubscription changes priorities in mid-flight
    mcm = dict(base, Acts={"Write", "Pub", "Tick", "ModifySub"}, KAs={2}, LtExtra={0}, Prios={1, 4, 7}, MaxDepth=len(setup_sets[0]) + 5,
               Mons={"C27"})
    ctx.model_check("design_modify", "MCSubs", mcm, ["C27"], view="MView")
    gm = {k: v for k, v in mcm.items() if k != "Mons"}
    h, r = ctx.gen("modify", "GenSubs", dict(gm, MaxDepth=len(setup_sets[0]) + (5 if q else 4)))
    gens.append(("modify", to_cases(take(h, 1500 if q else 30000, ctx.seed), start=500000)))
    g3 = dict(base, Acts={"Write", "Pub", "Tick", "ModifySub"}, KAs={2}, LtExtra={0}, Prios={1, 4, 7}, MaxDepth=len(setup_sets[0]) + 24, MaxWrites=12,
              MaxPubs=12, MaxTicks=14, Dts={0, 1, 2})
    h, r = ctx.gen("random", "GenSubs", g3, simulate="num=%d" % max(20, n // 8))
    gens.append(("random", to_cases(take(h, n, ctx.seed))))
    ctx.cov["exhaustive"] = True

    def nontrivial(c):
        # a tick that served someone while another subscription still had notifications ready
        return any(s["ev"] == "Tick" and s.get("out") and any(x["nq"] > 0 for x in s["st"]["subs"]) for s in c["steps"])

    pipeline(ctx, "C27", gens, trace_consts(mc), nontrivial,
             "all interleavings of Write/Pub/Tick after creating subscriptions with every assignment of distinct priorities "
             "(exhaustive to a depth bound) plus random simulation, replayed on the real server; non-trivial = a timer tick "
             "answered a request while some subscription still had notifications queued (fewer requests than notifications)")
    ctx.assumptions += ["the model's predicted post-state is used only to count non-trivial cases; the verdict comes from the real observations"]
