"""C10 Memory held for an incomplete incoming message is bounded."""
from checks.hs_common import *

LEVEL = "model_checking"


def run(ctx):
    q = ctx.quick
    kinds = [KINDS_ALL[0], KINDS_ALL[1], KINDS_ALL[3], KINDS_ALL[6], KINDS_ALL[7]]
    K = Tla("{" + ", ".join(tla_value(k) for k in kinds) + "}")
    for name, mc_, mm in (("count", 3, 65536), ("bytes", 0, 2560)):
        c = dict(MaxChunks=mc_, MaxMsg=mm, ChunkBytes=1024, DevMsgBeforeOpen=False, DevNoChunkLimit=False, Kinds=K,
                 MaxDepth=6 if q else 8)
        ctx.model_check("design_" + name, "MCHandshake", dict(c, MaxDepth=9), ["C10"], view="MView")
        ctx.model_check("dev_nolimit_" + name, "MCHandshake", dict(c, DevNoChunkLimit=True), ["C10"], view="MView",
                        expect_violation="C10")
        h, r = ctx.gen("chunks_" + name, "GenHandshake", c)
        pipeline(ctx, "C10", take(h, 8000 if q else 150000, ctx.seed), c,
                 lambda x: sum(1 for s in x["steps"] if s["fl"] == "C") >= 3,
                 "every sequence of frames over {HEL, OPN issue, MSG GetEndpoints, intermediate MSG chunk, abort chunk} up to the depth "
                 "bound against a server with max_chunk_count 3 and against one with max_message_size 2560 (chunks of 1024 bytes); the "
                 "number and bytes of pending chunks are read from the real transport after every frame; non-trivial = at least 3 "
                 "intermediate chunks", name=name)
    ctx.cov["exhaustive"] = True
    ctx.assumptions += ["the TCP framing half of C10 (a frame whose declared size exceeds the maximum is rejected without buffering) is "
                        "decided by the C03 check (TcpCodec cases of CodecLim.tla)"]
