"""Shared pipeline of the subscription engine (Subscription.tla / SubsProps.tla / engine `subs`)."""
import json, os, random
from vlib import *

BASE = dict(SubIds={1}, ItemIds={1}, Nodes={1}, Vals={0, 1}, ReqTimeout=30,
            DevKeepAlive15=False, DevNoLtReset=False, DevDropOnNone=False, DevPrioAsc=False, DevExpirePanic=False, DevNegPanic=False, DevShrinkPanic=False,
            Acts=set(), Scripts=Tla("{}"), KAs={1}, LtExtra={0}, Ens={True}, Prios={0}, Itvs={1},
            QSizes={1}, Dolds={True}, Samps={-1}, Dts={1}, Hints={0}, TsOffs={0}, MaxDepth=10, MaxPubs=99,
            MaxWrites=0, MaxTicks=99, AckModes={"none"})


def consts(**kw):
    c = dict(BASE)
    c.update(kw)
    return c


def scripts(lst):
    """python list of scripts -> TLA set of sequences"""
    return Tla("{" + ", ".join(tla_value(s) for s in lst) + "}") if lst else Tla("{}")


def trace_consts(c):
    return {k: c[k] for k in ("SubIds", "ItemIds", "ReqTimeout")}


def take(hists, n, seed):
    """deterministic sample of at most n behaviours"""
    if len(hists) <= n:
        return hists
    r = random.Random(seed)
    idx = sorted(r.sample(range(len(hists)), n))
    return [hists[i] for i in idx]


def to_cases(hists, start=0):
    return [{"case": start + i + 1, "steps": h} for i, h in enumerate(hists)]


def strip_expected(step):
    s = dict(step)
    for k in ("pre", "out", "st", "fail"):
        s.pop(k, None)
    return s


def compare_drift(cases, obs_path):
    """L1 conformance: the real observation of every step equals the record the specification predicted.
    Returns (number of steps compared, list of first mismatch per case)."""
    exp = {}
    for c in cases:
        for i, s in enumerate(c["steps"]):
            exp[(c["case"], i + 1)] = s
    n = 0
    drift = []
    bad_cases = set()
    with open(obs_path) as f:
        for line in f:
            o = json.loads(line)
            key = (o["case"], o["i"])
            e = exp.get(key)
            if e is None or o["case"] in bad_cases:
                continue
            n += 1
            for k in ("fail", "pre", "out", "st"):
                if k in e and canon(e[k]) != canon(o.get(k)):
                    bad_cases.add(o["case"])
                    drift.append({"case": o["case"], "i": o["i"], "field": k, "ev": o.get("ev"),
                                  "expected": e[k], "observed": o.get(k)})
                    break
    return n, drift


def pipeline(ctx, pid, gens, tconsts, nontrivial, rule, name="subs", unit_us=None):
    """gens: list of (name, cases). Runs harness, judges, records evidence and violations for property pid.
    unit_us: microseconds per model clock unit (default: the engine's one second); a second call with another unit
    (and another `name`) adds to the evidence of the first."""
    all_cases = []
    for gname, cases in gens:
        for c in cases:
            c["case"] = len(all_cases) + 1
            c["gen"] = gname
            if unit_us:
                c["unit_us"] = unit_us
            all_cases.append(c)
    if ctx.replay:
        rp = json.load(open(ctx.replay))
        if rp["case"].get("unit_us") != unit_us:
            return [], [], []
        all_cases = [rp["case"]]
        all_cases[0]["case"] = 1
    cpath = ctx.write_cases(name, all_cases)
    obs = ctx.run("subs", cpath, name=name)
    verdicts = ctx.judge(name, "TraceSubs", obs, dict(tconsts, Mons={pid}))
    nsteps, drift = compare_drift(all_cases, obs)
    by_case = {c["case"]: c for c in all_cases}
    mine = [v for v in verdicts if v["prop"] == pid]
    for v in mine:
        c = by_case.get(v["case"])
        sig = "%s:%s" % (pid, v["clause"])
        ctx.add_violation(sig, "%s at step %d of case %s (%s)" % (v["clause"], v["i"], v["case"], c.get("gen") if c else "?"),
                          dict({"case": 1, "steps": [strip_expected(s) for s in c["steps"]]},
                               **({"unit_us": unit_us} if unit_us else {})) if c else None, engine="subs")
    seen = set()
    nt = 0
    for c in all_cases:
        k = canon([strip_expected(s) for s in c["steps"]])
        if k in seen:
            continue
        seen.add(k)
        if nontrivial(c):
            nt += 1
    ctx.cov["evaluations"] += len(all_cases)
    ctx.cov["distinct_nontrivial"] += nt
    ctx.cov["traces_validated_against_impl"] += len(all_cases)
    ctx.cov["rule"] = rule if name == "subs" or not ctx.cov.get("rule") else ctx.cov["rule"] + "; " + rule
    sfx = "" if name == "subs" else "_" + name
    ctx.notes["steps_replayed" + sfx] = nsteps
    ctx.notes["drift" + sfx] = {"cases_with_L1_mismatch": len(drift), "first": drift[:3]}
    ctx.notes["other_monitor_verdicts" + sfx] = sorted({"%s:%s" % (v["prop"], v["clause"]) for v in verdicts if v["prop"] != pid})
    if all_cases:
        for idx in (0, len(all_cases) // 2, len(all_cases) - 1):
            c = all_cases[idx]
            ctx.sample({"gen": c.get("gen"), "steps": [strip_expected(s) for s in c["steps"]][:40]})
    log("[subs] %d cases, %d steps, %d verdicts for %s, %d drifting cases" % (len(all_cases), nsteps, len(mine), pid, len(drift)))
    return all_cases, verdicts, drift
