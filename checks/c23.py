"""C23 Revised subscription and monitored item parameters respect the limits."""
from vlib import *

LEVEL = "model_checking"


def run(ctx):
    fn_pipeline(ctx, "C23", "revise", "GenRevise", "TraceRevise",
                limit=4000 if ctx.quick else None,
                nontrivial=lambda c: True,
                rule="TLC enumerates requested publishing/sampling intervals (NaN, +-inf, negative, 0, around the minimum, huge), "
                     "keep-alive / lifetime counts (0, 1, around the maximum, around u32::MAX/3, u32::MAX), queue sizes and 3 server "
                     "limit configurations, for create and modify; each point is sent through the real service; distinct by input")
    ctx.assumptions += ["u32 values are carried as <<hi, lo>> pairs (TLC integers are 32 bit)",
                        "server limits are set through the public fields of ServerState before the request"]
