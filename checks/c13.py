"""C13 Channel keys are derived per the specification and agree on both ends."""
from vlib import *

LEVEL = "model_checking"


def run(ctx):
    if ctx.quick:
        lens = {0, 1, 16, 20, 24, 31, 32, 33, 64}
        edge = {1, 32, 64}
    else:
        lens = set(range(0, 65))
        edge = {1, 16, 24, 32, 33, 64}
    consts = {"Lens": lens, "EdgeLens": edge, "DevAppendLocalNonce": False}
    # the history-independence clause is not vacuous: a channel end whose set_local_nonce appends violates it on a renewal
    ctx.model_check("dev_append_local_nonce", "MCKeyDerivation", dict(consts, DevAppendLocalNonce=True), ["DesignOK"],
                    spec="SpecSeq", expect_violation="DesignOK", workers=2)
    fn_pipeline(ctx, "C13", "keyderiv", "GenKeyDerivation", "TraceKeyDerivation", consts=consts, trace_consts=consts,
                crate="h_crypto", key=lambda c: c.get("c"), expected=lambda c: None,
                nontrivial=lambda c: c["c"]["kind"] == "seq" or c["c"]["cn"] != c["c"]["sn"],
                rule="TLC enumerates every (security policy, client nonce, server nonce) over the abstract nonce set "
                     "(pseudo-random streams of the listed lengths 0..64, repeated bytes 00/ff/a5, counting bytes, a second "
                     "stream), checks the specified derivation against Table 33 as symbolic P_SHA terms and prints the terms; "
                     "the harness evaluates the terms with an independent RFC 5246 P_hash and maps the keys derived by "
                     "SecurityPolicy::make_secure_channel_keys and by client-role and server-role SecureChannel::derive_keys back "
                     "to terms; in addition sequences of 2 and 3 exchanges (issue, renewals; fresh nonce pairs of the policy's nonce "
                     "length, also server-generated nonces) run on ONE client-role and ONE server-role channel object, driven "
                     "with set_local_nonce / set_remote_nonce_from_byte_string / create_random_nonce / derive_keys, and judged "
                     "after every exchange (history independence); distinct by case; non-trivial = the two nonces differ or a "
                     "sequence")
    ctx.assumptions += ["HMAC per RFC 2104 over openssl SHA-1/SHA-256 is the trusted primitive of the independent P_hash "
                        "(self-tested against openssl's HMAC)",
                        "distinct P_SHA terms (modulo HMAC key zero padding) denote distinct byte strings",
                        "derived keys are read through the cfg-guarded projection SecureChannel::verif_derived_keys, which "
                        "uses the accessors of the sign/encrypt/verify/decrypt code"]
