"""C29 Deleting a node terminates and leaves no dangling references."""
from checks.aspace_common import *

LEVEL = "model_checking"


def run(ctx):
    q = ctx.quick
    c = consts(Acts={"Ins", "DelNode"}, MaxDepth=4 if q else 5, Types={"HC", "OR"} if q else {"HC", "HP", "OR"})
    mc = dict(c, Mons={"C29"}, MaxDepth=5 if q else 6, Types={"HC", "OR"})
    ctx.model_check("design", "MCAspace", mc, ["C29"], view="MView")
    ctx.model_check("dev_no_visited", "MCAspace", dict(mc, DevNoVisited=True), ["C29"], view="MView", expect_violation="C29")
    h, r = ctx.gen("graphs", "GenAspace", c)
    # keep behaviours that end in a deletion (the graph builders) plus a sample of the rest
    ends = [x for x in h if x[-1]["ev"] == "DelNode"]
    gens = [("graphs", take(ends, 1500 if q else 50000, ctx.seed))]
    n = 200 if q else 3000
    h4, r = ctx.gen("random", "GenAspace", dict(c, MaxDepth=12, Nodes={1, 2, 3, 4}, Types={"HC", "HP", "OR"}),
                    simulate="num=%d" % max(20, n // 8))
    ctx.cov["exhaustive"] = True

    def nontrivial(x):
        ins = [(s["a"], s["b"]) for s in x["steps"] if s["ev"] == "Ins" and s["t"] in ("HC", "HP")]
        cyc = any((b, a) in ins for a, b in ins)
        shared = len({b for a, b in ins}) < len(ins)
        return (cyc or shared) and any(s["ev"] == "DelNode" for s in x["steps"])

    pipeline(ctx, "C29", gens, c, nontrivial,
             "every reference graph reachable by up to depth-1 insertions over 3 nodes (HasComponent / HasProperty / Organizes, "
             "including cycles and shared children) followed by delete(node, true) of every node; each case in its own process "
             "(stack overflow / non-termination are observations); non-trivial = an aggregates cycle or a shared child")
    ctx.dir = ctx.sub("four")
    pipeline(ctx, "C29", [("random", take(h4, n, ctx.seed))], dict(c, Nodes={1, 2, 3, 4}, Types={"HC", "HP", "OR"}), nontrivial,
             ctx.cov["rule"] + "; plus simulated sequences over 4 nodes")
