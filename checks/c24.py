"""C24 Monitored item queues keep the right values and survive resizing."""
from checks.subs_common import *

LEVEL = "model_checking"


def run(ctx):
    q = ctx.quick
    # the item samples at every timer tick (sampling interval = server minimum), the subscription collects every 3rd/4th
    setups = []
    for qs in (1, 2, 3):
        for d in (True, False):
            setups.append([["CreateSub", 1, 2, 8, True, 0, 4], ["CreateItem", 1, 1, 1, qs, d, "Reporting", 0]])
    base = consts(Vals={0, 1, 2, 3}, Acts={"Write", "Tick", "Pub", "ModifyItem"}, Scripts=scripts(setups),
                  QSizes={1, 2, 3, 4}, Dolds={True, False}, MaxWrites=5, MaxPubs=2, MaxTicks=6, Dts={1},
                  MaxDepth=2 + (7 if q else 9))
    mc = dict(base, Mons={"C24"})
    if q:
        mc = dict(mc, Scripts=scripts([setups[1], setups[2], setups[5]]), MaxDepth=2 + 6)
    ctx.model_check("design", "MCSubs", mc, ["C24"], view="MView")
    ctx.model_check("dev_shrink", "MCSubs", dict(mc, DevShrinkPanic=True), ["C24"], view="MView", expect_violation="C24")
    gens = []
    h, r = ctx.gen("interleavings", "GenSubs", dict(base, MaxDepth=2 + (5 if q else 6), Vals={0, 1, 2}, QSizes={1, 2, 3},
                                                    Scripts=scripts(setups[2:4] if q else setups)))
    gens.append(("interleavings", to_cases(take(h, 3000 if q else 60000, ctx.seed))))
    # repeated overflows between two collections: the item samples at every tick, the subscription collects every 8th; more
    # samples than the queue holds arrive before the queue is drained, then the values are published
    ov = []
    for qs in (2, 3):
        for d in (True, False):
            sc = [["CreateSub", 1, 2, 8, True, 0, 8], ["CreateItem", 1, 1, 1, qs, d, "Reporting", 0], ["Tick", 1]]
            for j in range(7):
                sc += [["Write", 1, 1 + (j % 3)], ["Tick", 1]]
            sc += [["Pub"], ["Tick", 1]]
            ov.append(sc)
    ovc = consts(Vals={0, 1, 2, 3}, Acts={"Tick", "Pub"}, Scripts=scripts(ov), QSizes={2, 3}, Dolds={True, False}, MaxPubs=99, MaxTicks=99, Dts={1},
                 MaxDepth=len(ov[0]) + 3)
    ctx.model_check("design_overflows", "MCSubs", dict(ovc, Mons={"C24"}), ["C24"], view="MView")
    h, r = ctx.gen("overflows", "GenSubs", ovc)
    gens.append(("overflows", to_cases(take(h, 400 if q else 4000, ctx.seed))))
    n = 300 if q else 4000
    h, r = ctx.gen("random", "GenSubs", dict(base, MaxDepth=36, MaxWrites=16, MaxPubs=8, MaxTicks=18),
                   simulate="num=%d" % max(20, n // 8))
    gens.append(("random", to_cases(take(h, n, ctx.seed))))
    ctx.cov["exhaustive"] = True

    def nontrivial(c):
        full = any(any(len(it["q"]) == it["qsize"] for sub in s["st"]["subs"] for it in sub["items"]) for s in c["steps"])
        mod = any(s["ev"] == "ModifyItem" for s in c["steps"])
        return full and mod

    pipeline(ctx, "C24", gens, trace_consts(mc), nontrivial,
             "one item sampling at every timer tick under a subscription that collects every 4th, queue sizes 1..3 and both "
             "discard policies, interleaved with ModifyMonitoredItems to sizes 1..4 / either policy, writes of 3-4 distinct values, "
             "publish requests; exhaustive to a depth bound + simulation; non-trivial = the queue was full at some point and a "
             "modify happened")
