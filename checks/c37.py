"""C37 Reconnect back-off follows its policy and never overflows."""
from vlib import *

LEVEL = "model_checking"


def run(ctx):
    def sig(v, c):
        return "C37:%s" % v["clause"]

    fn_pipeline(ctx, "C37", "backoff", "GenBackoff", "TraceBackoff", crate="h_client", sig=sig,
                consts={"Wide": not ctx.quick}, trace_consts={"Wide": not ctx.quick},
                key=lambda c: {k: c["c"][k] for k in ("init", "max", "limit", "from", "n")} if c else None,
                expected=lambda c: c.get("exp"), observed=lambda o: o.get("r"),
                nontrivial=lambda c: c["c"]["n"] > 2 and c["c"]["limit"] != {"k": "some", "v": [0, 0]},
                rule="TLC enumerates every policy over the duration points {0, 1 ns, 500 ms, 30 s, Duration::MAX/2, "
                     "Duration::MAX/2 + 1 ns, Duration::MAX - 1 ns, Duration::MAX} x the same points for the maximum x retry "
                     "limits {none, 0, 1, 2, 3, 10, 70, u32::MAX} x {fresh back-off, back-off that has already produced "
                     "u32::MAX - 2 delays}; each is run on the real ExponentialBackoff for limit + 2 calls (70 when "
                     "unlimited or above 70, 6 for the resumed ones); the thorough tier adds the points 1 us, 1 s, Duration::MAX/4, "
                     "Duration::MAX/2 - 1 ns and the limits 5, 69, 71, u32::MAX - 1; non-trivial = at least 3 calls and a limit above 0")
    ctx.assumptions += ["durations are exact nanosecond counts (base-10000 digit sequences), u32 values are <<hi, lo>> pairs",
                        "the state after u32::MAX - 2 delays is installed through the cfg-guarded hook "
                        "ExponentialBackoff::verif_set_state instead of 4 294 967 293 calls of next()"]
