"""C33 No well-formed request from an authenticated client crashes the server."""
import json, os, subprocess, concurrent.futures
from vlib import *
from checks.subs_common import take

LEVEL = "exploration"


def run_batches(ctx, cases, nproc):
    """in-process batches in parallel; a batch whose process dies is re-run one process per case"""
    build_harness()
    n = max(1, min(nproc, len(cases) // 50 + 1))
    size = (len(cases) + n - 1) // n
    parts = [cases[i:i + size] for i in range(0, len(cases), size)]
    env = dict(os.environ, VERIF_OUT=OUT, VERIF_CHILD_MS="20000")

    def one(k):
        cp = os.path.join(ctx.dir, "svc.%d.cases.ndjson" % k)
        op = os.path.join(ctx.dir, "svc.%d.obs.ndjson" % k)
        with open(cp, "w") as f:
            for c in parts[k]:
                f.write(json.dumps(c) + "\n")
        p = subprocess.run([harness_bin(), "run", "services", cp, op], env=env, cwd=OUT, stdout=subprocess.PIPE, stderr=subprocess.PIPE, timeout=3000)
        mode = "run"
        if p.returncode != 0:
            mode = "child"
            p = subprocess.run([harness_bin(), "child", "services", cp, op], env=env, cwd=OUT, stdout=subprocess.PIPE, stderr=subprocess.PIPE, timeout=6000)
            if p.returncode != 0:
                raise ToolError("services harness failed in child mode: %s" % p.stderr[-500:])
        return op, mode

    with concurrent.futures.ThreadPoolExecutor(max_workers=n) as ex:
        res = list(ex.map(one, range(len(parts))))
    obs = os.path.join(ctx.dir, "services.obs.ndjson")
    by = {c["case"]: c for c in cases}
    with open(obs, "w") as out:
        for op, mode in res:
            for line in open(op):
                o = json.loads(line)
                if "req" not in o:      # synthesised by the child runner for a step that did not return
                    c = by[o["case"]]
                    o = {"case": o["case"], "i": o["i"], "req": c["steps"][o["i"] - 1] if o["i"] <= len(c["steps"]) else {"svc": "process"},
                         "kind": "none", "fail": o.get("fail", "abort"), "site": o.get("site", "abort"), "probe": False, "ticked": False}
                out.write(json.dumps(o) + "\n")
    ctx.notes["batches"] = [m for _, m in res]
    return obs


def run(ctx):
    q = ctx.quick
    r = run_tlc(ctx.sub("universe"), "GenServices", {}, spec="Spec", invariants=["DesignOK", "Emit"], workers=4, timeout=900)
    if r.error or r.violated:
        raise ToolError("TLC (universe): %s" % (r.error or r.violated))
    ctx.cov["tlc_runs"].append({"name": "universe", "generated": r.generated, "distinct": r.distinct, "wall_s": round(r.wall, 1)})
    ctx.cov["states"] += r.distinct
    ctx.cov["transitions"] += r.generated
    singles = parse_case_lines(r.printed)
    log("[tlc] request universe: %d requests" % len(singles))
    singles = take(singles, 4000 if q else 10 ** 9, ctx.seed)
    nseq = 300 if q else 4000
    r2 = run_tlc(ctx.sub("seq"), "GenServicesSeq", {"MaxLen": 4}, spec="SSpec", invariants=["Emit"], workers=4, timeout=900,
                 simulate="num=%d" % max(40, nseq // 4), seed=ctx.seed)
    seqs = take(parse_case_lines(r2.printed), nseq, ctx.seed)
    cases = singles + seqs
    if ctx.replay:
        cases = [json.load(open(ctx.replay))["case"]]
    for i, c in enumerate(cases):
        c["case"] = i + 1
    obs = run_batches(ctx, cases, 6 if q else 12)
    verdicts = ctx.judge("services", "TraceServices", obs, {})
    by = {c["case"]: c for c in cases}
    for v in verdicts:
        c = by.get(v["case"])
        ctx.add_violation("C33:%s" % v["clause"], "%s (request %s)" % (v["clause"], json.dumps(c["steps"][v["i"] - 1])[:300] if c else "?"),
                          c, engine="services")
    seen = set()
    for c in cases:
        seen.add(canon(c["steps"]))
    svcs = {s["svc"] for c in cases for s in c["steps"]}
    ctx.cov["evaluations"] += len(cases)
    ctx.cov["distinct_nontrivial"] += len(seen)
    ctx.cov["traces_validated_against_impl"] += len(cases)
    ctx.cov["exhaustive"] = not q
    ctx.cov["rule"] = ("requests of the universe of Services.tla (%d services x adversarial parameter classes, %d requests in total; quick: a "
                       "seeded sample) sent one per fresh activated session, plus TLC-simulated sequences of 4 requests on one session; "
                       "after every request two subscription timer ticks and a probe Read; distinct by request sequence; every case is "
                       "non-trivial (each request carries at least one adversarial parameter class or follows one)" % (len(svcs), r.distinct))
    ctx.notes["services_covered"] = sorted(svcs)
    for idx in (0, len(cases) // 2, len(cases) - 1):
        ctx.sample(cases[idx]["steps"])
    ctx.assumptions += ["requests are structurally valid messages built with the real request types; they reach the services through "
                        "MessageHandler::handle_message on an activated anonymous session allowed to modify the address space",
                        "sequences share one server process (state accumulates across cases by design)"]
    log("[services] %d cases, %d verdicts" % (len(cases), len(verdicts)))
