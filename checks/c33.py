"""C33 No well-formed request from an authenticated client crashes the server."""
import json, os, subprocess, concurrent.futures
from vlib import *
from checks.subs_common import take

LEVEL = "exploration"


CASE_MS = 8000          # a request that does not return within this time counts as a hang
MAX_CULPRITS = 25       # per batch: after that many cases that hang / abort the rest of the batch is not run


def run_batches(ctx, cases, nproc):
    """In-process batches in parallel (VERIF_CASE_MS watchdog inside the harness). When a batch process dies (stack
    overflow, abort) or is ended by the watchdog (hang), the case it was running is re-run on its own in child mode
    (which turns the step that did not return into a record) and the rest of the batch continues in a new process."""
    build_harness()
    n = max(1, min(nproc, len(cases) // 50 + 1))
    size = (len(cases) + n - 1) // n
    parts = [cases[i:i + size] for i in range(0, len(cases), size)]
    env = dict(os.environ, VERIF_OUT=OUT, VERIF_CHILD_MS=str(CASE_MS), VERIF_CASE_MS=str(CASE_MS))

    def write(path, cs):
        with open(path, "w") as f:
            for c in cs:
                f.write(json.dumps(c) + "\n")

    def one(k):
        remaining = parts[k]
        lines, culprits, rnd = [], 0, 0
        while remaining:
            rnd += 1
            cp = os.path.join(ctx.dir, "svc.%d.%d.cases.ndjson" % (k, rnd))
            op = os.path.join(ctx.dir, "svc.%d.%d.obs.ndjson" % (k, rnd))
            write(cp, remaining)
            p = subprocess.run([harness_bin(), "run", "services", cp, op], env=env, cwd=OUT, stdout=subprocess.PIPE, stderr=subprocess.PIPE,
                               timeout=3000)
            got = [l for l in open(op)] if os.path.exists(op) else []
            if p.returncode == 0:
                lines += got
                break
            done = set()
            for l in got:
                try:
                    done.add(json.loads(l)["case"])
                except Exception:
                    pass
            idx = next((i for i, c in enumerate(remaining) if c["case"] not in done), None)
            lines += [l for l in got if l.endswith("\n")]
            if idx is None:
                break
            culprits += 1
            cp1 = os.path.join(ctx.dir, "svc.%d.%d.culprit.cases.ndjson" % (k, rnd))
            op1 = os.path.join(ctx.dir, "svc.%d.%d.culprit.obs.ndjson" % (k, rnd))
            write(cp1, [remaining[idx]])
            p1 = subprocess.run([harness_bin(), "child", "services", cp1, op1], env=env, cwd=OUT, stdout=subprocess.PIPE, stderr=subprocess.PIPE,
                                timeout=600)
            if p1.returncode != 0:
                raise ToolError("services harness failed in child mode: %s" % p1.stderr[-500:])
            lines += [l for l in open(op1)]
            remaining = remaining[idx + 1:]
            if culprits >= MAX_CULPRITS and remaining:
                ctx.notes.setdefault("batches_cut_short", []).append({"batch": k, "cases_not_run": len(remaining)})
                break
        return lines, culprits

    with concurrent.futures.ThreadPoolExecutor(max_workers=n) as ex:
        res = list(ex.map(one, range(len(parts))))
    obs = os.path.join(ctx.dir, "services.obs.ndjson")
    by = {c["case"]: c for c in cases}
    with open(obs, "w") as out:
        for lines, _ in res:
            for line in lines:
                o = json.loads(line)
                if "req" not in o:      # synthesised by the child runner for a step that did not return
                    c = by[o["case"]]
                    o = {"case": o["case"], "i": o["i"], "req": c["steps"][o["i"] - 1] if o["i"] <= len(c["steps"]) else {"svc": "process"},
                         "kind": "none", "fail": o.get("fail", "abort"), "site": o.get("site", "abort"), "probe": False, "ticked": False}
                out.write(json.dumps(o) + "\n")
    ctx.notes["cases_that_hung_or_aborted"] = sum(c for _, c in res)
    return obs


def run(ctx):
    q = ctx.quick
    r = run_tlc(ctx.sub("universe"), "GenServices", {}, spec="Spec", invariants=["DesignOK", "Emit"], workers=4, timeout=900)
    if r.error or r.violated:
        raise ToolError("TLC (universe): %s" % (r.error or r.violated))
    ctx.cov["tlc_runs"].append({"name": "universe", "generated": r.generated, "distinct": r.distinct, "wall_s": round(r.wall, 1)})
    ctx.cov["states"] += r.distinct
    ctx.cov["transitions"] += r.generated
    singles = parse_case_lines(r.printed)
    log("[tlc] request universe: %d requests" % len(singles))
    singles = take(singles, 4000 if q else 10 ** 9, ctx.seed)
    # every behaviour of two likely-to-succeed requests on one session
    r3 = run_tlc(ctx.sub("pairs"), "GenServicesPairs", {}, spec="Spec", invariants=["Emit"], workers=4, timeout=900)
    if r3.error:
        raise ToolError("TLC (pairs): %s" % r3.error)
    ctx.cov["tlc_runs"].append({"name": "pairs", "generated": r3.generated, "distinct": r3.distinct, "wall_s": round(r3.wall, 1)})
    ctx.cov["states"] += r3.distinct
    pairs = parse_case_lines(r3.printed)
    log("[tlc] pairs of likely-to-succeed requests: %d" % len(pairs))
    nseq = 400 if q else 6000
    r2 = run_tlc(ctx.sub("seq"), "GenServicesSeq", {"MaxLen": 5}, spec="SSpec", invariants=["Emit"], workers=4, timeout=900,
                 simulate="num=%d" % max(40, nseq // 4), seed=ctx.seed)
    seqs = take(parse_case_lines(r2.printed), nseq, ctx.seed)
    cases = singles + pairs + seqs
    if ctx.replay:
        cases = [json.load(open(ctx.replay))["case"]]
    for i, c in enumerate(cases):
        c["case"] = i + 1
    obs = run_batches(ctx, cases, 6 if q else 12)
    verdicts = ctx.judge("services", "TraceServices", obs, {})
    by = {c["case"]: c for c in cases}
    for v in verdicts:
        c = by.get(v["case"])
        ctx.add_violation("C33:%s" % v["clause"], "%s (request %s)" % (v["clause"], json.dumps(c["steps"][v["i"] - 1])[:300] if c else "?"),
                          c, engine="services")
    seen = set()
    for c in cases:
        seen.add(canon(c["steps"]))
    svcs = {s["svc"] for c in cases for s in c["steps"]}
    ctx.cov["evaluations"] += len(cases)
    ctx.cov["distinct_nontrivial"] += len(seen)
    ctx.cov["traces_validated_against_impl"] += len(cases)
    ctx.cov["exhaustive"] = not q
    ctx.cov["rule"] = ("requests of the universe of Services.tla (%d services x adversarial parameter classes, %d requests in total; quick: a "
                       "seeded sample) sent one per fresh activated session, plus EVERY pair of likely-to-succeed requests (Live x Live of Services.tla) and "
                       "TLC-simulated sequences of 5 requests (3 of 4 drawn from Live) on one session; "
                       "after every request two subscription timer ticks and a probe Read; distinct by request sequence; every case is "
                       "non-trivial (each request carries at least one adversarial parameter class or follows one)" % (len(svcs), r.distinct))
    ctx.notes["services_covered"] = sorted(svcs)
    for idx in (0, len(cases) // 2, len(cases) - 1):
        ctx.sample(cases[idx]["steps"])
    ctx.assumptions += ["requests are structurally valid messages built with the real request types; they reach the services through "
                        "MessageHandler::handle_message on an activated anonymous session allowed to modify the address space",
                        "sequences share one server process (state accumulates across cases by design)"]
    log("[services] %d cases, %d verdicts" % (len(cases), len(verdicts)))
