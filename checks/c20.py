"""C20 Session activation authenticates the user exactly as configured."""
import json
from checks.session_common import *

LEVEL = "model_checking"


def run(ctx):
    q = ctx.quick
    rp = json.load(open(ctx.replay)).get("engine") if ctx.replay else None
    if rp in (None, "auth"):
        table(ctx, q)
    tnote = dict(ctx.notes.get("drift", {}))
    if rp in (None, "session"):
        histories(ctx, q)
    ctx.cov["rule"] = TABLE_RULE + "; " + HIST_RULE
    ctx.notes.setdefault("drift", {}).update(tnote)
    ctx.cov["exhaustive"] = rp is None
    ctx.assumptions += ASSUMPTIONS


ENV = dict(VERIF_PKI_TAG="c20")


def table(ctx, q):
    # the decision table (function-like)
    r = run_tlc(ctx.sub("mc_dev_table"), "MCAuthTable", dict(DevStaleNonce=True), spec="Spec", invariants=["DesignOK"], workers=2)
    if r.error or r.violated != "DesignOK":
        raise ToolError("deviation table no longer violates DesignOK: %s" % (r.error or r.violated))
    ctx.cov["tlc_runs"].append({"name": "dev_table_stale_nonce", "violated": r.violated, "wall_s": round(r.wall, 1)})
    env = dict(ENV, VERIF_SEED=ctx.seed)
    fn_pipeline(ctx, "C20", "auth", "GenAuthTable", "TraceAuthTable", consts=dict(DevStaleNonce=False), trace_consts=dict(DevStaleNonce=False),
                crate="h_session", env=env, limit=700 if q else None, name="table",
                expected=lambda c: c.get("exp"), observed=lambda o: o.get("r", {}).get("ok"),
                nontrivial=lambda c: c["c"]["kind"] in ("user", "x509"))


def histories(ctx, q):
    env = dict(ENV, VERIF_SEED=ctx.seed)
    # repeated activations that replay earlier tokens (histories)
    hist = consts(NConns=1, NSlots=1, Acts={"Create", "Activate", "Service"}, ActKinds={"anon", "user", "userenc", "x509"}, SvcKinds={"Write"},
                  ExtraToks=set(), MaxDepth=5 if q else 6)
    wide = dict(hist, NSlots=2, NConns=2, Acts=ALL_ACTS - {"Discovery"})
    ctx.model_check("replay_design", "MCSession", dict(wide, MaxDepth=5 if q else 7), ["C20"], view="MView")
    ctx.model_check("dev_stale_nonce", "MCSession", dict(hist, DevStaleNonce=True), ["C20"], view="MView", expect_violation="C20")
    # the model does not depend on the endpoint's security policy: every history runs on the policy None and on the
    # Basic256Sha256 endpoint
    both = lambda h, c, nm: to_cases(h, dict(c, Secure=False), nm + "_none") + to_cases(h, dict(c, Secure=True), nm + "_enc")
    gens = []
    c = dict(hist, MaxDepth=4 if q else 5)
    h, r = ctx.gen("replay", "GenSession", c)
    gens.append(both(take(h, 600 if q else 12000, ctx.seed), c, "replay"))
    c = dict(wide, MaxDepth=10)
    n = 200 if q else 3000
    h, r = ctx.gen("random", "GenSession", c, simulate="num=%d" % max(20, n // 50), workers=1)
    gens.append(both(take(h, n, ctx.seed), c, "random"))

    def nontrivial(c):
        # an activation with a token made for an earlier nonce
        gen = {}
        for s in c["steps"]:
            if s["ev"] == "Activate" and s["kind"] in ("userenc", "x509") and s["g"] < gen.get(s["tok"], 0):
                return True
            if s["ev"] == "Activate" and s.get("class") == "ok":
                gen[s["tok"]] = gen.get(s["tok"], 0) + 1
        return False

    pipeline(ctx, "C20", gens, nontrivial, "", env=env)


TABLE_RULE = ("table: TLC enumerates endpoint configuration {anonymous only, user/password only, x509 only, mixed, none} x {policy None, "
              "Basic256Sha256 SignAndEncrypt} x identity token {anonymous, user name, x509, issued, null, not a token, undecodable} x "
              "policy id right/wrong x user {configured, empty password, configured for another endpoint, unknown, an x509 user} x "
              "password right/wrong/empty x {plain, encrypted for the current nonce, for the earlier nonce, unknown algorithm, wrong "
              "padding, other valid algorithm} x certificate {configured, other endpoint, unconfigured} x signature {ok, corrupt, other "
              "key, over the earlier nonce, null}; each point = one real ActivateSession on a fresh session of the endpoint")
HIST_RULE = ("histories: every sequence of CreateSession / ActivateSession (anonymous, plain password, password encrypted for the nonce "
             "of any generation so far, x509 signature over the nonce of any generation so far; right and wrong credentials; replays are "
             "byte-identical) / a service, exhaustive to the depth bound, each on a policy None and a Basic256Sha256 endpoint, plus random "
             "simulation to depth 10 with two sessions, two connections, channel changes, close and time steps beyond the session timeout; non-trivial = (table) a user "
             "name or x509 token, (histories) an activation with a token made for an earlier nonce")
ASSUMPTIONS = ["ActivateSession requests are dispatched decoded through MessageHandler::handle_message (cfg-guarded hook) after a real "
               "HELLO/OpenSecureChannel on policy None; the Basic256Sha256 endpoint is selected by setting policy and mode of the "
               "server side secure channel, the client signature is made with the key of the client certificate of CreateSession",
               "openssl RSA (OAEP / PKCS#1 v1.5 encryption, RSA-SHA1 signatures) is the trusted primitive used to build the tokens",
               "the x509 user token signature is made under the security policy the endpoint description advertises for the token "
               "policy (Basic128Rsa15)",
               "cases of the table that the statement leaves open (null identity token on an anonymous endpoint, password encrypted "
               "with another valid algorithm) are not judged"]
