"""C39 Event filters evaluate safely and with the specified operator semantics."""
from vlib import *

LEVEL = "model_checking"


def run(ctx):
    q = ctx.quick
    # --replay: only the pipeline that produced the case (the LIKE bounds are recovered from the case)
    rp = json.load(open(ctx.replay)) if ctx.replay else None
    only = rp["engine"] if rp else None
    if only == "like":
        strs = rp["case"]["c"]["strs"]
        n = max(len(x) for x in strs)
        if "%" in strs:
            run_like_ext(ctx, {"LMaxP": max(n, len(rp["case"]["c"]["toks"])), "LMaxS": n})
        else:
            run_like(ctx, {"LMaxP": max(n, len(rp["case"]["c"]["toks"])), "LMaxS": n})
        return
    if only is None:
        run_like(ctx, {} if q else {"LMaxP": 5, "LMaxS": 5})
        if not q:
            run_like_ext(ctx, {"LMaxP": 3, "LMaxS": 3})
    run_ops(ctx)


LIKE_NT = lambda c: any(t in ("%", "_") or len(t) > 1 for t in c["c"]["toks"])


def run_like(ctx, like_consts):
    # ---- LIKE: patterns over {a, b, %, _}, all strings of the alphabet
    # the matcher of the pinned tree ("_" -> regex "?") must violate the property in the model as well
    ctx.model_check("like_dev_underscore", "MCLike", dict(like_consts, UseDev=True), ["DesignOK"], spec="Spec",
                    expect_violation="DesignOK", workers=2)
    fn_pipeline(ctx, "C39", "like", "GenLike", "TraceLike", consts=like_consts, trace_consts=like_consts,
                crate="h_num", name="like", key=lambda c: c["c"]["pat"],
                expected=lambda c: c["exp"]["matched"], observed=lambda o: o["r"]["direct"],
                nontrivial=LIKE_NT)


def run_like_ext(ctx, bounds):
    # ---- LIKE with lists and escapes; the strings may contain % and _
    ext = dict({"LTokens": {"a", "b", "%", "_", "[ab]", "[^a]", Tla('"\\\\%"'), Tla('"\\\\_"')},
                "LAlphabet": {"a", "b", "%", "_"}}, **bounds)
    fn_pipeline(ctx, "C39", "like", "GenLike", "TraceLike", consts=ext, trace_consts=ext,
                crate="h_num", name="like_ext", key=lambda c: c["c"]["pat"],
                expected=lambda c: c["exp"]["matched"], observed=lambda o: o["r"]["direct"], nontrivial=LIKE_NT)


def run_ops(ctx):
    q = ctx.quick
    # ---- operators: well formed clauses against the reference evaluator, malformed ones for termination
    ops_consts = {"Opnds": Tla("OpndsQuick")} if q else {"ChainDepths": {2, 3, 40, 1000}}
    cases, verdicts = fn_pipeline(
        ctx, "C39", "ops", "GenOps", "TraceOps", consts=ops_consts, trace_consts=ops_consts, crate="h_num", name="ops",
        key=lambda c: c["c"]["els"], expected=lambda c: None,
        nontrivial=lambda c: True,
        sig=lambda v, c: "C39:" + re.sub(r"\d+", "#", v["clause"]))
    # how the real results relate to the admitted sets (coverage, not a verdict)
    by = {c["case"]: c for c in cases}
    wf = mal = errs = 0
    for line in open(os.path.join(ctx.dir, "ops.obs.ndjson")):
        o = json.loads(line)
        c = by.get(o["case"])
        if o["r"]["fail"] == "setup":
            raise ToolError("harness could not build a clause: %s" % json.dumps(o)[:300])
        if c and c["c"]["wf"]:
            wf += 1
        else:
            mal += 1
            errs += o["r"].get("k") == "err"
    ctx.notes["clauses_well_formed"] = wf
    ctx.notes["clauses_malformed"] = mal
    ctx.notes["malformed_rejected_with_status"] = errs
    ctx.cov["rule"] = (
        "LIKE: TLC enumerates every pattern over the tokens {a, b, %%, _} up to length %d%s; each pattern is matched against "
        "every string over the alphabet up to length %d by the real like_to_regex+regex and by the real Like operator; the "
        "accepted set is compared with the compositional pattern language. Non-trivial pattern: has a wildcard, list or escape. "
        "Operators: TLC enumerates one-element clauses (every operator x every pair of the %s operands incl. NULL, Booleans, "
        "five numeric types with out-of-range values, strings, present/missing event fields; Between/InList over triples), "
        "nested clauses (And/Or/Not/Equals/IsNull over eight sub-elements, shared sub-elements, Not-chains up to depth %d) and "
        "malformed clauses accepted at creation (operand counts 0..4 for every operator, element index out of range, self "
        "reference, loops, attribute operands, undecodable operands, unsupported operators, empty clause); every clause runs "
        "through the real evaluate_where_clause; distinct by clause" % (
            4 if q else 5, "" if q else " plus lists [ab] [^a] and escapes up to length 3", 4 if q else 5,
            "reduced set of" if q else "18", 40 if q else 1000))
    ctx.assumptions += [
        "where Part 4 leaves a result open (NULL operand of a comparison/Between/InList/Like, ordering of Booleans or Strings, "
        "non-integer operands of bitwise operators, Cast) every admissible result is accepted",
        "a clause is well formed when every element reachable from the first has a supported operator, the exact operand count "
        "(InList >= 2), literal / simple attribute / in-range element operands and no loop; all other clauses are only required to "
        "terminate without panic",
        "validate_where_clause never rejects a filter (element errors are only reported), so every clause is 'accepted'",
        "regular expression semantics of '?' (optional item; optional start anchor un-anchors the match) are modelled in Like.tla "
        "(DevMatch) only to classify the known finding"]
