"""C42 JSON encoding of built-in types round-trips."""
import vlib
from vlib import *

LEVEL = "model_checking"

# The tree as it is: which departures from the reversible design (spec/JsonCodec.tla, `Design') are still in /repo.
# Only used for the expected JSON form (L1 drift) and for the model self-tests below; the verdict never looks at it.
TREE = {"arrays": "body", "xuri": "namespace", "xmlnull": "null", "optnull": "kept"}
# deviation model -> invariant that it must violate (shown with TLC on every run while the deviation is in the tree)
DEV_INV = {("arrays", "panic"): "DevArraysOK", ("xuri", "dropped"): "DevXUriOK", ("xmlnull", "reject"): "DevXmlNullOK",
           ("optnull", "none"): "DevOptNullOK"}

_run_tlc = vlib.run_tlc


def _capped(*a, **kw):
    # the value space is small: never more than 4 TLC workers (the machine is shared)
    kw["workers"] = min(int(kw.get("workers") or 4), 4)
    return _run_tlc(*a, **kw)


def run(ctx):
    vlib.run_tlc = _capped
    lvl = 1 if ctx.quick else 3
    consts = {"Lvl": lvl, "TreeDv": TREE}
    small = {"Lvl": 0, "TreeDv": TREE}
    # model self-tests: the Part 6 form of an ExpandedNodeId cannot carry a namespace uri AND a namespace index;
    # every departure still in the tree makes the specified round trip fail
    ctx.model_check("design_xuri_and_index", "MCJsonCodec", small, ["XUriIdxOK"], spec="Spec", expect_violation="XUriIdxOK", workers=2)
    for (k, v), inv in sorted(DEV_INV.items()):
        if TREE.get(k) == v:
            ctx.model_check("dev_%s_%s" % (k, v), "MCJsonCodec", small, [inv], spec="Spec", expect_violation=inv, workers=2)
    cases, verdicts = fn_pipeline(
        ctx, "C42", "json_rt", "GenJsonCodec", "TraceJsonCodec", consts=consts, invariants=("DesignOK",),
        crate="h_json", key=lambda c: c.get("c"),
        expected=lambda c: c["exp"]["json"], observed=lambda o: o["r"].get("json"),
        nontrivial=lambda c: c["c"]["w"]["t"] not in ("Empty", "Boolean"),
        sig=lambda v, c: "C42:%s" % v["clause"],
        rule="TLC enumerates abstract values of String / ByteString (null, empty, text with characters JSON must escape, control "
             "characters, non-ASCII incl. beyond the BMP; every base64 padding), Guid, DateTime (epoch, a millisecond value, a whole "
             "second, end of time), StatusCode (Good, Bad, with info bits), NodeId (four identifier kinds, namespace 0 / not 0), "
             "ExpandedNodeId (x namespace uri null / empty / set x server index), QualifiedName, LocalizedText (null / empty parts), "
             "ExtensionObject, DiagnosticInfo (every subset of the optional members, chains), DataValue (all 64 presence "
             "combinations of value / status / timestamps / picoseconds), Variant of every scalar type at boundary points (incl. "
             "NaN, infinities, -0.0, 64 bit extremes), arrays of every element type (0-4 elements, with and without dimensions, "
             "multi-dimensional), nesting Variant / DataValue / arrays to level %d. TLC checks Dec(Enc(v)) = v and null/empty "
             "written differently on the specified JSON form of each value; the real serde_json::to_string and from_str run on "
             "each value; the TLA+ predicate RtViol judges: no panic, serialised, deserialised, equal (re-abstracted values; NaN "
             "= NaN, -0.0 = 0.0), and names null/empty conflation. Distinct by value; non-trivial = not Empty / Boolean. Cases "
             "outside the property's quantifier (sub-millisecond DateTime, empty NodeId identifiers) are run and reported but "
             "not judged. Drift = the real document differs from the specified JSON form (not an alarm). NOT covered: leaf "
             "fidelity beyond the named points (full float / integer / DateTime ranges, arbitrary Unicode), the generated "
             "service structures." % lvl)
    out_of_scope = sum(1 for c in cases if _out_of_scope(c["c"]))
    # the real PartialEq is recorded next to the re-abstracted comparison: they may differ only where a NaN is inside
    bad = {v["case"] for v in verdicts}
    n_eq_false = 0
    with open(os.path.join(ctx.dir, "fn.obs.ndjson")) as f:
        for line in f:
            o = json.loads(line)
            if o["r"]["de"] == "ok" and not o["r"]["eq"] and o["case"] not in bad and not _out_of_scope(o["c"]):
                n_eq_false += 1
                if '"nan"' not in line:
                    raise ToolError("PartialEq says not equal, the re-abstracted values are equal, and there is no NaN: %s" % line[:400])
    ctx.notes["judged_equal_although_partialeq_false_because_of_nan"] = n_eq_false
    ctx.notes["cases_outside_quantifier_not_judged"] = out_of_scope
    ctx.notes["tree_deviations_modelled"] = {k: v for k, v in TREE.items()}
    ctx.assumptions += ["equality is judged on re-abstracted values: leaves that are not one of the named points come back as 'other' (never equal)",
                        "NaN is taken to equal NaN; -0.0 equals 0.0 (as PartialEq says)",
                        "numeric leaves are named points; DateTime only at epoch / 2021-03-04T05:06:07.089Z / 1999-12-31T23:59:59Z / 9999-12-31T23:59:59Z"]


def _out_of_scope(c):
    w = c["w"]
    if c["ty"] == "DateTime":
        return w["dt"] == "sub"
    if c["ty"] in ("NodeId", "ExpandedNodeId"):
        i = w["id"] if c["ty"] == "NodeId" else w["xid"]["id"]
        return i["k"] in ("str", "opq") and (i["s"]["nl"] or not i["s"]["b"])
    return False
