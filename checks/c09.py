"""C09 Secure-channel receive path is total on arbitrary peer bytes."""
from vlib import *
from checks.channel_common import *

LEVEL = "fault_enumeration"


def run(ctx):
    bits = {1024, 2048} if ctx.quick else {1024, 2048, 4096}
    chan_info(ctx, bits, main_bits={4096})     # the padding size family needs a receiver key above 2048 bits (two size bytes)
    if ctx.quick:
        pairs = {(1024, 1024), (1024, 2048), (2048, 2048)}
        nrand = 40
    else:
        pairs = {(1024, 1024), (1024, 2048), (2048, 1024), (2048, 2048), (2048, 4096), (4096, 2048), (4096, 4096)}
        nrand = 1000
    consts = {"KeyPairs": pairs, "PadKeyPairs": pairs | {(2048, 4096)}, "NRand": nrand}

    def sig(v, c):
        return "C09:%s" % v["clause"]

    cases, verdicts = fn_pipeline(
        ctx, "C09", "total", "GenTotality", "TraceTotality", consts=consts, trace_consts=consts, crate=CRATE, sig=sig,
        key=lambda c: c.get("c"), expected=lambda c: c["exp"]["class"],
        observed=lambda o: (o.get("r") or {}).get("class"),
        nontrivial=lambda c: c["c"]["shape"] != "valid",
        rule="TLC enumerates malformed-shape class (truncated message / security header, declared size larger / smaller than the "
             "chunk, unknown / null policy uri, null / empty / garbage / truncated sender certificate, null / 19-byte / 21-byte / "
             "foreign receiver thumbprint, cipher text one byte longer / shorter / absent, plain text or message shorter than its "
             "signature, padding size larger than the message, inconsistent padding bytes, the padding size boundary family (size 0, 1, the "
             "ordinary one, end-2, end-1, end, end+1, 255 / 65535 relative to the number of bytes in front of the signature, for one and "
             "two size bytes = receiver keys up to and above 2048 bits, tiny and ordinary chunks, each correctly signed and encrypted "
             "over the hand-built plain text), foreign signature / MAC, other token "
             "id, symmetric chunk before keys exist, OPN on a channel without certificate / private key, and the valid chunk) x "
             "chunk kind OPN / MSG / CLO x receiving role x policy x mode x key sizes, checks that the specified receiver is a total "
             "decision into {chunk, error} with the named classes security errors; the harness builds each shape from the parts "
             "of a valid chunk with the real crypto and feeds it, and NRand seeded random byte mutations / truncations / extensions "
             "of it, to verify_and_remove_security under catch_unwind; distinct by case; non-trivial = not the valid chunk")
    obs = os.path.join(ctx.dir, "fn.obs.ndjson")
    tot = {"n": 0, "chunk": 0, "error": 0, "panic": 0}
    codes = {}
    aborted = 0
    with open(obs) as f:
        for line in f:
            o = json.loads(line)
            r = o["r"]
            if r.get("fail") in ("abort", "timeout"):
                aborted += 1
            for k in tot:
                tot[k] += (r.get("rand") or {}).get(k, 0)
            if r.get("code"):
                codes[r["code"]] = codes.get(r["code"], 0) + 1
    ctx.notes["random_mutants"] = tot
    ctx.notes["result_codes_of_the_shapes"] = codes
    ctx.notes["process_aborts"] = aborted
    ctx.cov["evaluations"] = len(cases) + tot["n"]
    ctx.cov["exhaustive"] = False      # the shape classes are enumerated completely, the byte mutations around them are sampled
    ctx.assumptions += ["'security error' = a status code of the security group (BadSecurityChecksFailed, BadCertificateInvalid, "
                        "BadSecurityPolicyRejected, BadNoValidCertificates, ... listed in Totality.tla SecurityCodes)",
                        "the peer may hold valid keys (an authenticated but malicious peer): shapes with bogus padding carry a "
                        "valid MAC / signature so that the padding check is reached",
                        "panics are caught with catch_unwind in-process (no abort, stack overflow or hang was observed on this "
                        "path; the harness has a child mode for that)",
                        "which shapes must be SECURITY errors is taken from the statement; for the other shapes any error or a "
                        "chunk is accepted, only a panic is a violation"]
