"""C22 Keep-alives keep flowing and idle subscriptions expire on time."""
from checks.subs_common import *

LEVEL = "model_checking"


def supply_scripts(kas, extras, ens, rounds_factor):
    out = []
    for ka in kas:
        for x in extras:
            lt = 3 * ka + x
            for en in ens:
                cs = ["CreateSub", 1, ka, lt, en, 0, 1]
                n = rounds_factor * (lt + 2)
                # always: a request is queued before every timer tick
                out.append([cs] + [st for _ in range(n) for st in (["Pub"], ["Tick", 1])])
                # two requests up front then always one more per tick
                out.append([cs, ["Pub"]] + [st for _ in range(n) for st in (["Pub"], ["Tick", 1])])
                # never
                out.append([cs] + [["Tick", 1] for _ in range(lt + 4)] + [["Pub"], ["Tick", 1], ["Tick", 1]])
                # never, after some served intervals
                out.append([cs] + [st for _ in range(ka + 2) for st in (["Pub"], ["Tick", 1])]
                           + [["Tick", 1] for _ in range(lt + 3)] + [["Pub"], ["Tick", 1]])
                # intermittent: a request every g-th interval, g < lt - 1
                for g in range(2, max(3, lt - 1)):
                    out.append([cs] + [st for k in range(n) for st in ((["Pub"], ["Tick", 1]) if k % g == 0 else (["Tick", 1],))])
                # timer finer than the publishing interval (half steps are expressed with itv = 2)
                cs2 = ["CreateSub", 1, ka, lt, en, 0, 2]
                out.append([cs2] + [st for _ in range(2 * n) for st in (["Pub"], ["Tick", 1])])
                out.append([cs2] + [["Tick", 1] for _ in range(2 * lt + 6)])
    return out


def run(ctx):
    q = ctx.quick
    kas = {1, 2} if q else {1, 2, 3}
    extras = {0, 1} if q else {0, 1, 2}
    depth = 14 if q else 18
    mc = consts(Acts={"CreateSub", "Pub", "Tick"}, KAs=kas, LtExtra=extras, Ens={True, False}, MaxDepth=depth,
                Mons={"C22"})
    ctx.model_check("design", "MCSubs", mc, ["C22"], view="MView")
    # the departures of the pinned tree that the fix: commits removed must still be counterexamples of the model
    ctx.model_check("dev_row15", "MCSubs", dict(mc, DevKeepAlive15=True, MaxDepth=10), ["C22"], view="MView",
                    expect_violation="C22")
    ctx.model_check("dev_ltreset", "MCSubs", dict(mc, DevNoLtReset=True, MaxDepth=10), ["C22"], view="MView",
                    expect_violation="C22")
    # ModifySubscription changes interval and counts in mid-flight (both counters restart)
    mcm = consts(Acts={"CreateSub", "Pub", "Tick", "ModifySub"}, KAs={1, 2}, LtExtra={0, 1}, Itvs={1, 2}, Ens={True}, Dts={1},
                 MaxDepth=9 if q else 11, Mons={"C22"})
    ctx.model_check("design_modify", "MCSubs", mcm, ["C22"], view="MView")
    gens = []
    # (1) every interleaving of publish requests and timer ticks up to a small depth
    g1 = consts(Acts={"CreateSub", "Pub", "Tick"}, KAs={1, 2}, LtExtra={0}, Ens={True, False}, MaxDepth=8 if q else 11)
    h, r = ctx.gen("interleavings", "GenSubs", g1)
    gens.append(("interleavings", to_cases(take(h, 1500 if q else 100000, ctx.seed))))
    # (2) long scripted supply patterns: always / never / intermittent, enabled and disabled
    sc = supply_scripts(sorted(kas), sorted(extras), [True, False], 2)
    g2 = consts(Scripts=scripts(sc), MaxDepth=400)
    h, r = ctx.gen("supply", "GenSubs", g2)
    gens.append(("supply", to_cases(h)))
    # (2b) interleavings with ModifySubscription
    g2b = consts(Acts={"Pub", "Tick", "ModifySub"}, Scripts=scripts([[["CreateSub", 1, 2, 6, True, 0, 1]], [["CreateSub", 1, 1, 3, True, 0, 2]]]),
                 KAs={1, 2}, LtExtra={0}, Itvs={1, 2}, MaxDepth=7 if q else 9)
    h, r = ctx.gen("modify", "GenSubs", g2b)
    gens.append(("modify", to_cases(take(h, 1200 if q else 40000, ctx.seed), start=500000)))
    # (3) random long behaviours (simulation)
    n = 300 if q else 4000
    g3 = consts(Acts={"CreateSub", "Pub", "Tick", "ModifySub"}, KAs=kas, LtExtra=extras, Itvs={1, 2}, Ens={True, False}, Dts={0, 1, 2}, MaxDepth=40)
    h, r = ctx.gen("random", "GenSubs", g3, simulate="num=%d" % n)
    gens.append(("random", to_cases(take(h, n, ctx.seed))))
    ctx.cov["exhaustive"] = True

    def nontrivial(c):
        ticks = sum(1 for s in c["steps"] if s["ev"] == "Tick")
        return ticks >= 3

    pipeline(ctx, "C22", gens, trace_consts(mc), nontrivial,
             "behaviours of Subscription.tla (all Pub/Tick interleavings to a depth bound, scripted always/never/"
             "intermittent publish-request supply for every KA x lifetime x enabled, random simulation) replayed on the "
             "real server connection; non-trivial = at least 3 timer ticks; distinct by call sequence")
    ctx.assumptions += ["clock is the explicit `now` passed to the subscription tick (hook verif_tick / verif_publish_at)",
                        "TLC bounds: KA in %s, lifetime = 3KA+%s" % (sorted(kas), sorted(extras))]
