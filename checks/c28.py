"""C28 The reference index always matches the set of references."""
from checks.aspace_common import *

LEVEL = "model_checking"


def run(ctx):
    q = ctx.quick
    c = consts(Acts={"Ins", "Del", "DelNode"}, MaxDepth=4 if q else 5, Types={"HC", "OR"} if q else {"HC", "HP", "OR"})
    mc = dict(c, Mons={"C28"}, MaxDepth=5 if q else 6, Types={"HC", "OR"})
    ctx.model_check("design", "MCAspace", mc, ["C28"], view="MView")
    ctx.model_check("dev_delete_reverse", "MCAspace", dict(mc, DevDeleteReverse=True), ["C28"], view="MView",
                    expect_violation="C28")
    h, r = ctx.gen("sequences", "GenAspace", c)
    gens = [("sequences", take(h, 2000 if q else 60000, ctx.seed))]
    n = 300 if q else 4000
    h, r = ctx.gen("random", "GenAspace", dict(c, MaxDepth=14, Nodes={1, 2, 3, 4}), simulate="num=%d" % max(20, n // 8))
    ctx.cov["exhaustive"] = True

    def nontrivial(x):
        pairs = {(s["a"], s["b"]) for s in x["steps"] if s["ev"] == "Ins"}
        opposite = any((b, a) in pairs for a, b in pairs)
        return opposite and any(s["ev"] in ("Del", "DelNode") for s in x["steps"])

    pipeline(ctx, "C28", gens, c, nontrivial,
             "every sequence of insert_reference / delete_reference / delete(node) over 3 nodes x reference types up to the depth "
             "bound (exhaustive), replayed on a real AddressSpace; after every call find_references, find_inverse_references "
             "(unfiltered, Aggregates+subtypes, HasComponent exact) and has_reference are queried for the whole universe; "
             "non-trivial = a pair of references in opposite directions and at least one deletion")
    g4 = ("random", take(h, n, ctx.seed))
    c4 = dict(c, Nodes={1, 2, 3, 4})
    ctx.dir = ctx.sub("four")
    pipeline(ctx, "C28", [g4], c4, nontrivial, ctx.cov["rule"] + "; plus simulated sequences of 14 calls over 4 nodes")
