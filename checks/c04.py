"""C04 Textual identifiers parse back to the value they were printed from."""
from checks.text_common import *

LEVEL = "model_checking"


def run(ctx):
    run_text(ctx, "C04", "text04",
             rule="TLC enumerates NodeIds (namespace 0/1/9/10/65535 x numeric 0..2^32-1 points, strings incl. ';' '=' blank, "
                  "line feed, 2/3/4-byte characters, GUIDs, byte strings), ExpandedNodeIds (x server index 0/1/2^32-1, x no URI / "
                  "5 URIs incl. '%' ';' '%3b'), GUIDs, NumericRanges (none, index, range, 2 (thorough 3) and 10 dimensions "
                  "over 0/1/9/10/2^32-1), DateTimes (6 dates x 3 times x 7 sub-second tick values, both string forms); each "
                  "value is printed and re-parsed by the real code and TLC compares the re-abstracted value with the original. "
                  "No-panic half: every string of length <= 4 (thorough 5) over {n s u v r = ; i g b 1 U+20AC} (thorough also over "
                  "{0 1 9 : , - T Z . +}) and every one-character replacement / insertion / deletion in 9 printed texts goes "
                  "through NodeId, ExpandedNodeId, Identifier, Guid, NumericRange, DateTime::from_str and "
                  "DateTime::parse_from_rfc3339 under catch_unwind; distinct by input")
    ctx.assumptions += [
        "an ExpandedNodeId with a namespace URI has namespace index 0 (Part 4 7.11: the index is ignored when the URI is given)",
        "NumericRange values have at most 10 dimensions (implementation limit MAX_INDICES) and a multi-dimensional range has >= 2",
        "in-range DateTime = 1601-01-01T00:00:00 .. 9999-12-31T23:59:59; to_rfc3339/parse_from_rfc3339 is compared at "
        "millisecond precision (what it prints), Display/FromStr at full 100 ns precision"]
