"""C21 Publish responses pair with requests and deliver every data change once."""
from checks.subs_common import *

LEVEL = "model_checking"


def run(ctx):
    q = ctx.quick
    s1 = [["CreateSub", 1, 2, 6, True, 0, 1], ["CreateItem", 1, 1, 1, 4, True, "Reporting", -1]]
    s2 = [["CreateSub", 1, 1, 3, True, 3, 1], ["CreateSub", 2, 2, 7, True, 1, 2],
          ["CreateItem", 1, 1, 1, 4, True, "Reporting", -1], ["CreateItem", 2, 1, 2, 4, True, "Reporting", -1],
          ["CreateItem", 2, 2, 1, 4, False, "Reporting", -1]]
    one = consts(SubIds={1}, ItemIds={1}, Nodes={1}, Vals={0, 1, 2}, Acts={"Write", "Pub", "Tick"}, Scripts=scripts([s1]),
                 MaxWrites=4, MaxPubs=4, MaxTicks=6, Dts={1}, AckModes={"none", "all"}, MaxDepth=2 + (9 if q else 11))
    two = consts(SubIds={1, 2}, ItemIds={1, 2}, Nodes={1, 2}, Vals={0, 1}, Acts={"Write", "Pub", "Tick", "DeleteItem", "DeleteSub", "SetPubMode", "SetMode"},
                 Scripts=scripts([s2]), MaxWrites=3, MaxPubs=4, MaxTicks=5, Dts={1, 2}, AckModes={"none"},
                 MaxDepth=5 + (6 if q else 7))
    ctx.model_check("design_one", "MCSubs", dict(one, Mons={"C21"}), ["C21"], view="MView")
    ctx.model_check("design_two", "MCSubs", dict(two, Mons={"C21"}), ["C21"], view="MView", timeout=3000)
    ctx.model_check("dev_drop", "MCSubs", dict(one, Mons={"C21"}, DevDropOnNone=True), ["C21"], view="MView",
                    expect_violation="C21")
    gens = []
    h, r = ctx.gen("one_sub", "GenSubs", dict(one, MaxDepth=2 + (7 if q else 9)))
    gens.append(("one_sub", to_cases(take(h, 2500 if q else 15000, ctx.seed))))
    h, r = ctx.gen("two_subs", "GenSubs", dict(two, MaxDepth=5 + (4 if q else 5)))
    gens.append(("two_subs", to_cases(take(h, 1500 if q else 15000, ctx.seed))))
    n = 300 if q else 4000
    for nm, cfg in (("random_one", dict(one, MaxDepth=40, MaxWrites=14, MaxPubs=16, MaxTicks=20, Dts={0, 1, 2})),
                    ("random_two", dict(two, MaxDepth=40, MaxWrites=12, MaxPubs=16, MaxTicks=20))):
        h, r = ctx.gen(nm, "GenSubs", cfg, simulate="num=%d" % max(20, n // 8))
        gens.append((nm, to_cases(take(h, n, ctx.seed))))
    ctx.cov["exhaustive"] = True

    def nontrivial(c):
        data = any(o.get("k") == "DATA" for s in c["steps"] for o in (s.get("pre", []) + s.get("out", [])))
        late = any(s["ev"] == "Tick" and not s["st"]["reqs"] and not s.get("out") for s in c["steps"])
        return data and late

    pipeline(ctx, "C21", gens, trace_consts(two), nontrivial,
             "all interleavings of Write/Pub/Tick (+ item/subscription deletion, publishing mode) after a fixed setup, exhaustive "
             "to a depth bound, plus random simulation to depth 40, replayed on the real server; non-trivial = at least one data "
             "notification delivered and one timer tick with no publish request queued")
