"""C31 Browse path translation finds exactly the matching nodes."""
from checks.aspace_common import *
import itertools

LEVEL = "model_checking"


def paths(q):
    els = []
    for t in ("HC", "OR", "AG", "HI", "NULL"):
        for inv in (False, True):
            for sub in (False, True):
                for name in ("a", "b"):
                    els.append({"t": t, "inv": inv, "sub": sub, "name": name})
    one = [[e] for e in els]
    two = [[a, b] for a in els[::3] for b in els[1::5]]
    three = [[a, b, c] for a in els[::7] for b in els[2::9] for c in els[3::11]]
    return one + two + (three if not q else three[:10])


def run(ctx):
    q = ctx.quick
    ps = paths(q)
    P = Tla("{" + ", ".join(tla_value(p) for p in ps) + "}")
    # graphs: all insertion sequences of length k, then one translate
    k = 2 if q else 3
    c = consts(Acts={"Ins", "Translate"}, MaxDepth=k + 1, Paths=P, Types={"HC", "OR"}, TranslateLast=True)
    mc = dict(c, Mons={"C31"}, MaxDepth=k + 2)
    # build every graph with k insertions, then translate every path from every node
    ctx.model_check("design", "MCAspace", mc, ["C31"], view="MView")
    if not q:
        import random
        c = dict(c, Paths=Tla("{" + ", ".join(tla_value(p) for p in random.Random(ctx.seed).sample(ps, 45)) + "}"))
    h, r = ctx.gen("graphs", "GenAspace", c, timeout=1500)
    gens = [("graphs", take(h, 8000 if q else 150000, ctx.seed))]
    ctx.cov["exhaustive"] = True

    def nontrivial(x):
        return x["steps"][-1]["ev"] == "Translate" and len(x["steps"][-1].get("res", [])) > 0

    pipeline(ctx, "C31", gens, c, nontrivial,
             "every graph built by k insertions over 3 named nodes (names a/b) x every start node x %d relative paths (1-3 elements: "
             "type HasComponent / Organizes / Aggregates / HierarchicalReferences / null, inverse, subtypes, target name) through the "
             "real find_nodes_relative_path; result judged as a set; non-trivial = a non-empty result" % len(ps), mode="run")
