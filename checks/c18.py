"""C18 Certificate trust verdicts follow the configured trust store."""
from vlib import *

LEVEL = "model_checking"


def strip(r):
    if not isinstance(r, dict):
        return r
    r = dict(r)
    r["steps"] = [{k: v for k, v in s.items() if k != "extra"} for s in r.get("steps", [])]
    return r


def run(ctx):
    if ctx.quick:
        combos = [("Basic256Sha256", 2048), ("Basic128Rsa15", 1024), ("Basic256Sha256", 1024)]
        hist = "small"
    else:
        combos = [(p, b) for p in ("Basic128Rsa15", "Basic256", "Basic256Sha256", "Aes128Sha256RsaOaep", "Aes256Sha256RsaPss")
                  for b in (1024, 2048, 4096)]
        hist = "full"
    consts = {"KeyCombos": Tla("{" + ", ".join('<<"%s", %d>>' % c for c in combos) + "}"), "Histories": hist}
    cases, verdicts = fn_pipeline(
        ctx, "C18", "certtrust", "GenCertTrust", "TraceCertTrust", consts=consts, trace_consts=consts, crate="h_crypto",
        key=lambda c: c.get("c"), expected=lambda c: strip(c["exp"]), observed=lambda o: strip(o.get("r")),
        nontrivial=lambda c: True,
        rule="TLC enumerates every single validation: content of the trusted and of the rejected directory for the "
             "certificate (absent / byte-identical copy / other bytes under the same name) x trust-unknown x skip-verify x "
             "check-time x (policy, key size) x validity (valid, expired, not yet valid) x expected host name and application "
             "URI (matching, not matching, not requested), and two-step histories of validations of the same certificate "
             "on the evolving store; the specified Validate is checked against the property; every case runs on a real "
             "CertificateStore in a scratch directory and status and directory contents are read back; distinct by case")
    obs = os.path.join(ctx.dir, "fn.obs.ndjson")
    extra = 0
    accepted = 0
    nsteps = 0
    with open(obs) as f:
        for line in f:
            o = json.loads(line)
            r = o["r"]
            if r["fail"] == "none" and len(r["steps"]) != len(o["c"]["steps"]):
                raise ToolError("history not executed: %s" % json.dumps(o["c"]))
            for s in r["steps"]:
                nsteps += 1
                extra += s.get("extra", 0)
                accepted += 1 if s["status"] == "Good" else 0
    ctx.notes["validations"] = nsteps
    ctx.notes["accepted"] = accepted
    ctx.notes["files_under_other_names"] = extra
    ctx.assumptions += ["certificates are minted with fixed validity periods (2000..2099, 2000..2001, 2098..2099); the code "
                        "under test compares them with the wall clock, assumed to lie between 2002 and 2097",
                        "'in the rejected store' is read as a byte-identical copy; a file of that name with other bytes makes "
                        "the specified function reject too (drift is measured), but is no verdict",
                        "the property is one-directional (accepted only if ...): rejecting more is never a violation"]
