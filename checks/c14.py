"""C14 Security token renewal never breaks a healthy channel."""
import json
from vlib import *
from checks.subs_common import take

LEVEL = "model_checking"


def strip(s):
    return {k: s[k] for k in ("ev", "side", "k", "id", "tok")}


def run(ctx):
    q = ctx.quick
    if ctx.replay and any(s.get("ev") in ("Call", "TokenDue") for s in json.load(open(ctx.replay))["case"]["steps"]):
        return run_callers(ctx)
    c = dict(MaxMsgs=2 if q else 3, MaxRenews=1, DevSingleKeySlot=False, AllowForged=True, MaxDepth=12 if q else 16)
    # the corrected design (previous token kept, new token used for sending only once it was seen) satisfies the property
    ctx.model_check("design", "MCRenew", dict(c, MaxMsgs=3, MaxDepth=16), ["C14"], view="MView")
    if not q:
        ctx.model_check("design_two_renewals", "MCRenew", dict(c, MaxMsgs=3, MaxRenews=2, MaxDepth=20), ["C14"], view="MView")
    # the pinned tree: one key slot per side, server sends with the new token at once, client switches in the caller task
    pinned = dict(c, DevSingleKeySlot=True)
    ctx.model_check("dev_single_key_slot", "MCRenew", pinned, ["C14"], view="MView", expect_violation="C14")
    # behaviours of the pinned-tree model (that is what the real objects can follow step by step)
    h, r = ctx.gen("interleavings", "GenRenew", dict(pinned, AllowForged=False, MaxDepth=9 if q else 11))
    hs = take(h, 2500 if q else 40000, ctx.seed)
    n = 200 if q else 3000
    h2, r = ctx.gen("random", "GenRenew", dict(pinned, MaxMsgs=4, MaxRenews=2, MaxDepth=22), simulate="num=%d" % max(20, n // 8))
    hs += take(h2, n, ctx.seed)
    ctx.cov["exhaustive"] = True
    cases = [{"case": i + 1, "steps": x} for i, x in enumerate(hs)]
    if ctx.replay:
        cases = [json.load(open(ctx.replay))["case"]]
        cases[0]["case"] = 1
    cpath = ctx.write_cases("renew", cases)
    obs = ctx.run("renew", cpath)
    verdicts = ctx.judge("renew", "TraceRenew", obs, {})
    by = {x["case"]: x for x in cases}
    exp = {(x["case"], i + 1): s for x in cases for i, s in enumerate(x["steps"])}
    nsteps, drift, bad, harness_fail = 0, [], set(), 0
    for line in open(obs):
        o = json.loads(line)
        e = exp.get((o["case"], o["i"]))
        if o.get("fail") == "harness" or o.get("fail") == "setup":
            harness_fail += 1
        if e is None or o["case"] in bad:
            continue
        nsteps += 1
        if canon(e["acc"]) != canon(o.get("acc")) or o.get("fail") != "none":
            bad.add(o["case"])
            drift.append({"case": o["case"], "i": o["i"], "steps": [strip(s) for s in by[o["case"]]["steps"]][:o["i"]],
                          "expected_acc": e["acc"], "observed": {k: o.get(k) for k in ("acc", "fail", "site")}})
    # A violation counts as the known single-key-slot finding only in a case that the pinned-tree model explains step by
    # step; the same clause in a case that departs from that model is a different violation.
    for v in verdicts:
        x = by.get(v["case"])
        sig = "C14:%s" % v["clause"] + ("" if v["case"] not in bad else ":not-explained-by-single-key-slot-model")
        ctx.add_violation(sig, "%s at step %s of case %s" % (v["clause"], v["i"], v["case"]),
                          dict(x, steps=[strip(s) for s in x["steps"]]) if x else None, engine="renew")
    if harness_fail:
        raise ToolError("the harness could not perform %d steps (see %s)" % (harness_fail, obs))
    seen, nt = set(), 0
    for x in cases:
        k = canon([strip(s) for s in x["steps"]])
        if k not in seen:
            seen.add(k)
            evs = [s["ev"] for s in x["steps"]]
            nt += 1 if "BeginRenew" in evs and sum(1 for s in x["steps"] if s["ev"] == "Deliver" and s["k"] == "MSG") >= 2 else 0
    ctx.cov["evaluations"] += len(cases)
    ctx.cov["distinct_nontrivial"] += nt
    ctx.cov["traces_validated_against_impl"] += len(cases)
    ctx.cov["rule"] = ("all interleavings of the five tasks (client caller: send / begin renew / end renew; client transport: receive; "
                       "server reader: receive; server writer: secure at write time) up to the depth bound plus simulation with 2 renewals, "
                       "replayed on a real server TcpTransport + MessageWriter and a real client SecureChannel + SecureChannelState under "
                       "Basic256Sha256 SignAndEncrypt with FIFO queues in the harness; non-trivial = a renewal and at least two delivered MSG chunks")
    ctx.notes["steps_replayed"] = nsteps
    ctx.notes["drift"] = {"cases_differing_from_pinned_tree_model": len(drift), "first": drift[:3]}
    for idx in (0, len(cases) // 2, len(cases) - 1):
        ctx.sample([strip(s) for s in cases[idx]["steps"]])
    log("[renew] %d cases, %d steps, %d verdicts, %d drifting" % (len(cases), nsteps, len(verdicts), len(drift)))
    run_callers(ctx)


def run_callers(ctx):
    """The client side driven through the real AsyncSecureChannel::send by several concurrent caller tasks (RenewSend.tla)."""
    q = ctx.quick
    c = dict(MaxMsgs=3, MaxRenews=1, DevSingleKeySlot=False, AllowForged=False, Callers={1, 2}, DevBeginOutsideLock=False, MaxDepth=20)
    ctx.model_check("send_design", "MCRenewSend", c, ["C14"], view="MView", spec="MSpec")
    if not q:
        ctx.model_check("send_design_three_callers", "MCRenewSend", dict(c, Callers={1, 2, 3}, MaxRenews=2, MaxDepth=24), ["C14"], view="MView",
                        spec="MSpec", timeout=2400)
    ctx.model_check("send_dev_begin_outside_lock", "MCRenewSend", dict(c, DevBeginOutsideLock=True), ["C14"], view="MView", spec="MSpec",
                    expect_violation="C14")
    pinned = dict(c, DevSingleKeySlot=True)
    ctx.model_check("send_dev_single_key_slot", "MCRenewSend", pinned, ["C14"], view="MView", spec="MSpec", expect_violation="C14")
    h, r = ctx.gen("callers", "GenRenewSend", dict(pinned, MaxMsgs=2, MaxDepth=14 if q else 16), timeout=1500)
    hs = take(h, 1500 if q else 30000, ctx.seed)
    n = 150 if q else 3000
    h2, r = ctx.gen("callers_random", "GenRenewSend", dict(pinned, Callers={1, 2, 3}, MaxMsgs=5, MaxRenews=2, MaxDepth=40),
                    simulate="num=%d" % max(20, n // 4))
    hs += take(h2, n, ctx.seed)
    cases = [{"case": i + 1, "steps": x} for i, x in enumerate(hs)]
    if ctx.replay:
        rc = json.load(open(ctx.replay))["case"]
        if not any(s.get("ev") in ("Call", "TokenDue") for s in rc["steps"]):
            return
        cases = [dict(rc, case=1)]
    cpath = ctx.write_cases("renewsend", cases)
    raw = ctx.run("renewsend", cpath)
    # records of steps the harness could not perform (the real objects are not where the model is) are not observations
    obs = raw.replace(".obs.ndjson", ".judged.obs.ndjson")
    stuck = {}
    with open(obs, "w") as f:
        for line in open(raw):
            o = json.loads(line)
            if "harness" in o:
                stuck[o["case"]] = (o["i"], o["harness"])
            else:
                f.write(line)
    verdicts = ctx.judge("renewsend", "TraceRenew", obs, {})
    by = {x["case"]: x for x in cases}
    exp = {(x["case"], i + 1): s for x in cases for i, s in enumerate(x["steps"])}
    nsteps, drift, bad = 0, [], set()
    for line in open(obs):
        o = json.loads(line)
        e = exp.get((o["case"], o["i"]))
        if o.get("fail") == "setup":
            raise ToolError("renewsend setup failed: %s" % o.get("site"))
        if e is None or o["case"] in bad:
            continue
        nsteps += 1
        did_ok = o["ev"] not in ("Call", "Resume") or o.get("did") == e["k"]
        if canon(e["acc"]) != canon(o.get("acc")) or o.get("fail") != "none" or not did_ok:
            bad.add(o["case"])
            drift.append({"case": o["case"], "i": o["i"], "steps": [strip(s) for s in by[o["case"]]["steps"]][:o["i"]],
                          "expected": {"acc": e["acc"], "did": e["k"]}, "observed": {k: o.get(k) for k in ("acc", "did", "fail", "site")}})
    unexplained = [c_ for c_ in stuck if c_ not in bad]
    if unexplained:
        raise ToolError("the harness could not perform a step of %d cases that followed the model so far, e.g. case %s step %s: %s"
                        % (len(unexplained), unexplained[0], stuck[unexplained[0]][0], stuck[unexplained[0]][1]))
    for v in verdicts:
        x = by.get(v["case"])
        sig = "C14:%s" % v["clause"] + ("" if v["case"] not in bad else ":not-explained-by-single-key-slot-model")
        ctx.add_violation(sig, "%s at step %s of case %s (callers)" % (v["clause"], v["i"], v["case"]),
                          dict(x, steps=x["steps"]) if x else None, engine="renewsend")
    seen, nt = set(), 0
    for x in cases:
        k = canon([strip(s) for s in x["steps"]])
        if k not in seen:
            seen.add(k)
            st = x["steps"]
            nt += 1 if any(s["ev"] == "Call" and s["k"] == "wait" for s in st) or sum(1 for s in st if s["ev"] == "Call") >= 2 else 0
    ctx.cov["evaluations"] += len(cases)
    ctx.cov["distinct_nontrivial"] += nt
    ctx.cov["traces_validated_against_impl"] += len(cases)
    ctx.cov["rule"] += ("; callers: every behaviour of RenewSend.tla (2 caller tasks running the real AsyncSecureChannel::send, one poll per "
                        "action: token due / lock taken or waited for / renew begun / response handed over; client transport task and server "
                        "tasks as above) up to the depth bound plus simulation with 3 callers and 2 renewals, replayed on a real client "
                        "Session whose futures the harness polls; non-trivial = two calls or a caller that waits for the lock")
    ctx.notes["callers_steps_replayed"] = nsteps
    ctx.notes["callers_drift"] = {"cases_differing_from_pinned_tree_model": len(drift), "first": drift[:3]}
    log("[renewsend] %d cases, %d steps, %d verdicts, %d drifting" % (len(cases), nsteps, len(verdicts), len(drift)))
