"""Exact (Fraction) arithmetic for the named points of spec/NumLine.tla.

The point NAME is the number: `-2^63+1`, `2^31-0.5`, `255.75`, `f32max`, `tiny64` ...  This module evaluates names,
computes the attributes of every point (integer / fraction, floor and ceiling point, exactly representable in
binary32 / binary64, nearest representable points) and prints the table in TLA+ syntax.  It is used
  * once, to write the static table `BaseLine` of spec/NumLine.tla (python3 checks/numline_gen.py),
  * by checks/c06.py: to verify that the static table is what this module computes, and (thorough tier) to extend
    the line with seeded interior points.
The harness (h_num/src/e_num.rs) re-derives every attribute independently with i128 arithmetic from the same names
and compares them with the concrete Rust types (case `table`)."""
from fractions import Fraction
import re

SPECIAL = {
    "f32max": Fraction((2 ** 24 - 1) * 2 ** 104),
    "f64max": Fraction((2 ** 53 - 1) * 2 ** 971),
    "tiny32": Fraction(1, 2 ** 149),
    "tiny64": Fraction(1, 2 ** 1074),
    "pred0.5_32": Fraction(1, 2) - Fraction(1, 2 ** 25),
    "pred0.5_64": Fraction(1, 2) - Fraction(1, 2 ** 54),
}

_TERM = re.compile(r"([+-]?)(f32max|f64max|tiny32|tiny64|pred0\.5_32|pred0\.5_64|\d+\^\d+|\d+(?:\.\d+)?)")


def value(name):
    """exact value of a point name"""
    pos, total, first = 0, Fraction(0), True
    while pos < len(name):
        m = _TERM.match(name, pos)
        if not m or (not first and m.group(1) == ""):
            raise ValueError("bad point name %r" % name)
        sign, t = m.group(1), m.group(2)
        if t in SPECIAL:
            v = SPECIAL[t]
        elif "^" in t:
            b, e = t.split("^")
            v = Fraction(int(b) ** int(e))
        else:
            v = Fraction(t)
        total += -v if sign == "-" else v
        pos = m.end()
        first = False
    return total


def floor_frac(v):
    return v.numerator // v.denominator


def nearest(v, mant, emin, vmax):
    """nearest representable values of a binary format with `mant` significand bits, minimum normal exponent
    `emin`, largest finite value vmax: [] beyond the range, [x] or [even, odd] on a tie"""
    if abs(v) > vmax:
        return []
    if v == 0:
        return [Fraction(0)]
    a = abs(v)
    # e = floor(log2 a)
    e = a.numerator.bit_length() - a.denominator.bit_length()
    if Fraction(2) ** e > a:
        e -= 1
    if Fraction(2) ** (e + 1) <= a:
        e += 1
    q = Fraction(2) ** (max(e, emin) - (mant - 1))
    k = floor_frac(a / q)
    lo, hi = k * q, (k + 1) * q
    if lo == a:
        r = [lo]
    elif a - lo < hi - a:
        r = [lo]
    elif a - lo > hi - a:
        r = [hi]
    else:
        r = [lo, hi] if k % 2 == 0 else [hi, lo]
    r = [x for x in r if x <= vmax]
    return [x if v > 0 else -x for x in r]


def n32(v):
    return nearest(v, 24, -126, SPECIAL["f32max"])


def n64(v):
    return nearest(v, 53, -1022, SPECIAL["f64max"])


BASE_NAMES = """
-f64max -2^128 -f32max
-2^63-2^40 -2^63-2048 -2^63 -2^63+1 -2^63+1024 -2^63+2^39
-2^53-2 -2^53-1 -2^53
-2^31-256 -2^31-1 -2^31-0.75 -2^31-0.5 -2^31-0.25 -2^31 -2^31+1 -2^31+128
-2^24-2 -2^24-1 -2^24
-32769 -32768.75 -32768.5 -32768.25 -32768 -32767
-129 -128.75 -128.5 -128.25 -128 -127.5 -127
-2 -1.5 -1 -0.75 -0.5 -0.25 0 tiny64 tiny32 0.25 pred0.5_32 pred0.5_64 0.5 0.75 1 1.5 2 2.5 3
127 127.25 127.5 127.75 128 200 255 255.25 255.5 255.75 256
32767 32767.25 32767.5 32767.75 32768 65535 65535.25 65535.5 65535.75 65536
2^23+1 2^23+2 2^24-1 2^24 2^24+1 2^24+2
2^31-128 2^31-1 2^31-0.75 2^31-0.5 2^31-0.25 2^31 2^31+1 2^31+256
2^32-256 2^32-1 2^32-0.75 2^32-0.5 2^32-0.25 2^32 2^32+1 2^32+512
2^52 2^52+1 2^52+2 2^53-1 2^53 2^53+1 2^53+2
2^63-2^39 2^63-1024 2^63-1 2^63 2^63+1 2^63+2048 2^63+2^40
2^64-2^40 2^64-2048 2^64-1 2^64 2^64+4096 2^64+2^41
f32max 2^128 f64max
""".split()


def table(names):
    """records of the line, in increasing order; raises if a floor/ceiling/nearest value is not a named point"""
    vals = {n: value(n) for n in names}
    if len(set(vals.values())) != len(names):
        raise ValueError("two names for one value")
    byval = {v: n for n, v in vals.items()}
    order = sorted(names, key=lambda n: vals[n])

    def nm(v, why, n):
        if v not in byval:
            raise ValueError("%s of %s (= %s) is not a named point" % (why, n, v))
        return byval[v]

    recs = []
    for n in order:
        v = vals[n]
        if v.denominator == 1:
            k, fl, ce = "int", n, n
        else:
            f = floor_frac(v)
            fl, ce = nm(Fraction(f), "floor", n), nm(Fraction(f + 1), "ceiling", n)
            d = v - f
            k = "lo" if d < Fraction(1, 2) else ("tie" if d == Fraction(1, 2) else "hi")
        a32, a64 = n32(v), n64(v)
        recs.append({"n": n, "k": k, "fl": fl, "ce": ce, "e32": a32 == [v], "e64": a64 == [v],
                     "n32": [nm(x, "nearest binary32", n) for x in a32],
                     "n64": [nm(x, "nearest binary64", n) for x in a64]})
    return recs


def tla_record(r):
    s = lambda xs: "<<" + ", ".join('"%s"' % x for x in xs) + ">>"
    return '[n |-> "%s", k |-> "%s", fl |-> "%s", ce |-> "%s", e32 |-> %s, e64 |-> %s, n32 |-> %s, n64 |-> %s]' % (
        r["n"], r["k"], r["fl"], r["ce"], "TRUE" if r["e32"] else "FALSE", "TRUE" if r["e64"] else "FALSE",
        s(r["n32"]), s(r["n64"]))


def tla_table(recs, indent="  "):
    return "<<\n" + ",\n".join(indent + tla_record(r) for r in recs) + "\n>>"


if __name__ == "__main__":
    print(tla_table(table(BASE_NAMES)))
