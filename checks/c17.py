"""C17 Signature data verifies exactly when made by the right key over the right data."""
from vlib import *

LEVEL = "model_checking"


def strip(r):
    if not isinstance(r, dict):
        return r
    return {k: v for k, v in r.items() if k not in ("n", "skipped")}


def run(ctx):
    consts = {"KeyBits": {1024, 2048} if ctx.quick else {1024, 2048, 4096},
              "NonceLens": {0, 32} if ctx.quick else {0, 1, 32, 64}}
    cases, verdicts = fn_pipeline(
        ctx, "C17", "sigdata", "GenSignatureData", "TraceSignatureData", consts=consts, trace_consts=consts,
        crate="h_crypto", key=lambda c: c.get("c"), expected=lambda c: strip(c["exp"]["r"]), observed=lambda o: strip(o.get("r")),
        nontrivial=lambda c: c["c"]["mut"] != "none",
        rule="TLC enumerates signing policy x key size x nonce length x mutation class (none; certificate byte, other "
             "certificate; nonce byte / truncated / extended / other; signature byte / truncated / extended; other signer, "
             "other signer key size, other signing certificate; algorithm URI field; verification under another policy) and "
             "checks the symbolic Sign/Verify against the property; the harness creates the signature with "
             "create_signature_data and applies each class in every concrete way (byte classes: every byte position x 3 "
             "bit masks) to verify_signature_data, reporting the set of outcomes; distinct by case; non-trivial = mutated")
    # coverage of the byte position classes: number of mutants actually verified
    obs = os.path.join(ctx.dir, "fn.obs.ndjson")
    mutants = 0
    per = {}
    with open(obs) as f:
        for line in f:
            o = json.loads(line)
            r, c = o["r"], o["c"]
            mutants += r.get("n", 0)
            m = c["mut"]
            per[m] = per.get(m, 0) + r.get("n", 0)
            if r.get("create") == "ok" and r.get("n", 0) == 0:
                raise ToolError("no mutant verified for case %s" % json.dumps(c))
    ctx.notes["verifications"] = mutants
    ctx.notes["verifications_per_mutation_class"] = per
    ctx.assumptions += ["RSA signatures are uninterpreted in the model (a signature verifies iff intact, same key, same "
                        "algorithm, same data)",
                        "a changed certificate byte counts only when the bytes still parse as a certificate whose DER "
                        "differs from the original (otherwise there is no different certificate to verify against)",
                        "the algorithm URI field and cross-policy verification are not named by the property: specified "
                        "behaviour only (drift), no verdict"]
