"""C32 Attribute reads and writes obey access rights and never crash."""
import json
from vlib import *
from checks.subs_common import take

LEVEL = "model_checking"
CRATE = "h_view"
OUTS = ("fail", "site", "status", "cls", "value", "before", "after", "rcls", "rvalue")
KINDS = {"i32", "i32a", "str", "ustr", "bs", "ba"}
PAIRS = {(0, 0), (1, 1), (3, 3), (4, 4), (1, 2), (0, 9), (3, 5)}          # "0", "1", "3", "4", "1:2", "0:9", "3:5"
ODD = {"", "2:1", "1,2", "a"}
REL = {"last", "lastover", "past", "pastidx", "beyond", "whole", "wholeover", "overhang"}   # relative to the length of the value
VTS = {"same", "wrong", "empty", "null", "conv", "scalar4arr", "arr4scalar", "bs4ba", "ba4bs"}


def strip(s):
    return {k: v for k, v in s.items() if k not in OUTS}


def run(ctx):
    q = ctx.quick
    base = dict(DevByteIndexedStrings=False, DevPastEndAccepted=False, MaxDepth=1, FocusKinds=KINDS | {"none"}, DAccs={"ro", "rw", "unw"},
                DAttrs={"Value"}, DPairs=PAIRS, DOdd=ODD, DRel=REL, DVTs=VTS, Calls={"Read", "Write"},
                OPairs={(1, 1)}, OOdd={"", "a"}, OVTs={"same", "null"})
    seqs = dict(base, MaxDepth=2, FocusKinds=KINDS, DAccs={"rw"})

    # 1. the design satisfies the monitor (sequences of 3 / 4 calls on the writable variables); byte indexed strings do not, nor does
    #    a range write that starts right behind the last element and is answered Good
    ctx.model_check("design", "MCAttribute", dict(seqs, MaxDepth=3 if q else 4), ["C32"], view="MView")
    ctx.model_check("dev_byte_indexed_strings", "MCAttribute", dict(base, DevByteIndexedStrings=True, FocusKinds={"ustr"}), ["C32"],
                    view="MView", expect_violation="C32")
    if not q:
        ctx.model_check("dev_range_past_end_accepted", "MCAttribute", dict(base, DevPastEndAccepted=True, FocusKinds={"i32a"}), ["C32"],
                        view="MView", expect_violation="C32")

    cases = []

    def gen(name, consts, limit=None, **kw):
        h, r = ctx.gen(name, "GenAttribute", consts, invariants=("C32", "Emit"), **kw)
        if r.violated == "C32":
            raise ToolError("design model (%s) violates the monitor:\n%s" % (name, r.trace[:3000]))
        ctx.cov["states"] += r.distinct
        ctx.cov["transitions"] += r.generated
        ctx.cov["tlc_runs"].append({"name": "gen_" + name, "generated": r.generated, "distinct": r.distinct, "cases": len(h), "wall_s": round(r.wall, 1)})
        n = len(h)
        h.sort(key=canon)       # TLC's workers print in no fixed order; the sample below must depend on the seed only
        for x in (take(h, limit, ctx.seed) if limit else h):
            cases.append({"case": len(cases) + 1, "steps": x})
        return n

    # 2. every single call: node kind x access level x attribute x index range x class of written value
    #    (attributes other than Value: 3 index ranges, 2 classes of value)
    n1 = gen("single", dict(base, DAttrs={"Value", "DisplayName", "AccessLevel", "Id0", "Id99"}))
    # 3. every sequence of two (thorough: on the writable variables every pair; quick: a sample) and
    #    every sequence of three calls over a reduced input space
    #    (index ranges relative to the current length of the value, which the first call of a sequence may have changed)
    n3 = gen("pairs", dict(seqs, DPairs={(1, 2)}, DOdd={""}, DRel={"past", "pastidx", "lastover", "whole"},
                          DVTs={"same", "arr4scalar", "scalar4arr", "bs4ba", "empty"}) if q else seqs,
             limit=2500 if q else 40000)
    n4 = gen("triples", dict(seqs, MaxDepth=3, DPairs=set(), DOdd={""}, DRel={"past"} if q else {"past", "lastover", "whole"},
                             DVTs={"same", "scalar4arr", "arr4scalar", "empty", "bs4ba"}), limit=1500 if q else 40000)
    ctx.cov["exhaustive"] = not q

    if ctx.replay:
        cases = [json.load(open(ctx.replay))["case"]]
        cases[0]["case"] = 1
    cpath = ctx.write_cases("attr", [dict(x, steps=[strip(s) for s in x["steps"]]) for x in cases])
    obs = ctx.run("attr", cpath, crate=CRATE)
    verdicts = ctx.judge("attr", "TraceAttribute", obs, {})
    by = {x["case"]: x for x in cases}
    for v in verdicts:
        x = by.get(v["case"])
        s = x["steps"][v["i"] - 1] if x and v["i"] <= len(x["steps"]) else {}
        what = "%s at step %s of case %s: %s %s/%s attribute %s range '%s' value class %s" % (
            v["clause"], v["i"], v["case"], s.get("ev"), s.get("k"), s.get("acc"), s.get("attr"), s.get("range"), s.get("vt"))
        ctx.add_violation("C32:%s" % v["clause"], what, dict(x, steps=[strip(t) for t in x["steps"]]) if x else None, engine="attr")
    # L1 conformance (drift is reported, it is not an alarm)
    exp = {(x["case"], i + 1): s for x in cases for i, s in enumerate(x["steps"])}
    nsteps, drift, bad, stats = 0, [], set(), {"Write/Good": 0, "Write/Bad": 0, "Read/Good": 0, "Read/Bad": 0, "range_write_good": 0}
    for line in open(obs):
        o = json.loads(line)
        key = "%s/%s" % (o.get("ev"), o.get("cls"))
        stats[key] = stats.get(key, 0) + 1
        if o.get("ev") == "Write" and o.get("cls") == "Good" and o.get("range"):
            stats["range_write_good"] += 1
        e = exp.get((o["case"], o["i"]))
        if e is None or o["case"] in bad:
            continue
        nsteps += 1
        for k in ("range", "fail", "cls", "value", "before", "after", "rcls", "rvalue"):
            if k in e and canon(e[k]) != canon(o.get(k)):
                bad.add(o["case"])
                drift.append({"case": o["case"], "i": o["i"], "field": k, "call": strip(e), "expected": e[k], "observed": o.get(k),
                              "status": o.get("status")})
                break
    if not ctx.replay and (stats["Write/Good"] == 0 or stats["range_write_good"] == 0 or stats["Read/Good"] == 0):
        raise ToolError("vacuous run: no successful write / index range write / read was observed (%s)" % stats)
    seen, nt = set(), 0
    for x in cases:
        k = canon([strip(s) for s in x["steps"]])
        if k not in seen:
            seen.add(k)
            nt += 1 if any(s["ev"] == "Write" and s["acc"] == "rw" and s["attr"] == "Value" for s in x["steps"]) else 0
    ctx.cov["evaluations"] += len(cases)
    ctx.cov["distinct_nontrivial"] += nt
    ctx.cov["traces_validated_against_impl"] += len(cases)
    ctx.cov["rule"] = ("behaviours of Attribute.tla generated by TLC and replayed through the real Read / Write services of a session on a real "
                       "server holding 18 variables (Int32, Int32[4], ASCII String, String with 2 and 3 byte characters, ByteString, Byte[4], each "
                       "read-only / writable / writable but not for the user) and a missing node: every single call (5 attribute ids, 11 fixed index "
                       "range strings plus 8 ranges relative to the length n of the value: n-1, n-1:n, n:n+1, n, n+1:n+2, 0:n-1, 0:n, 0:n+5; up to 9 "
                       "classes of written value), pairs and a reduced space of triples of calls on the writable variables. After every call the "
                       "whole value is read back, after a Write with an index range also that range. distinct_nontrivial = distinct cases that write the Value of a writable variable")
    ctx.notes["steps_replayed"] = nsteps
    ctx.notes["outcomes"] = stats
    ctx.notes["generated"] = {"single": n1, "pairs": n3, "triples": n4}
    ctx.notes["drift"] = {"cases_with_L1_mismatch": len(drift), "first": drift[:3]}
    ctx.assumptions += [
        "an index range on a String selects characters (code points), on a ByteString bytes, on an array elements; a range that ends beyond the "
        "value returns what exists (Part 4, NumericRange)",
        "where the statement does not say whether a write is accepted (Int16 for Int32, a scalar for an array variable and vice versa, the empty "
        "Variant, a Write without value, ByteString for Byte[]) both outcomes pass; Good is a violation only without user write access or for a "
        "value of another type family (String for a number, a number for a String / ByteString)",
        "a Good index range write must leave the length and the elements outside the range unchanged; the elements inside must be the written "
        "ones when the written array has exactly the length of a range that lies within the value; the Read of the same range right after it "
        "must succeed and return the written elements (as many as both have, at least one)",
        "the meaning [lo, hi] of an index range string is an input of the case; the harness builds the string it sends from it",
        "the variables have no write mask bit set: attributes other than Value are exercised for totality (status, no panic) only",
        "values are read back through the Read service of the same session (no encoding: the request is dispatched decoded)",
    ]
    for idx in (0, len(cases) // 2, len(cases) - 1):
        ctx.sample({"steps": [strip(s) for s in cases[idx]["steps"]]})
    log("[attr] %d cases, %d steps, %d verdicts, %d drifting, outcomes %s" % (len(cases), nsteps, len(verdicts), len(drift), stats))
