"""C07 Any message survives chunking and channel security unchanged."""
from vlib import *
from checks.channel_common import *

LEVEL = "model_checking"


def proj_exp(c):
    return [[k["body"], k["size"], k["fin"], k["seq"], k["req"]] for k in c["exp"]["chunks"]]


def proj_obs(o):
    r = o.get("r") or {}
    return [[k["body"], k["slen"], k["fin"], k["seq"], k["req"]] for k in r.get("chunks", [])]


def run(ctx):
    bits = {1024, 2048} if ctx.quick else {1024, 2048, 4096}
    info = chan_info(ctx, bits, main_bits={4096})     # the padding sweep needs a receiver key above 2048 bits (two size bytes)

    def sweep(pol, d, sb, rb, step):
        return '[pol |-> "%s", dir |-> "%s", sbits |-> %d, rbits |-> %d, step |-> %d]' % (pol, d, sb, rb, step)
    if ctx.quick:
        # every padding size for one policy per key size class (one / two size bytes), a sample of the period for the others
        sweeps = [sweep("Basic256Sha256", "s2c", 2048, 4096, 1), sweep("Basic256Sha256", "c2s", 2048, 2048, 1),
                  sweep("Basic128Rsa15", "c2s", 1024, 1024, 13), sweep("Basic256", "s2c", 2048, 1024, 13),
                  sweep("Aes128Sha256RsaOaep", "c2s", 2048, 4096, 29), sweep("Aes256Sha256RsaPss", "c2s", 2048, 4096, 29)]
    else:
        sweeps = [sweep(p, d, sb, rb, 1) for d in ("c2s", "s2c")
                  for p, prs in (("Basic128Rsa15", ((1024, 1024), (2048, 2048))), ("Basic256", ((1024, 1024), (2048, 2048))),
                                 ("Basic256Sha256", ((2048, 2048), (2048, 4096), (4096, 4096))),
                                 ("Aes128Sha256RsaOaep", ((2048, 2048), (2048, 4096), (4096, 4096))),
                                 ("Aes256Sha256RsaPss", ((2048, 2048), (2048, 4096), (4096, 4096))))
                  for sb, rb in prs]
    sizes = {0, 8196, 8197, 8300} if ctx.quick else ({0, 8300, 9000, 12345, 16384} | set(range(8196, 8213)))
    consts = {"ChunkSizes": sizes, "KeyBits": bits, "CertLen": info["certs"], "MinLen": info["mins"],
              "Sweeps": Tla("{" + ", ".join(sweeps) + "}"), "DevSignPadded": True}
    # the corrected design (padding only in encrypted chunks) satisfies Reassemble(Receive(Secure(Split(m)))) = m and the
    # chunk rules for every case
    ctx.model_check("design", "MCChunkLayout", dict(consts, DevSignPadded=False), ["DesignOK"], spec="Spec", workers=4)
    # the departure of the pinned tree (signed-only MSG chunks are padded) exhibits the counterexample in the model
    ctx.model_check("dev_sign_padded", "MCChunkLayout", consts, ["DesignOK"], spec="Spec", expect_violation="DesignOK", workers=4)
    # conformance: the layout of the tree as it is (DevSignPadded) is the specified function, the judge is the property
    cases, verdicts = fn_pipeline(
        ctx, "C07", "layout", "GenChunkLayout", "TraceChunkLayout", consts=consts, trace_consts=consts, invariants=(),
        crate=CRATE, key=lambda c: c.get("c"), expected=proj_exp, observed=proj_obs,
        nontrivial=lambda c: c["c"]["pol"] != "None" and c["c"]["mode"] != "None",
        rule="TLC enumerates chunk kind (symmetric MSG, asymmetric OPN) x 6 policies x 3 modes x direction x chunk size limit "
             "{0 = unlimited, 8196, 8197, 8300; thorough: 8196..8212 (every alignment to the AES block), 8300, 9000, 12345, 16384} x message length placed by the layout itself around the chunk boundaries (smallest "
             "message, B-1, B, B+1, 2B, 2B+1, 3B+7 for the maximal body B; OPN: smallest, every padding situation around a full RSA "
             "plain text block, a chunk filled to the limit; PADDING SWEEP: plain block + 3 consecutive body lengths = every padding size "
             "of the RSA scheme, for receiver keys up to 2048 bits (one size byte) and above (4096: two size bytes) - quick: every "
             "size for Basic256Sha256, every 13th / 29th for the other policies, thorough: every size for every policy) x certificate key sizes allowed by the policy (1024/2048, thorough adds "
             "4096), checks Reassemble(Receive(Secure(Split(m)))) = m on the specified layout and prints it; the harness builds a real "
             "WriteRequest / ReadResponse / OpenSecureChannelRequest / Response of exactly that encoded size and runs Chunker::encode, "
             "apply_security, verify_and_remove_security, Chunker::decode on a sender-role and a receiver-role channel; distinct by "
             "case; non-trivial = policy and mode not None")
    n_multi = sum(1 for c in cases if c["exp"]["n"] > 1)
    ctx.notes["cases_with_more_than_one_chunk"] = n_multi
    ctx.notes["opn_cases"] = sum(1 for c in cases if c["c"]["kind"] == "opn")
    pads = {}
    for c in cases:
        if c["c"]["kind"] == "opn" and c["c"]["rbits"] > 0:
            k = "%s receiver %d" % (c["c"]["pol"], c["c"]["rbits"])
            pads.setdefault(k, set()).add(c["exp"]["chunks"][0]["pad"])
    ctx.notes["distinct_padding_sizes_exercised"] = {k: len(v) for k, v in sorted(pads.items())}
    ctx.assumptions += ["the DER length of the minted certificates and the smallest encoded size of each message kind are measured "
                        "on the real code (engine chaninfo) and handed to TLC as constants",
                        "OPN messages are one chunk (Part 6: the final flag of OPN chunks is always F): OPN lengths above the "
                        "maximal body of the chunk size are not generated",
                        "equality of the decoded message is SupportedMessage's PartialEq; the first differing offset is taken on "
                        "the concatenated chunk bodies",
                        "certificate key sizes are restricted to the range the policy allows (Part 7)"]
