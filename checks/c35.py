"""C35 Every client request completes exactly once."""
from checks.client_common import *

LEVEL = "model_checking"

BASE = dict(QueueCap=2, MaxInflight=2, MaxPending=1, MutKeepTimedOut=False, MutArmLatest=False, NReq=3, CBs={True, False},
            Classes={"short", "long"},
            Kinds={"inter", "final", "abort"}, CloseStats={"Good", "BadCommunicationError"}, MaxChunks=6, MaxDepth=8,
            MinCloseDepth=0, ForceClose=False, Script=[], AllStale=True)
PREDICTED = ("took", "id", "hit", "h", "armed", "closed", "out", "st")


def cfg_of(c):
    return {k: c[k] for k in ("QueueCap", "MaxInflight", "MaxPending")}


def run(ctx):
    q = ctx.quick
    inv = ["C35", "GhostOnce", "GhostOwn"]
    # the design: all interleavings, the L2 monitor and the statement on the ghost completions
    ctx.model_check("design", "MCClientTransport", dict(BASE, MaxDepth=8 if q else 11), inv, view="MView")
    if not q:
        ctx.model_check("design_tight_queue", "MCClientTransport",
                        dict(BASE, QueueCap=1, MaxInflight=1, MaxPending=2, MaxDepth=11, MaxChunks=5), inv, view="MView")
        ctx.model_check("design_4_requests", "MCClientTransport",
                        dict(BASE, NReq=4, MaxInflight=3, QueueCap=2, MaxPending=0, MaxDepth=9, CBs={True}), inv, view="MView")
        # the monitor is not vacuous: a transport that answers a timed-out request but keeps it pending is caught
        ctx.model_check("mutant_keep_timed_out", "MCClientTransport", dict(BASE, MutKeepTimedOut=True, MaxDepth=8), ["C35"],
                        view="MView", expect_violation="C35")
        # ... nor is the clause on the timer: arming it for the latest pending deadline is caught
        ctx.model_check("mutant_arm_latest", "MCClientTransport", dict(BASE, MutArmLatest=True, MaxDepth=8), ["C35"],
                        view="MView", expect_violation="C35")
    gens = []
    # two requests pending, the one with the LATER deadline submitted (and taken) first
    two = [["Submit", True, "long"], ["Submit", True, "short"], ["Poll"], ["Poll"]]
    # one pending, one queued, one waiting for room
    three = [["Submit", True, "short"], ["Submit", True, "long"], ["Poll"], ["Submit", True, "short"]]
    for nm, c, cap in (("exhaustive", dict(BASE, ForceClose=True, MaxDepth=5 if q else 6, MaxChunks=4, Classes={"long"} if q else {"short", "long"}),
                        1000 if q else 25000),
                       ("exhaustive_two_pending", dict(BASE, ForceClose=True, Script=two, CBs={True}, CloseStats={"Good"},
                                                       MaxDepth=4 + (4 if q else 5), MaxChunks=5), 1500 if q else 40000),
                       ("exhaustive_tight", dict(BASE, ForceClose=True, Script=three, QueueCap=1, MaxInflight=1, MaxPending=2, CBs={True},
                                                 CloseStats={"Good"}, MaxDepth=4 + (4 if q else 6), MaxChunks=5), 1000 if q else 30000)):
        h, r = ctx.gen(nm, "GenClientTransport", c)
        gens.append((nm, cfg_of(c), take(h, cap, ctx.seed)))
    n = 150 if q else 4000
    rnd = (("random", dict(BASE, ForceClose=True, NReq=6, MaxInflight=3, QueueCap=2, MaxPending=2, MaxChunks=14, MaxDepth=24, MinCloseDepth=16, AllStale=False,
                           CloseStats={"Good", "BadSecureChannelClosed"})),
           ("random_tight", dict(BASE, ForceClose=True, NReq=5, MaxInflight=1, QueueCap=1, MaxPending=1, MaxChunks=12, MaxDepth=20, MinCloseDepth=12, AllStale=False, Kinds={"inter", "final"})))
    for nm, c in (rnd[:1] if q else rnd):
        h, r = ctx.gen(nm, "GenClientTransport", c, simulate="num=%d" % max(40, n // 8))
        gens.append((nm, cfg_of(c), take(h, n, ctx.seed)))
    ctx.cov["exhaustive"] = True

    def nontrivial(c):
        ks = {o["k"] for s in c["steps"] for o in s.get("out", [])}
        late = any(s["ev"] == "Chunk" and not s["hit"] and s["id"] != 99 for s in c["steps"])
        return "resp" in ks and len(ks - {"resp", "sent"}) >= 1 and late

    pipeline(ctx, "C35", "ctrans", "TraceClientTransport", gens, PREDICTED, nontrivial,
             "all interleavings of Submit (with / without response) / Poll (deadline check + take from the queue) / response chunks "
             "(intermediate, final, abort; for pending, unknown, completed and timed-out request ids; chunks of different responses "
             "interleaved) / Expire / Close / Submit after close, exhaustive to a depth bound from three starting points (fresh "
             "transport; two requests pending; queue of capacity 1 with one request pending, one queued and one waiting for room; a "
             "deterministic sample when there are more behaviours than the tier replays), plus random simulation to depth 20-24 with up to 6 requests, replayed on the real TransportState / "
             "Request::send; requests have short or long timeouts and every Poll also records for which pending request the "
             "transport's timer is armed (the real next_timeout); non-trivial = a response delivered, another kind of completion, and a chunk for a request id that is "
             "no longer pending")
    ctx.assumptions += ["the harness stands in for TcpTransport::poll: it calls wait_for_outgoing_message / handle_incoming_message / "
                        "close and closes the transport with the error of a failed incoming message; sockets and the codec are not involved",
                        "time passes only through the cfg-guarded hook that moves the deadline of a pending request into the past; that the "
                        "transport wakes at the right moment is observed as the instant its timer is armed for (hook calling the real "
                        "private next_timeout), not by waiting in real time; short / long timeouts are 1000 s / 3000 s",
                        "response chunks are MessageChunk::new chunks (policy None) of one ReadResponse body split as Chunker::encode splits it"]
