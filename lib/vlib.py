"""Framework for the TLA+ model-based checks of locka99/opcua.

pipeline per property:  model-check (TLC) -> gen cases (TLC) -> run (Rust harness on the real code)
                        -> judge (TLC trace monitor) -> report (evidence, exit code)
"""
import json, os, re, shutil, subprocess, sys, time, hashlib

VERIF = os.path.dirname(os.path.dirname(os.path.abspath(__file__)))
SPEC = os.path.join(VERIF, "spec")
HARNESS = os.path.join(VERIF, "harness")
# Development aid (never used by the registered commands): VERIF_REPO=<copy of /repo> builds the harness crates against that copy
# (cargo `paths` override) and VERIF_SCRATCH=<dir> keeps out/, evidence/ and the cargo target dirs of such a trial apart.
ALT_REPO = os.environ.get("VERIF_REPO")
SCRATCH = os.environ.get("VERIF_SCRATCH")
OUT = os.path.join(SCRATCH, "out") if SCRATCH else os.path.join(VERIF, "out")
EVID = os.path.join(SCRATCH, "evidence") if SCRATCH else os.path.join(VERIF, "evidence")
JAR = "/opt/veriftools/tla/tla2tools.jar:/opt/veriftools/tla/CommunityModules-deps.jar"
NCPU = os.cpu_count() or 4


class ToolError(Exception):
    pass


def log(*a):
    print(*a, file=sys.stderr, flush=True)


# --------------------------------------------------------------------------------------- TLC
class TlcResult:
    def __init__(self):
        self.generated = 0
        self.distinct = 0
        self.depth = 0
        self.printed = []       # values printed with PrintT, raw text lines
        self.violated = None    # name of violated invariant
        self.deadlock = False
        self.error = None
        self.stdout = ""
        self.wall = 0.0
        self.trace = []         # counterexample states (raw text)
        self.coverage = {}


def tla_value(v):
    """python -> TLA+ expression text"""
    if isinstance(v, Tla):
        return v.text
    if isinstance(v, bool):
        return "TRUE" if v else "FALSE"
    if isinstance(v, int):
        return str(v)
    if isinstance(v, str):
        return json.dumps(v)
    if isinstance(v, (set, frozenset)):
        return "{" + ", ".join(sorted(tla_value(x) for x in v)) + "}"
    if isinstance(v, (list, tuple)):
        return "<<" + ", ".join(tla_value(x) for x in v) + ">>"
    if isinstance(v, dict):
        return "[" + ", ".join("%s |-> %s" % (k, tla_value(x)) for k, x in v.items()) + "]"
    raise ValueError(v)


class Tla:
    """raw TLA+ text"""
    def __init__(self, text):
        self.text = text


def run_tlc(workdir, root, consts, spec=None, init=None, next_=None, invariants=(), view=None,
            constraint=None, postcondition=None, workers=None, simulate=None, env=None, timeout=600,
            deadlock=False, extra_defs="", extends_extra=(), jvm=(), coverage=False, seed=None,
            depth_first=False, properties=(), printed_cap=250000):
    """Write a wrapper module + cfg in workdir and run TLC. consts: dict name -> python value / Tla."""
    os.makedirs(workdir, exist_ok=True)
    tag = "W" + root
    lines = ["---- MODULE %s ----" % tag, "EXTENDS " + ", ".join([root] + list(extends_extra))]
    cfg = []
    for k, v in consts.items():
        lines.append("c_%s == %s" % (k, tla_value(v)))
        cfg.append("CONSTANT %s <- c_%s" % (k, k))
    if extra_defs:
        lines.append(extra_defs)
    lines.append("====")
    with open(os.path.join(workdir, tag + ".tla"), "w") as f:
        f.write("\n".join(lines) + "\n")
    if spec:
        cfg.append("SPECIFICATION " + spec)
    else:
        cfg.append("INIT " + init)
        cfg.append("NEXT " + next_)
    for i in invariants:
        cfg.append("INVARIANT " + i)
    for p in properties:
        cfg.append("PROPERTY " + p)
    if view:
        cfg.append("VIEW " + view)
    if constraint:
        cfg.append("CONSTRAINT " + constraint)
    if postcondition:
        cfg.append("POSTCONDITION " + postcondition)
    cfg.append("CHECK_DEADLOCK " + ("TRUE" if deadlock else "FALSE"))
    with open(os.path.join(workdir, tag + ".cfg"), "w") as f:
        f.write("\n".join(cfg) + "\n")
    meta = os.path.join(workdir, "states")
    shutil.rmtree(meta, ignore_errors=True)
    jopts = ["-XX:+UseParallelGC", "-Xss1g", "-DTLA-Library=" + SPEC]
    if depth_first:
        jopts.append("-Dtlc2.tool.queue.IStateQueue=StateDeque")
    jopts += list(jvm)
    cmd = ["java"] + jopts + ["-cp", JAR, "tlc2.TLC", "-metadir", meta, "-cleanup", "-noGenerateSpecTE",
                              "-workers", str(workers or min(8, NCPU)), "-config", tag + ".cfg"]
    if simulate:
        cmd += ["-simulate", simulate]
    if seed is not None:
        cmd += ["-seed", str(seed)]
    if coverage:
        cmd += ["-coverage", "1"]
    cmd += [tag + ".tla"]
    e = dict(os.environ)
    e.pop("JAVA_TOOL_OPTIONS", None)
    if env:
        e.update({k: str(v) for k, v in env.items()})
    t0 = time.time()
    outp = os.path.join(workdir, "tlc.out")
    # the output goes to a file and is scanned line by line: generators print up to millions of cases
    try:
        with open(outp, "w") as fo:
            p = subprocess.run(cmd, cwd=workdir, env=e, stdout=fo, stderr=subprocess.STDOUT, timeout=timeout)
    except subprocess.TimeoutExpired as ex:
        shutil.rmtree(meta, ignore_errors=True)
        raise ToolError("TLC timeout after %ss in %s" % (timeout, workdir))
    r = TlcResult()
    r.wall = time.time() - t0
    shutil.rmtree(meta, ignore_errors=True)
    import random as _random
    rnd = _random.Random(seed if seed is not None else 1)
    other = []          # everything that is not a printed value (bounded)
    r.nprinted = 0
    with open(outp, errors="replace") as fi:
        for line in fi:
            line = line.rstrip("\n")
            if line.startswith("<<") or line.startswith('"'):
                # printed values: all of them up to printed_cap, beyond that a uniform sample (reservoir)
                r.nprinted += 1
                if printed_cap is None or len(r.printed) < printed_cap:
                    r.printed.append((r.nprinted, line))
                else:
                    j = rnd.randrange(r.nprinted)
                    if j < printed_cap:
                        r.printed[j] = (r.nprinted, line)
                if len(other) < 20000 and len(line) < 2000:
                    other.append(line)
                continue
            if len(other) < 200000:
                other.append(line[:4000])
            m = re.match(r"^(\d+) states generated, (\d+) distinct states found", line)
            if m:
                r.generated, r.distinct = int(m.group(1)), int(m.group(2))
            m = re.match(r"^The depth of the complete state graph search is (\d+)", line)
            if m:
                r.depth = int(m.group(1))
            m = re.match(r"^Error: Invariant (\S+) is violated", line)
            if m:
                r.violated = m.group(1)
            if line.startswith("Error: Deadlock reached"):
                r.deadlock = True
    r.printed = [l for _, l in sorted(r.printed)]
    r.stdout = "\n".join(other)
    try:
        # a generator's output can be gigabytes of printed cases; what is needed of it has been taken
        if os.path.getsize(outp) > 200 * 1024 * 1024:
            with open(outp, "w") as fo:
                fo.write("\n".join(other[-2000:]) + "\n(%d printed values removed, %d of them used)\n" % (r.nprinted, len(r.printed)))
    except OSError:
        pass
    if r.violated or r.deadlock:
        i = r.stdout.find("Error:")
        r.trace = r.stdout[i:i + 20000]
    elif "Error:" in r.stdout or p.returncode not in (0,):
        # an evaluation / parse error
        i = r.stdout.find("Error:")
        r.error = r.stdout[i:i + 3000] if i >= 0 else r.stdout[-3000:]
    return r


def parse_case_lines(printed, tagname="CASE"):
    """lines printed by PrintT(<<"CASE", ToJson(x)>>)  ->  python objects"""
    out = []
    pre = '<<"%s", ' % tagname
    for l in printed:
        if l.startswith(pre) and l.endswith(">>"):
            s = l[len(pre):-2]
            try:
                out.append(json.loads(json.loads(s)))
            except Exception:
                pass
    return out


# ------------------------------------------------------------------------------------ harness
_built = set()


def build_harness(crate="harness"):
    """cargo build (offline, hooks on) of /verif/<crate>; every check rebuilds from /repo's working tree"""
    if crate in _built:
        return
    cdir = os.path.join(VERIF, crate)
    lock = os.path.join(cdir, "Cargo.lock")
    if not os.path.exists(lock):
        shutil.copy("/repo/Cargo.lock", lock)
    e = dict(os.environ)
    e["CARGO_NET_OFFLINE"] = "true"
    t0 = time.time()
    e.pop("CARGO_TARGET_DIR", None)
    cmd = ["cargo", "build", "--offline", "-q"]
    if ALT_REPO:
        cmd += ["--config", 'paths=["%s/lib"]' % ALT_REPO]
    if SCRATCH:
        e["CARGO_TARGET_DIR"] = os.path.join(SCRATCH, "target", crate)
    p = subprocess.run(cmd, cwd=cdir, env=e, stdout=subprocess.PIPE,
                       stderr=subprocess.STDOUT, text=True)
    if p.returncode != 0:
        sys.stderr.write(p.stdout[-6000:])
        raise ToolError("harness build failed (%s)" % crate)
    log("[build] %s %.1fs" % (crate, time.time() - t0))
    _built.add(crate)


def harness_bin(crate="harness"):
    if SCRATCH:
        return os.path.join(SCRATCH, "target", crate, "debug", "conform")
    return os.path.join(VERIF, crate, "target", "debug", "conform")


def run_harness(engine, cases_path, obs_path, mode="run", timeout=900, env=None, crate="harness"):
    build_harness(crate)
    e = dict(os.environ)
    e["VERIF_OUT"] = OUT
    if env:
        e.update({k: str(v) for k, v in env.items()})
    t0 = time.time()
    try:
        p = subprocess.run([harness_bin(crate), mode, engine, cases_path, obs_path], env=e, stdout=subprocess.PIPE,
                           stderr=subprocess.PIPE, text=True, errors="replace", timeout=timeout, cwd=OUT)
    except subprocess.TimeoutExpired:
        raise ToolError("harness timeout")
    if p.returncode != 0:
        sys.stderr.write(p.stderr[-4000:])
        raise ToolError("harness exited %d (engine %s)" % (p.returncode, engine))
    return time.time() - t0


# --------------------------------------------------------------------------------------- judge
def judge(workdir, root, obs_path, consts, timeout=900, extra_env=None):
    """Run the TLC trace monitor `root` (a Trace*.tla module) over obs_path.
    The monitor writes its verdicts to <workdir>/verdict.ndjson. Returns (list of verdict dicts, TlcResult)."""
    os.makedirs(workdir, exist_ok=True)
    vpath = os.path.join(workdir, "verdict.ndjson")
    if os.path.exists(vpath):
        os.remove(vpath)
    env = {"OBS": obs_path, "VERDICT": vpath}
    if extra_env:
        env.update(extra_env)
    r = run_tlc(workdir, root, consts, spec="TSpec", workers=1, env=env, timeout=timeout, depth_first=True,
                jvm=("-Xmx6g",))
    if r.error:
        raise ToolError("judge %s failed: %s" % (root, r.error[:1500]))
    if not os.path.exists(vpath):
        raise ToolError("judge %s wrote no verdict file (see %s/tlc.out)" % (root, workdir))
    verdicts = []
    with open(vpath) as f:
        for line in f:
            line = line.strip()
            if line:
                verdicts.append(json.loads(line))
    return verdicts, r


# ------------------------------------------------------------------------------------ context
def load_known():
    """known_findings.txt, one finding per line:
         known: property=<id> signature=<sig> <what fails>
         fixed: property=<id> <commit> <what failed>          (suppresses nothing)"""
    p = os.path.join(VERIF, "known_findings.txt")
    out = []
    if os.path.exists(p):
        for line in open(p):
            line = line.strip()
            m = re.match(r"^known: property=(\S+) signature=(\S+) (.*)$", line)
            if m:
                out.append({"property": m.group(1), "signature": m.group(2), "what": m.group(3), "status": "known"})
    return out


class Ctx:
    def __init__(self, pid, tier, seed, level, replay=None):
        self.pid, self.tier, self.seed, self.level, self.replay = pid, tier, seed, level, replay
        self.dir = os.path.join(OUT, pid, tier)
        os.makedirs(self.dir, exist_ok=True)
        self.t0 = time.time()
        self.cov = {"states": 0, "transitions": 0, "traces_validated_against_impl": 0, "evaluations": 0,
                    "distinct_nontrivial": 0, "samples": [], "exhaustive": False, "rule": "", "tlc_runs": []}
        self.assumptions = []
        self.violations = []     # dicts: sig, what, case
        self.known_hits = {}
        self.notes = {}
        self.quick = tier == "quick"

    def sub(self, name):
        d = os.path.join(self.dir, name)
        os.makedirs(d, exist_ok=True)
        return d

    # -- model checking of the design
    def model_check(self, name, root, consts, invariants, spec="MSpec", view=None, expect_violation=None,
                    workers=None, timeout=900, constraint=None, deadlock=False, **kw):
        # the thorough tier may run on a loaded machine: its TLC runs get four times the time before they count as stuck
        timeout = timeout if self.quick else timeout * 4
        r = run_tlc(self.sub("mc_" + name), root, consts, spec=spec, invariants=invariants, view=view,
                    workers=workers or (4 if self.quick else NCPU), timeout=timeout, constraint=constraint,
                    deadlock=deadlock, **kw)
        self.cov["tlc_runs"].append({"name": name, "generated": r.generated, "distinct": r.distinct,
                                     "depth": r.depth, "wall_s": round(r.wall, 1),
                                     "violated": r.violated, "deadlock": r.deadlock})
        if r.error:
            raise ToolError("TLC error in %s: %s" % (name, r.error[:2000]))
        if expect_violation is None:
            self.cov["states"] += r.distinct
            self.cov["transitions"] += r.generated
            if r.violated or r.deadlock:
                # the corrected design itself violates the property: that is a defect of the specification
                raise ToolError("design model %s violates %s:\n%s" % (name, r.violated or "deadlock", r.trace[:3000]))
        else:
            if r.violated != expect_violation and not (expect_violation == "deadlock" and r.deadlock):
                raise ToolError("deviation model %s no longer exhibits %s (stale finding?)" % (name, expect_violation))
        log("[tlc] %s: %d distinct / %d generated, depth %d, %.1fs%s" % (
            name, r.distinct, r.generated, r.depth, r.wall,
            " (expected violation of %s found)" % expect_violation if expect_violation else ""))
        return r

    # -- generation of cases from a Gen* module
    def gen(self, name, root, consts, spec="GSpec", invariants=("Emit",), simulate=None, timeout=900, workers=None,
            constraint=None, keep=60000):
        """TLC prints one CASE line per behaviour; at most `keep` of them (a uniform, seeded sample beyond that) are
        parsed and returned -- generators may print millions."""
        timeout = timeout if self.quick else timeout * 4
        r = run_tlc(self.sub("gen_" + name), root, consts, spec=spec, invariants=invariants, simulate=simulate,
                    workers=workers or (4 if self.quick else 8), timeout=timeout, seed=self.seed if simulate else None,
                    constraint=constraint, printed_cap=keep)
        if r.error and not simulate:
            raise ToolError("TLC gen error in %s: %s" % (name, r.error[:2000]))
        cases = parse_case_lines(r.printed)
        log("[gen] %s: %d cases%s (%d distinct states) %.1fs" % (
            name, r.nprinted, "" if len(cases) == r.nprinted else ", %d kept" % len(cases), r.distinct, r.wall))
        return cases, r

    def write_cases(self, name, cases):
        p = os.path.join(self.dir, name + ".cases.ndjson")
        with open(p, "w") as f:
            for c in cases:
                f.write(json.dumps(c, separators=(",", ":")) + "\n")
        return p

    def run(self, engine, cases_path, name=None, mode="run", env=None, timeout=1800, crate="harness"):
        obs = os.path.join(self.dir, (name or engine) + ".obs.ndjson")
        dt = run_harness(engine, cases_path, obs, mode=mode, env=env, timeout=timeout, crate=crate)
        log("[run] %s: %s %.1fs" % (engine, os.path.basename(obs), dt))
        return obs

    def judge(self, name, root, obs, consts, timeout=1800):
        timeout = timeout if self.quick else timeout * 3
        v, r = judge(self.sub("judge_" + name), root, obs, consts, timeout=timeout)
        log("[judge] %s: %d verdict lines, %d records/states %.1fs" % (name, len(v), r.distinct, r.wall))
        return v

    # -- verdict handling
    def add_violation(self, sig, what, case, engine=None, extra=None):
        self.violations.append({"sig": sig, "what": what, "case": case, "engine": engine, "extra": extra})

    def sample(self, x):
        if len(self.cov["samples"]) < 4:
            self.cov["samples"].append(x)

    def finish(self):
        known = [k for k in load_known() if k.get("property") == self.pid and k.get("status") == "known"]
        new = []
        seen_known = {}
        for v in self.violations:
            hit = None
            for k in known:
                if k["signature"] == v["sig"]:
                    hit = k
                    break
            if hit:
                seen_known.setdefault(hit["signature"], [hit, 0])[1] += 1
            else:
                new.append(v)
        for sig, (k, n) in seen_known.items():
            print("KNOWN-FINDING: property=%s %s [%s] (%d cases)" % (self.pid, k["what"], sig, n))
        rc = 0
        reported = set()
        for v in new:
            if v["sig"] in reported:
                continue
            reported.add(v["sig"])
            rp = os.path.join(self.dir, "replay_%s.json" % hashlib.sha1(v["sig"].encode()).hexdigest()[:10])
            with open(rp, "w") as f:
                json.dump({"property": self.pid, "signature": v["sig"], "what": v["what"], "engine": v["engine"],
                           "case": v["case"], "extra": v["extra"]}, f)
            print("VIOLATION property=%s replay=%s" % (self.pid, rp))
            print("  signature: %s" % v["sig"])
            print("  what: %s" % v["what"])
            rc = 1
        self.write_evidence(len(new), sorted(seen_known))
        return rc

    def write_evidence(self, nviol, known_sigs):
        os.makedirs(EVID, exist_ok=True)
        cov = dict(self.cov)
        if not cov["samples"]:
            cov["samples"] = ["(no case executed)"]
        cov["known_findings_seen"] = known_sigs
        cov.update(self.notes)
        ev = {"property_id": self.pid, "tier": self.tier, "seed": int(self.seed), "level": self.level,
              "coverage": cov, "assumptions": self.assumptions, "wall_s": round(time.time() - self.t0, 2),
              "violations": nviol}
        with open(os.path.join(EVID, self.pid + ".json"), "w") as f:
            json.dump(ev, f, indent=1, default=str)


def fn_pipeline(ctx, pid, engine, gen_root, trace_root, consts=None, invariants=("DesignOK",), spec="Spec",
                nontrivial=None, rule="", limit=None, mode="run", key=lambda c: c.get("c"), sig=None, env=None,
                trace_consts=None, expected=lambda c: c.get("exp"), observed=lambda o: o.get("r"), extra_cases=None,
                name="fn", timeout=1800, crate="harness"):
    """Function-like property: TLC enumerates the abstract input space (one state per case), checks the specified
    function against the property and prints every case; the harness runs the real function; a TLA+ predicate
    evaluated by TLC judges each real result."""
    consts = consts or {}
    r = run_tlc(ctx.sub("gen_" + name), gen_root, consts, spec=spec, invariants=list(invariants) + ["Emit"],
                workers=4 if ctx.quick else 8, timeout=timeout)
    if r.error:
        raise ToolError("TLC error in %s: %s" % (gen_root, r.error[:2000]))
    if r.violated:
        raise ToolError("specified function in %s violates %s:\n%s" % (gen_root, r.violated, r.trace[:3000]))
    ctx.cov["tlc_runs"].append({"name": gen_root, "generated": r.generated, "distinct": r.distinct, "wall_s": round(r.wall, 1)})
    ctx.cov["states"] += r.distinct
    ctx.cov["transitions"] += r.generated
    cases = parse_case_lines(r.printed)
    log("[tlc] %s: %d cases enumerated and checked against the design predicate, %.1fs" % (gen_root, len(cases), r.wall))
    if extra_cases:
        cases += extra_cases
    if limit and len(cases) > limit:
        import random
        rnd = random.Random(ctx.seed)
        cases = [cases[i] for i in sorted(rnd.sample(range(len(cases)), limit))]
    else:
        ctx.cov["exhaustive"] = True
    if ctx.replay:
        cases = [json.load(open(ctx.replay))["case"]]
    for i, c in enumerate(cases):
        c["case"] = i + 1
    cpath = ctx.write_cases(name, cases)
    obs = ctx.run(engine, cpath, name=name, mode=mode, env=env, crate=crate)
    verdicts = ctx.judge(name, trace_root, obs, trace_consts or {})
    by = {c["case"]: c for c in cases}
    for v in verdicts:
        c = by.get(v["case"])
        s = sig(v, c) if sig else "%s:%s" % (pid, v["clause"])
        ctx.add_violation(s, "%s (case %s)" % (v["clause"], json.dumps(key(c))[:300] if c else "?"), c, engine=engine)
    # L1 drift
    nd = 0
    first = []
    nobs = 0
    with open(obs) as f:
        for line in f:
            o = json.loads(line)
            nobs += 1
            c = by.get(o["case"])
            if c is None:
                continue
            e = expected(c)
            if e is not None and canon(e) != canon(observed(o)):
                nd += 1
                if len(first) < 3:
                    first.append({"case": key(c), "expected": e, "observed": observed(o)})
    seen = set()
    nt = 0
    for c in cases:
        k = canon(key(c))
        if k in seen:
            continue
        seen.add(k)
        if nontrivial is None or nontrivial(c):
            nt += 1
    ctx.cov["evaluations"] += len(cases)
    ctx.cov["distinct_nontrivial"] += nt
    ctx.cov["traces_validated_against_impl"] += nobs
    ctx.cov["rule"] = rule
    ctx.notes.setdefault("drift", {})[name] = {"cases_differing_from_specified_function": nd, "first": first}
    if cases:
        for idx in (0, len(cases) // 2, len(cases) - 1):
            ctx.sample(key(cases[idx]))
    log("[%s] %d cases, %d verdicts, %d results differ from the specified function (drift, not an alarm)" % (
        engine, len(cases), len(verdicts), nd))
    return cases, verdicts


def canon(x):
    return json.dumps(x, sort_keys=True, separators=(",", ":"))


def drop_prefix_cases(cases, key=lambda c: c):
    """keep only maximal behaviours"""
    return cases
