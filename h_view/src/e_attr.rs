//! Engine `attr` (C32): Read / Write of variable attributes through the real MessageHandler on a real server.
//!
//! Values travel as {"t": element type, "a": is array, "v": [numbers]}; a String is the list of its code points.
use crate::srv::*;
use crate::util::*;
use crate::Obs;
use opcua::core::supported_message::SupportedMessage;
use opcua::server::prelude::*;
use serde_json::{json, Value};

const KINDS: [&str; 6] = ["i32", "i32a", "str", "ustr", "bs", "ba"];
const ACCS: [&str; 3] = ["ro", "rw", "unw"];

fn node(k: &str, acc: &str) -> NodeId {
    if k == "none" {
        NodeId::new(2, "A-never-exists")
    } else {
        NodeId::new(2, format!("A-{}-{}", k, acc))
    }
}

fn initial(k: &str) -> Variant {
    match k {
        "i32" => Variant::from(5i32),
        "i32a" => Variant::from((VariantTypeId::Int32, vec![Variant::from(10i32), Variant::from(20i32), Variant::from(30i32), Variant::from(40i32)])),
        "str" => Variant::from("abcd"),
        "ustr" => Variant::from("a\u{e9}\u{20ac}b"),
        "bs" => Variant::from(ByteString::from(vec![1u8, 2, 3, 4])),
        _ => Variant::from((VariantTypeId::Byte, vec![Variant::from(1u8), Variant::from(2u8), Variant::from(3u8), Variant::from(4u8)])),
    }
}

fn data_type(k: &str) -> DataTypeId {
    match k {
        "i32" | "i32a" => DataTypeId::Int32,
        "str" | "ustr" => DataTypeId::String,
        "bs" => DataTypeId::ByteString,
        _ => DataTypeId::Byte,
    }
}

thread_local! {
    static SRV: Srv = {
        let s = Srv::new();
        {
            let a = s.server.address_space();
            let mut a = a.write();
            let folder = NodeId::new(2, "A-folder");
            let _ = a.add_folder_with_id(&folder, "A", "A", &NodeId::objects_folder_id());
            for k in KINDS {
                for acc in ACCS {
                    let id = node(k, acc);
                    let name = format!("{}-{}", k, acc);
                    let mut b = VariableBuilder::new(&id, name.as_str(), name.as_str())
                        .data_type(data_type(k))
                        .organized_by(folder.clone())
                        .value(initial(k));
                    if k == "i32a" || k == "ba" {
                        b = b.value_rank(1).array_dimensions(&[4]);
                    } else {
                        b = b.value_rank(-1);
                    }
                    b = match acc {
                        "rw" => b
                            .access_level(AccessLevel::CURRENT_READ | AccessLevel::CURRENT_WRITE)
                            .user_access_level(UserAccessLevel::CURRENT_READ | UserAccessLevel::CURRENT_WRITE),
                        "unw" => b
                            .access_level(AccessLevel::CURRENT_READ | AccessLevel::CURRENT_WRITE)
                            .user_access_level(UserAccessLevel::CURRENT_READ),
                        _ => b.access_level(AccessLevel::CURRENT_READ).user_access_level(UserAccessLevel::CURRENT_READ),
                    };
                    let _ = b.insert(&mut a);
                }
            }
        }
        s
    };
}

fn num(v: &Variant) -> Option<(&'static str, i64)> {
    match v {
        Variant::Int32(n) => Some(("Int32", *n as i64)),
        Variant::Int16(n) => Some(("Int16", *n as i64)),
        Variant::Byte(n) => Some(("Byte", *n as i64)),
        _ => None,
    }
}

fn to_json(v: &Variant) -> Value {
    match v {
        Variant::Empty => json!({"t": "Empty", "a": false, "v": []}),
        Variant::String(s) => json!({"t": "String", "a": false, "v": s.as_ref().chars().map(|c| c as u32).collect::<Vec<_>>()}),
        Variant::ByteString(b) => json!({"t": "ByteString", "a": false, "v": b.value.clone().unwrap_or_default()}),
        Variant::Array(arr) => {
            let t = match arr.value_type {
                VariantTypeId::Int32 => "Int32",
                VariantTypeId::Int16 => "Int16",
                VariantTypeId::Byte => "Byte",
                _ => "Other",
            };
            let vals: Vec<i64> = arr.values.iter().map(|x| num(x).map(|p| p.1).unwrap_or(-1)).collect();
            json!({"t": t, "a": true, "v": vals})
        }
        x => match num(x) {
            Some((t, n)) => json!({"t": t, "a": false, "v": [n]}),
            None => json!({"t": "Other", "a": false, "v": []}),
        },
    }
}

fn from_json(w: &Value) -> Option<Variant> {
    let vals: Vec<i64> = w["v"].as_array().map(|a| a.iter().map(|x| x.as_i64().unwrap_or(0)).collect()).unwrap_or_default();
    let arr = getb(w, "a");
    let one = |t: &str, n: i64| match t {
        "Int16" => Variant::from(n as i16),
        "Byte" => Variant::from(n as u8),
        _ => Variant::from(n as i32),
    };
    match gets(w, "t") {
        "None" => None,
        "Empty" => Some(Variant::Empty),
        "String" => Some(Variant::from(vals.iter().filter_map(|c| char::from_u32(*c as u32)).collect::<String>())),
        "ByteString" => Some(Variant::from(ByteString::from(vals.iter().map(|b| *b as u8).collect::<Vec<u8>>()))),
        t => {
            if arr {
                let ty = match t {
                    "Int16" => VariantTypeId::Int16,
                    "Byte" => VariantTypeId::Byte,
                    _ => VariantTypeId::Int32,
                };
                Some(Variant::from((ty, vals.iter().map(|n| one(t, *n)).collect::<Vec<Variant>>())))
            } else {
                Some(one(t, vals.first().copied().unwrap_or(0)))
            }
        }
    }
}

/// whitespace-free ASCII signature of a panic site: file and the words of the message, no quoted data
pub fn ascii_site(site: &str) -> String {
    let s: String = site_sig(site).chars().map(|c| if c.is_ascii_alphanumeric() || "._/:#-".contains(c) { c } else { '_' }).collect();
    let mut out = String::new();
    for c in s.chars() {
        if !(c == '_' && out.ends_with('_')) {
            out.push(c);
        }
    }
    out.trim_matches('_').to_string()
}

fn attr_id(a: &str) -> u32 {
    match a {
        "Value" => AttributeId::Value as u32,
        "DisplayName" => AttributeId::DisplayName as u32,
        "AccessLevel" => AttributeId::AccessLevel as u32,
        "Id0" => 0,
        _ => 99,
    }
}

/// Read service, one item -> (status name, class, value)
fn read(c: &mut Conn, id: &NodeId, attr: u32, range: &str) -> (String, &'static str, Value) {
    let none = json!({"t": "None", "a": false, "v": []});
    let req = ReadRequest {
        request_header: c.header(),
        max_age: 0.0,
        timestamps_to_return: TimestampsToReturn::Neither,
        nodes_to_read: Some(vec![ReadValueId {
            node_id: id.clone(),
            attribute_id: attr,
            index_range: if range.is_empty() { UAString::null() } else { UAString::from(range) },
            data_encoding: QualifiedName::null(),
        }]),
    };
    match c.call1(req.into()) {
        SupportedMessage::ReadResponse(r) => match r.results.unwrap_or_default().into_iter().next() {
            Some(dv) => {
                let st = dv.status.unwrap_or(StatusCode::Good);
                let cls = if st.is_good() { "Good" } else { "Bad" };
                let val = match (&dv.value, st.is_good()) {
                    (Some(v), true) => to_json(v),
                    _ => none,
                };
                (st.name().to_string(), cls, val)
            }
            None => ("?".into(), "?", none),
        },
        SupportedMessage::ServiceFault(f) => (f.response_header.service_result.name().to_string(), "Bad", none),
        _ => ("?".into(), "?", none),
    }
}

/// the value a Read of the whole Value attribute returns
fn full(c: &mut Conn, id: &NodeId) -> Value {
    match guard(|| read(c, id, AttributeId::Value as u32, "")) {
        Ok((_, "Good", v)) => v,
        _ => json!({"t": "Unreadable", "a": false, "v": []}),
    }
}

fn write(c: &mut Conn, id: &NodeId, attr: u32, range: &str, w: &Value) -> (String, &'static str) {
    let req = WriteRequest {
        request_header: c.header(),
        nodes_to_write: Some(vec![WriteValue {
            node_id: id.clone(),
            attribute_id: attr,
            index_range: if range.is_empty() { UAString::null() } else { UAString::from(range) },
            value: DataValue {
                value: from_json(w),
                status: None,
                source_timestamp: None,
                source_picoseconds: None,
                server_timestamp: None,
                server_picoseconds: None,
            },
        }]),
    };
    match c.call1(req.into()) {
        SupportedMessage::WriteResponse(r) => match r.results.unwrap_or_default().into_iter().next() {
            Some(st) => (st.name().to_string(), if st.is_good() { "Good" } else { "Bad" }),
            None => ("?".into(), "?"),
        },
        SupportedMessage::ServiceFault(f) => (f.response_header.service_result.name().to_string(), "Bad"),
        _ => ("?".into(), "?"),
    }
}

pub fn run_case(case: &Value, out: &mut Obs) {
    let cid = case.get("case").cloned().unwrap_or(Value::Null);
    SRV.with(|srv| {
        let mut c = srv.connect();
        if !c.open_session() {
            out.push(json!({"case": cid, "i": 1, "ev": "Setup", "fail": "setup", "site": "open_session", "k": "none", "acc": "ro",
                            "status": "?", "cls": "?", "before": {"t": "Unreadable", "a": false, "v": []}, "after": {"t": "Unreadable", "a": false, "v": []}}));
            return;
        }
        // every case starts from the initial values
        {
            let a = srv.server.address_space();
            let mut a = a.write();
            let now = DateTime::now();
            for k in KINDS {
                for acc in ACCS {
                    if let Some(v) = a.find_variable_mut(node(k, acc)) {
                        let _ = v.set_value_direct(initial(k), StatusCode::Good, &now, &now);
                    }
                }
            }
        }
        let empty = vec![];
        for (i, s) in case.get("steps").and_then(|s| s.as_array()).unwrap_or(&empty).iter().enumerate() {
            let id = node(gets(s, "k"), gets(s, "acc"));
            let attr = attr_id(gets(s, "attr"));
            // the string sent for [lo, hi]: "lo" or "lo:hi"; other strings ("", "2:1", "1,2", "a") literally
            let range = if gets(s, "rk") == "one" {
                let (lo, hi) = (geti(s, "lo"), geti(s, "hi"));
                if lo == hi { format!("{}", lo) } else { format!("{}:{}", lo, hi) }
            } else {
                gets(s, "range").to_string()
            };
            let before = full(&mut c, &id);
            let r = guard(|| match gets(s, "ev") {
                "Write" => {
                    let (st, cls) = write(&mut c, &id, attr, &range, &s["w"]);
                    (st, cls, json!({"t": "None", "a": false, "v": []}))
                }
                _ => read(&mut c, &id, attr, &range),
            });
            // a Write of Value with an index range is followed by a Read of the same range
            let follow = gets(s, "ev") == "Write" && gets(s, "attr") == "Value" && !range.is_empty();
            let (rcls, rvalue) = if follow {
                match guard(|| read(&mut c, &id, AttributeId::Value as u32, &range)) {
                    Ok((_, cls, v)) => (cls, v),
                    Err(_) => ("?", json!({"t": "None", "a": false, "v": []})),
                }
            } else {
                ("", json!({"t": "None", "a": false, "v": []}))
            };
            let after = full(&mut c, &id);
            let mut o = s.clone();
            let obj = o.as_object_mut().unwrap();
            obj.insert("case".into(), cid.clone());
            obj.insert("i".into(), json!(i + 1));
            obj.insert("before".into(), before);
            obj.insert("after".into(), after);
            obj.insert("range".into(), json!(range));
            obj.insert("rcls".into(), json!(rcls));
            obj.insert("rvalue".into(), rvalue);
            let failed = r.is_err();
            match r {
                Ok((st, cls, val)) => {
                    obj.insert("fail".into(), json!("none"));
                    obj.insert("site".into(), json!(""));
                    obj.insert("status".into(), json!(st));
                    obj.insert("cls".into(), json!(cls));
                    obj.insert("value".into(), val);
                }
                Err(site) => {
                    obj.insert("fail".into(), json!("panic"));
                    obj.insert("site".into(), json!(ascii_site(&site)));
                    obj.insert("status".into(), json!("?"));
                    obj.insert("cls".into(), json!("?"));
                    obj.insert("value".into(), json!({"t": "None", "a": false, "v": []}));
                }
            }
            out.push(o);
            if failed {
                break;
            }
        }
        let _ = guard(|| c.close());
    });
}
