//! Engine `browse` (C30): Browse / BrowseNext / node management through the real MessageHandler on a real server.
//!
//! Universe of a case: folder F (abstract node 0) below Objects, children 1..k referenced from F, created directly in the
//! real address space; later nodes / references are added and deleted through the real NodeManagement services.
//! Continuation points are numbered in order of issue.
use crate::srv::*;
use crate::util::*;
use crate::Obs;
use opcua::core::supported_message::SupportedMessage;
use opcua::server::prelude::*;
use serde_json::{json, Value};
use std::sync::atomic::{AtomicU32, Ordering};

thread_local! {
    static SRV: Srv = Srv::new();
}
static CASE_NO: AtomicU32 = AtomicU32::new(0);

const PARENT: i64 = 100;
const FTYPE: i64 = 101;
const OTHER: i64 = 199;

struct W {
    c: Conn,
    tag: String,
    cps: Vec<ByteString>, // number k (1-based) -> the bytes the server issued
}

fn tid(t: &str) -> ReferenceTypeId {
    match t {
        "HC" => ReferenceTypeId::HasComponent,
        "HP" => ReferenceTypeId::HasProperty,
        "TD" => ReferenceTypeId::HasTypeDefinition,
        _ => ReferenceTypeId::Organizes,
    }
}
fn tname(id: &NodeId) -> String {
    match id.as_reference_type_id() {
        Ok(ReferenceTypeId::HasComponent) => "HC".into(),
        Ok(ReferenceTypeId::HasProperty) => "HP".into(),
        Ok(ReferenceTypeId::Organizes) => "OR".into(),
        Ok(ReferenceTypeId::HasTypeDefinition) => "TD".into(),
        _ => format!("{}", id),
    }
}

impl W {
    fn nid(&self, a: i64) -> NodeId {
        if a == 0 {
            NodeId::new(2, self.tag.clone())
        } else if a == 9 {
            NodeId::new(2, "never-exists")
        } else {
            NodeId::new(2, format!("{}-c{}", self.tag, a))
        }
    }
    fn abs(&self, id: &NodeId) -> i64 {
        if *id == NodeId::objects_folder_id() {
            return PARENT;
        }
        if *id == Into::<NodeId>::into(ObjectTypeId::FolderType) {
            return FTYPE;
        }
        if id.namespace == 2 {
            if let Identifier::String(ref s) = id.identifier {
                let s = s.as_ref();
                if s == self.tag {
                    return 0;
                }
                if let Some(rest) = s.strip_prefix(&format!("{}-c", self.tag)) {
                    if let Ok(k) = rest.parse::<i64>() {
                        return k;
                    }
                }
            }
        }
        OTHER
    }
    fn refs_json(&self, refs: &Option<Vec<ReferenceDescription>>) -> Value {
        Value::Array(
            refs.as_ref()
                .map(|v| v.iter().map(|r| json!({"n": self.abs(&r.node_id.node_id), "t": tname(&r.reference_type_id), "f": r.is_forward})).collect())
                .unwrap_or_default(),
        )
    }
    /// number of a continuation point the server returned (0 = none)
    fn cp_no(&mut self, cp: &ByteString) -> i64 {
        if cp.is_null() {
            0
        } else {
            self.cps.push(cp.clone());
            self.cps.len() as i64
        }
    }
    fn cp_bytes(&self, k: i64) -> ByteString {
        if k >= 1 && (k as usize) <= self.cps.len() {
            self.cps[k as usize - 1].clone()
        } else {
            ByteString::from(vec![0xde, 0xad, 0xbe, 0xef, 0x00, k as u8])
        }
    }
    /// what a client can see of the universe: existing nodes and the references of F, without any service call
    fn proj(&self, k: i64) -> Value {
        let a = self.c.address_space.read();
        let mut nodes = Vec::new();
        for x in 0..=k {
            if a.node_exists(&self.nid(x)) {
                nodes.push(x);
            }
        }
        let none: Option<(ReferenceTypeId, bool)> = None;
        let refs: Vec<Value> = a
            .find_references(&self.nid(0), none)
            .unwrap_or_default()
            .iter()
            .map(|r| json!([tname(&r.reference_type), self.abs(&r.target_node)]))
            .collect();
        json!({"nodes": nodes, "refs": refs})
    }

    fn browse(&mut self, s: &Value, page: u32) -> (String, Option<Vec<ReferenceDescription>>, ByteString) {
        let (rt, sub) = match gets(s, "filt") {
            "OR" => (Into::<NodeId>::into(ReferenceTypeId::Organizes), false),
            "HC" => (Into::<NodeId>::into(ReferenceTypeId::HasComponent), false),
            "HIER" => (Into::<NodeId>::into(ReferenceTypeId::HierarchicalReferences), true),
            _ => (NodeId::null(), true),
        };
        let mask = match gets(s, "mask") {
            "Object" => NodeClassMask::OBJECT.bits(),
            "Variable" => NodeClassMask::VARIABLE.bits(),
            _ => 0,
        };
        let req = BrowseRequest {
            request_header: self.c.header(),
            view: ViewDescription { view_id: NodeId::null(), timestamp: DateTime::null(), view_version: 0 },
            requested_max_references_per_node: page,
            nodes_to_browse: Some(vec![BrowseDescription {
                node_id: self.nid(geti(s, "node")),
                browse_direction: match gets(s, "dir") {
                    "Forward" => BrowseDirection::Forward,
                    "Inverse" => BrowseDirection::Inverse,
                    _ => BrowseDirection::Both,
                },
                reference_type_id: rt,
                include_subtypes: sub,
                node_class_mask: mask,
                result_mask: 0x3f,
            }]),
        };
        match self.c.call1(req.into()) {
            SupportedMessage::BrowseResponse(r) => match r.results.unwrap_or_default().into_iter().next() {
                Some(r0) => (r0.status_code.name().to_string(), r0.references, r0.continuation_point),
                None => ("?".into(), None, ByteString::null()),
            },
            SupportedMessage::ServiceFault(f) => (f.response_header.service_result.name().to_string(), None, ByteString::null()),
            _ => ("?".into(), None, ByteString::null()),
        }
    }

    fn browse_next(&mut self, cp: ByteString, release: bool) -> (String, Option<Vec<ReferenceDescription>>, ByteString) {
        let req = BrowseNextRequest {
            request_header: self.c.header(),
            release_continuation_points: release,
            continuation_points: Some(vec![cp]),
        };
        match self.c.call1(req.into()) {
            SupportedMessage::BrowseNextResponse(r) => match r.results {
                None => ("NoResult".into(), None, ByteString::null()),
                Some(v) => match v.into_iter().next() {
                    Some(r0) => (r0.status_code.name().to_string(), r0.references, r0.continuation_point),
                    None => ("NoResult".into(), None, ByteString::null()),
                },
            },
            SupportedMessage::ServiceFault(f) => (f.response_header.service_result.name().to_string(), None, ByteString::null()),
            _ => ("?".into(), None, ByteString::null()),
        }
    }

    fn modify(&mut self, s: &Value) -> String {
        let first = |v: Option<Vec<StatusCode>>| v.unwrap_or_default().first().map(|s| s.name().to_string()).unwrap_or("?".into());
        let n = geti(s, "n");
        match gets(s, "kind") {
            k @ ("AddNode" | "AddNodeNoParent") => {
                let name = format!("c{}", n);
                let item = AddNodesItem {
                    parent_node_id: self.nid(if k == "AddNode" { 0 } else { 9 }).into(),
                    reference_type_id: tid(gets(s, "t")).into(),
                    requested_new_node_id: self.nid(n).into(),
                    browse_name: QualifiedName::from(name.as_str()),
                    node_class: NodeClass::Object,
                    node_attributes: ExtensionObject::from_encodable(
                        ObjectId::ObjectAttributes_Encoding_DefaultBinary,
                        &ObjectAttributes {
                            specified_attributes: (AttributesMask::DISPLAY_NAME | AttributesMask::DESCRIPTION | AttributesMask::EVENT_NOTIFIER
                                | AttributesMask::WRITE_MASK | AttributesMask::USER_WRITE_MASK).bits(),
                            display_name: LocalizedText::from(name.as_str()),
                            description: LocalizedText::from(""),
                            write_mask: 0,
                            user_write_mask: 0,
                            event_notifier: 0,
                        },
                    ),
                    type_definition: ObjectTypeId::BaseObjectType.into(),
                };
                let req = AddNodesRequest { request_header: self.c.header(), nodes_to_add: Some(vec![item]) };
                match self.c.call1(req.into()) {
                    SupportedMessage::AddNodesResponse(r) => {
                        r.results.unwrap_or_default().first().map(|r| r.status_code.name().to_string()).unwrap_or("?".into())
                    }
                    SupportedMessage::ServiceFault(f) => f.response_header.service_result.name().to_string(),
                    _ => "?".into(),
                }
            }
            "AddRef" => {
                let class = {
                    let a = self.c.address_space.read();
                    a.find_node(&self.nid(n)).map(|x| x.node_class()).unwrap_or(NodeClass::Object)
                };
                let item = AddReferencesItem {
                    source_node_id: self.nid(0),
                    reference_type_id: tid(gets(s, "t")).into(),
                    is_forward: true,
                    target_server_uri: UAString::null(),
                    target_node_id: self.nid(n).into(),
                    target_node_class: class,
                };
                let req = AddReferencesRequest { request_header: self.c.header(), references_to_add: Some(vec![item]) };
                match self.c.call1(req.into()) {
                    SupportedMessage::AddReferencesResponse(r) => first(r.results),
                    SupportedMessage::ServiceFault(f) => f.response_header.service_result.name().to_string(),
                    _ => "?".into(),
                }
            }
            "DelNode" => {
                let item = DeleteNodesItem { node_id: self.nid(n), delete_target_references: true };
                let req = DeleteNodesRequest { request_header: self.c.header(), nodes_to_delete: Some(vec![item]) };
                match self.c.call1(req.into()) {
                    SupportedMessage::DeleteNodesResponse(r) => first(r.results),
                    SupportedMessage::ServiceFault(f) => f.response_header.service_result.name().to_string(),
                    _ => "?".into(),
                }
            }
            "DelRef" => {
                let item = DeleteReferencesItem {
                    source_node_id: self.nid(0),
                    reference_type_id: tid(gets(s, "t")).into(),
                    is_forward: true,
                    target_node_id: self.nid(n).into(),
                    delete_bidirectional: false,
                };
                let req = DeleteReferencesRequest { request_header: self.c.header(), references_to_delete: Some(vec![item]) };
                match self.c.call1(req.into()) {
                    SupportedMessage::DeleteReferencesResponse(r) => first(r.results),
                    SupportedMessage::ServiceFault(f) => f.response_header.service_result.name().to_string(),
                    _ => "?".into(),
                }
            }
            _ => "?".into(),
        }
    }
}

/// executes one step; returns the output fields of the observation record
fn step(w: &mut W, s: &Value, kmax: i64) -> Value {
    match gets(s, "ev") {
        "Browse" => {
            // the unlimited result in the same address space state, right before the call itself
            let (fstatus, full, fcp) = w.browse(s, 0);
            let full_j = w.refs_json(&full);
            let fcp_set = !fcp.is_null();
            let (status, refs, cp) = w.browse(s, geti(s, "page") as u32);
            let refs_j = w.refs_json(&refs);
            let ncp = w.cp_no(&cp);
            json!({"status": status, "refs": refs_j, "ncp": ncp, "fstatus": if fcp_set { "unlimited-browse-was-paged".to_string() } else { fstatus }, "full": full_j})
        }
        "Next" => {
            let cp = w.cp_bytes(geti(s, "cp"));
            let (status, refs, ncp) = w.browse_next(cp, getb(s, "rel"));
            let refs_j = w.refs_json(&refs);
            let ncp = w.cp_no(&ncp);
            json!({"status": status, "refs": refs_j, "ncp": ncp})
        }
        "Modify" => {
            // the modification happens unambiguously later than every continuation point was made (wall clock stamps)
            std::thread::sleep(std::time::Duration::from_millis(1));
            let before = w.proj(kmax);
            let status = w.modify(s);
            let after = w.proj(kmax);
            json!({"status": status, "changed": before != after})
        }
        "Probe" => {
            let last = w.cps.len() as i64;
            let mut ngood = 0;
            for k in 1..=last {
                let cp = w.cp_bytes(k);
                let (status, _, ncp) = w.browse_next(cp, false);
                if status == "Good" {
                    ngood += 1;
                }
                let _ = ncp;
            }
            json!({"status": "Good", "cp": last, "ngood": ngood})
        }
        _ => json!({"status": "?"}),
    }
}

pub fn run_case(case: &Value, out: &mut Obs) {
    let cid = case.get("case").cloned().unwrap_or(Value::Null);
    let kmax = case.get("k").and_then(|v| v.as_i64()).unwrap_or(8);
    SRV.with(|srv| {
        let mut c = srv.connect();
        if !c.open_session() {
            out.push(json!({"case": cid, "i": 1, "ev": "Setup", "fail": "setup", "site": "open_session"}));
            return;
        }
        let n = CASE_NO.fetch_add(1, Ordering::SeqCst);
        let tag = format!("F{}-{}", std::process::id(), n);
        let mut w = W { c, tag, cps: Vec::new() };
        let empty = vec![];
        {
            let a = srv.server.address_space();
            let mut a = a.write();
            let _ = a.add_folder_with_id(&w.nid(0), format!("F{}", n), format!("F{}", n), &NodeId::objects_folder_id());
            for (i, kid) in case.get("kids").and_then(|s| s.as_array()).unwrap_or(&empty).iter().enumerate() {
                let id = w.nid(i as i64 + 1);
                let name = format!("c{}", i + 1);
                if gets(kid, "c") == "Variable" {
                    let b = VariableBuilder::new(&id, name.as_str(), name.as_str()).data_type(DataTypeId::Int32).value(0i32);
                    let b = match gets(kid, "t") {
                        "HC" => b.component_of(w.nid(0)),
                        "HP" => b.property_of(w.nid(0)),
                        _ => b.organized_by(w.nid(0)),
                    };
                    let _ = b.insert(&mut a);
                } else {
                    let b = ObjectBuilder::new(&id, name.as_str(), name.as_str());
                    let b = match gets(kid, "t") {
                        "HC" => b.component_of(w.nid(0)),
                        "HP" => b.property_of(w.nid(0)),
                        _ => b.organized_by(w.nid(0)),
                    };
                    let _ = b.insert(&mut a);
                }
            }
        }
        for (i, s) in case.get("steps").and_then(|s| s.as_array()).unwrap_or(&empty).iter().enumerate() {
            let r = guard(|| step(&mut w, s, kmax));
            let mut o = s.clone();
            let obj = o.as_object_mut().unwrap();
            obj.insert("case".into(), cid.clone());
            obj.insert("i".into(), json!(i + 1));
            let failed = r.is_err();
            match r {
                Ok(v) => {
                    obj.insert("fail".into(), json!("none"));
                    obj.insert("site".into(), json!(""));
                    // defaults for the output fields a call does not produce
                    obj.insert("refs".into(), json!([]));
                    obj.insert("ncp".into(), json!(0));
                    obj.insert("fstatus".into(), json!(""));
                    obj.insert("full".into(), json!([]));
                    obj.insert("changed".into(), json!(false));
                    obj.insert("ngood".into(), json!(0));
                    for (k, x) in v.as_object().unwrap() {
                        obj.insert(k.clone(), x.clone());
                    }
                }
                Err(site) => {
                    obj.insert("fail".into(), json!("panic"));
                    obj.insert("site".into(), json!(crate::e_attr::ascii_site(&site)));
                    obj.insert("status".into(), json!("?"));
                }
            }
            out.push(o);
            if failed {
                break;
            }
        }
        // leave nothing behind for the next case
        let _ = guard(|| {
            let a = srv.server.address_space();
            let mut a = a.write();
            for x in (0..=kmax).rev() {
                let _ = a.delete(&w.nid(x), true);
            }
        });
        let _ = guard(|| w.c.close());
    });
}
