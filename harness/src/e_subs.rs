//! Engine `subs`: replays behaviours of Subscription.tla on a real server connection
//! (real MessageHandler, Session, Subscriptions, Subscription, MonitoredItem, AddressSpace).
use crate::srv::*;
use crate::util::*;
use crate::Obs;
use chrono::{DateTime as CDateTime, Duration as CDuration, Utc};
use opcua::core::supported_message::SupportedMessage;
use opcua::server::prelude::*;
use opcua::server::subscriptions::monitored_item::Notification;
use serde_json::{json, Value};
use std::collections::HashMap;

pub const UNIT_MS: i64 = 1000;

thread_local! {
    static SRV: Srv = {
        let s = Srv::new();
        // variables v1..v4 (Int32) under Objects
        {
            let a = s.server.address_space();
            let mut a = a.write();
            for i in 1..=4 {
                let id = NodeId::new(2, format!("v{}", i));
                let _ = VariableBuilder::new(&id, format!("v{}", i), "")
                    .data_type(DataTypeId::Int32)
                    .organized_by(ObjectId::ObjectsFolder)
                    .value(0i32)
                    .insert(&mut a);
            }
        }
        s
    };
}

pub fn node(n: i64) -> NodeId {
    NodeId::new(2, format!("v{}", n))
}

struct World {
    c: Conn,
    base: CDateTime<Utc>,
    now: i64,
    sub_real: HashMap<i64, u32>,
    sub_model: HashMap<u32, i64>,
    item_samp: HashMap<(i64, i64), i64>,
    /// microseconds per model clock unit (case field `unit_us`, default one second)
    unit_us: i64,
}

fn real_item(w: &World, sm: i64, id: u32, item: i64) -> u32 {
    // find the real monitored item id through the client handle
    let want = (sm * 100 + item) as u32;
    let mut real_item = 0;
    if let Some(sess) = w.c.session() {
        let sess = sess.read();
        for x in sess.verif_subscriptions().subscriptions.iter().filter(|x| x.id == id) {
            for it in &x.items {
                if it.client_handle == want {
                    real_item = it.id;
                }
            }
        }
    }
    real_item
}

impl World {
    fn at(&self, t: i64) -> CDateTime<Utc> {
        self.base + CDuration::microseconds(t * self.unit_us)
    }

    fn variant_int(v: &Option<Variant>) -> i64 {
        match v {
            Some(Variant::Int32(i)) => *i as i64,
            Some(Variant::Int64(i)) => *i,
            Some(Variant::Double(d)) => *d as i64,
            _ => -1,
        }
    }

    fn resp(&self, req: u32, m: &SupportedMessage) -> Value {
        match m {
            SupportedMessage::PublishResponse(r) => {
                let sub = *self.sub_model.get(&r.subscription_id).unwrap_or(&0);
                let nm = &r.notification_message;
                let opts = DecodingOptions::default();
                let mut kind = "KA";
                let mut vals: Vec<(i64, Vec<Value>)> = Vec::new();
                if let Some(nd) = &nm.notification_data {
                    for n in nd {
                        if let Ok(oid) = n.node_id.as_object_id() {
                            match oid {
                                ObjectId::DataChangeNotification_Encoding_DefaultBinary => {
                                    kind = "DATA";
                                    if let Ok(dc) = n.decode_inner::<DataChangeNotification>(&opts) {
                                        for mi in dc.monitored_items.unwrap_or_default() {
                                            let item = (mi.client_handle % 100) as i64;
                                            let ovf = mi.value.status().contains(StatusCode::OVERFLOW);
                                            let v = json!([Self::variant_int(&mi.value.value), if ovf { 1 } else { 0 }]);
                                            if let Some(e) = vals.iter_mut().find(|e| e.0 == item) {
                                                e.1.push(v);
                                            } else {
                                                vals.push((item, vec![v]));
                                            }
                                        }
                                    }
                                }
                                ObjectId::StatusChangeNotification_Encoding_DefaultBinary => kind = "STATUS",
                                ObjectId::EventNotificationList_Encoding_DefaultBinary => kind = "EVENT",
                                _ => {}
                            }
                        }
                    }
                }
                vals.sort_by_key(|e| e.0);
                let vals: Vec<Value> = vals.into_iter().map(|(i, v)| json!([i, v])).collect();
                json!({"req": req, "k": kind, "sub": sub, "seq": nm.sequence_number, "vals": vals,
                       "more": r.more_notifications,
                       "avail": r.available_sequence_numbers.clone().unwrap_or_default(),
                       "res": r.results.clone().unwrap_or_default().iter().map(|s| s.name()).collect::<Vec<_>>(),
                       "code": "Good"})
            }
            SupportedMessage::ServiceFault(f) => {
                json!({"req": req, "k": "FAULT", "sub": 0, "seq": 0, "vals": [], "more": false, "avail": [], "res": [],
                       "code": f.response_header.service_result.name()})
            }
            _ => json!({"req": req, "k": "OTHER", "sub": 0, "seq": 0, "vals": [], "more": false, "avail": [], "res": [], "code": "?"}),
        }
    }

    fn proj(&self) -> Value {
        let s = match self.c.session() {
            Some(s) => s,
            None => return json!({"subs": [], "reqs": [], "nresp": 0, "retx": []}),
        };
        let s = s.read();
        let snap = s.verif_subscriptions();
        let mut subs: Vec<(i64, Value)> = snap
            .subscriptions
            .iter()
            .map(|x| {
                let id = *self.sub_model.get(&x.id).unwrap_or(&0);
                let mut items: Vec<(i64, Value)> = x
                    .items
                    .iter()
                    .map(|it| {
                        let q: Vec<Value> = it
                            .queue
                            .iter()
                            .map(|n| match n {
                                Notification::MonitoredItemNotification(m) => {
                                    let ovf = m.value.status().contains(StatusCode::OVERFLOW);
                                    json!([Self::variant_int(&m.value.value), if ovf { 1 } else { 0 }])
                                }
                                _ => json!([-2, 0]),
                            })
                            .collect();
                        let last = it.last.as_ref().map(|d| Self::variant_int(&d.value)).unwrap_or(-1);
                        let iid = (it.client_handle % 100) as i64;
                        (iid, json!({"id": iid, "q": q, "last": last, "qsize": it.queue_size}))
                    })
                    .collect();
                items.sort_by_key(|e| e.0);
                (
                    id,
                    json!({"id": id, "st": x.state, "ka": x.keep_alive_counter, "lt": x.lifetime_counter,
                           "first": x.first_message_sent, "en": x.publishing_enabled, "nq": x.notifications,
                           "seq": x.next_sequence_number,
                           "items": items.into_iter().map(|e| e.1).collect::<Vec<_>>()}),
                )
            })
            .collect();
        subs.sort_by_key(|e| e.0);
        let mut retx: Vec<(i64, u32)> = snap
            .retransmission
            .iter()
            .map(|(s, q)| (*self.sub_model.get(s).unwrap_or(&0), *q))
            .collect();
        retx.sort();
        json!({"subs": subs.into_iter().map(|e| e.1).collect::<Vec<_>>(),
               "reqs": snap.publish_requests, "nresp": snap.publish_responses,
               "retx": retx.iter().map(|(a, b)| json!([a, b])).collect::<Vec<_>>()})
    }
}

fn step(w: &mut World, s: &Value) -> (Vec<Value>, Vec<Value>) {
    // returns (pre, out)
    let ev = gets(s, "ev");
    match ev {
        "CreateSub" => {
            let req = CreateSubscriptionRequest {
                request_header: w.c.header(),
                requested_publishing_interval: (geti(s, "itv") * w.unit_us) as f64 / 1000.0,
                requested_lifetime_count: geti(s, "lt") as u32,
                requested_max_keep_alive_count: geti(s, "ka") as u32,
                max_notifications_per_publish: 0,
                publishing_enabled: getb(s, "en"),
                priority: geti(s, "prio") as u8,
            };
            if let SupportedMessage::CreateSubscriptionResponse(r) = w.c.call1(req.into()) {
                let m = geti(s, "sub");
                w.sub_real.insert(m, r.subscription_id);
                w.sub_model.insert(r.subscription_id, m);
                let now = w.at(w.now);
                if let Some(sess) = w.c.session() {
                    sess.write().verif_set_clock(r.subscription_id, &now);
                }
            }
            (vec![], vec![])
        }
        "DeleteSub" => {
            let id = *w.sub_real.get(&geti(s, "sub")).unwrap_or(&0);
            let req = DeleteSubscriptionsRequest { request_header: w.c.header(), subscription_ids: Some(vec![id]) };
            let _ = w.c.call1(req.into());
            (vec![], vec![])
        }
        "ModifySub" => {
            let id = *w.sub_real.get(&geti(s, "sub")).unwrap_or(&0);
            let req = ModifySubscriptionRequest {
                request_header: w.c.header(),
                subscription_id: id,
                requested_publishing_interval: (geti(s, "itv") * w.unit_us) as f64 / 1000.0,
                requested_lifetime_count: geti(s, "lt") as u32,
                requested_max_keep_alive_count: geti(s, "ka") as u32,
                max_notifications_per_publish: 0,
                priority: geti(s, "prio") as u8,
            };
            let _ = w.c.call1(req.into());
            (vec![], vec![])
        }
        "SetPubMode" => {
            let id = *w.sub_real.get(&geti(s, "sub")).unwrap_or(&0);
            let req = SetPublishingModeRequest {
                request_header: w.c.header(),
                publishing_enabled: getb(s, "en"),
                subscription_ids: Some(vec![id]),
            };
            let _ = w.c.call1(req.into());
            (vec![], vec![])
        }
        "CreateItem" => {
            let sm = geti(s, "sub");
            let id = *w.sub_real.get(&sm).unwrap_or(&0);
            let mode = match gets(s, "mode") {
                "Sampling" => MonitoringMode::Sampling,
                "Disabled" => MonitoringMode::Disabled,
                _ => MonitoringMode::Reporting,
            };
            let samp = geti(s, "samp");
            w.item_samp.insert((sm, geti(s, "item")), samp);
            let item = MonitoredItemCreateRequest {
                item_to_monitor: ReadValueId {
                    node_id: node(geti(s, "node")),
                    attribute_id: AttributeId::Value as u32,
                    index_range: UAString::null(),
                    data_encoding: QualifiedName::null(),
                },
                monitoring_mode: mode,
                requested_parameters: MonitoringParameters {
                    client_handle: (sm * 100 + geti(s, "item")) as u32,
                    sampling_interval: if samp < 0 { -1.0 } else { (samp * w.unit_us) as f64 / 1000.0 },
                    filter: ExtensionObject::null(),
                    queue_size: geti(s, "qsize") as u32,
                    discard_oldest: getb(s, "dold"),
                },
            };
            let req = CreateMonitoredItemsRequest {
                request_header: w.c.header(),
                subscription_id: id,
                timestamps_to_return: TimestampsToReturn::Both,
                items_to_create: Some(vec![item]),
            };
            let _ = w.c.call1(req.into());
            let now = w.at(w.now);
            if let Some(sess) = w.c.session() {
                sess.write().verif_set_new_items_clock(id, &now);
            }
            (vec![], vec![])
        }
        "DeleteItem" => {
            let sm = geti(s, "sub");
            let id = *w.sub_real.get(&sm).unwrap_or(&0);
            let real_item = real_item(w, sm, id, geti(s, "item"));
            let req = DeleteMonitoredItemsRequest {
                request_header: w.c.header(),
                subscription_id: id,
                monitored_item_ids: Some(vec![real_item]),
            };
            let _ = w.c.call1(req.into());
            (vec![], vec![])
        }
        "ModifyItem" => {
            let sm = geti(s, "sub");
            let id = *w.sub_real.get(&sm).unwrap_or(&0);
            let item = geti(s, "item");
            let ri = real_item(w, sm, id, item);
            let samp = *w.item_samp.get(&(sm, item)).unwrap_or(&-1);
            let req = ModifyMonitoredItemsRequest {
                request_header: w.c.header(),
                subscription_id: id,
                timestamps_to_return: TimestampsToReturn::Both,
                items_to_modify: Some(vec![MonitoredItemModifyRequest {
                    monitored_item_id: ri,
                    requested_parameters: MonitoringParameters {
                        client_handle: (sm * 100 + item) as u32,
                        sampling_interval: if samp < 0 { -1.0 } else { (samp * w.unit_us) as f64 / 1000.0 },
                        filter: ExtensionObject::null(),
                        queue_size: geti(s, "qsize") as u32,
                        discard_oldest: getb(s, "dold"),
                    },
                }]),
            };
            let _ = w.c.call1(req.into());
            (vec![], vec![])
        }
        "SetMode" => {
            let sm = geti(s, "sub");
            let id = *w.sub_real.get(&sm).unwrap_or(&0);
            let ri = real_item(w, sm, id, geti(s, "item"));
            let req = SetMonitoringModeRequest {
                request_header: w.c.header(),
                subscription_id: id,
                monitoring_mode: match gets(s, "mode") {
                    "Sampling" => MonitoringMode::Sampling,
                    "Disabled" => MonitoringMode::Disabled,
                    _ => MonitoringMode::Reporting,
                },
                monitored_item_ids: Some(vec![ri]),
            };
            let _ = w.c.call1(req.into());
            (vec![], vec![])
        }
        "Write" => {
            let a = w.c.address_space.clone();
            let mut a = a.write();
            let now = opcua::types::DateTime::from(w.at(w.now));
            let _ = a.set_variable_value(node(geti(s, "node")), geti(s, "v") as i32, &now, &now);
            (vec![], vec![])
        }
        "Pub" => {
            let acks: Vec<SubscriptionAcknowledgement> = s["acks"]
                .as_array()
                .map(|a| {
                    a.iter()
                        .map(|p| SubscriptionAcknowledgement {
                            subscription_id: *w.sub_real.get(&p[0].as_i64().unwrap_or(0)).unwrap_or(&999_999),
                            sequence_number: p[1].as_i64().unwrap_or(0) as u32,
                        })
                        .collect()
                })
                .unwrap_or_default();
            let mut h = w.c.header();
            h.timestamp = opcua::types::DateTime::from(w.at(geti(s, "ts")));
            h.timeout_hint = (geti(s, "hint") * w.unit_us / 1000) as u32;
            let req = PublishRequest {
                request_header: h,
                subscription_acknowledgements: if acks.is_empty() { None } else { Some(acks) },
            };
            let id = geti(s, "req") as u32;
            let now = w.at(w.now);
            let (_r, out) = w.c.t.verif_publish_at(&now, id, &req.into());
            let out = out.iter().map(|(id, m)| w.resp(*id, m)).collect();
            (vec![], out)
        }
        "Tick" => {
            let t = geti(s, "t");
            w.now = t;
            let now = w.at(t);
            let pre: Vec<(u32, SupportedMessage)> = match w.c.session() {
                Some(sess) => sess.write().verif_take_publish_responses(),
                None => vec![],
            };
            let pre = pre.iter().map(|(id, m)| w.resp(*id, m)).collect();
            let (_r, out) = w.c.t.verif_tick(&now);
            let out = out.iter().map(|(id, m)| w.resp(*id, m)).collect();
            (pre, out)
        }
        "Republish" => {
            let id = *w.sub_real.get(&geti(s, "sub")).unwrap_or(&999_999);
            let req = RepublishRequest {
                request_header: w.c.header(),
                subscription_id: id,
                retransmit_sequence_number: geti(s, "seq") as u32,
            };
            let r = w.c.call1(req.into());
            let o = match &r {
                SupportedMessage::RepublishResponse(r) => {
                    // reuse the publish-response rendering
                    let pr = PublishResponse {
                        response_header: r.response_header.clone(),
                        subscription_id: id,
                        available_sequence_numbers: None,
                        more_notifications: false,
                        notification_message: r.notification_message.clone(),
                        results: None,
                        diagnostic_infos: None,
                    };
                    let mut v = w.resp(0, &pr.into());
                    v["avail"] = json!([]);
                    v
                }
                other => w.resp(0, other),
            };
            (vec![], vec![o])
        }
        _ => (vec![], vec![]),
    }
}

/// case = {"case": id, "steps": [ {ev, args...}, ... ]}
pub fn run_case(case: &Value, out: &mut Obs) {
    let cid = case.get("case").cloned().unwrap_or(Value::Null);
    SRV.with(|srv| {
        // reset the variables
        {
            let a = srv.server.address_space();
            let mut a = a.write();
            let now = opcua::types::DateTime::now();
            for i in 1..=4 {
                let _ = a.set_variable_value(node(i), 0i32, &now, &now);
            }
        }
        let mut c = srv.connect();
        if !c.open_session() {
            out.push(json!({"case": cid, "i": 1, "ev": "Setup", "fail": "setup", "site": "open_session", "pre": [], "out": [],
                            "st": {"subs": [], "reqs": [], "nresp": 0, "retx": []}}));
            return;
        }
        // whole seconds: OPC UA DateTime has 100 ns ticks, the clock must survive the conversion exactly
        let base = CDateTime::<Utc>::from_timestamp(Utc::now().timestamp(), 0).unwrap();
        let unit_us = case.get("unit_us").and_then(|v| v.as_i64()).unwrap_or(UNIT_MS * 1000);
        let mut w = World { c, base, now: 0, sub_real: HashMap::new(), sub_model: HashMap::new(), item_samp: HashMap::new(), unit_us };
        let empty = vec![];
        let steps = case.get("steps").and_then(|s| s.as_array()).unwrap_or(&empty);
        for (i, s) in steps.iter().enumerate() {
            let r = guard(|| step(&mut w, s));
            let mut o = s.clone();
            let obj = o.as_object_mut().unwrap();
            obj.insert("case".into(), cid.clone());
            obj.insert("i".into(), json!(i + 1));
            match r {
                Ok((pre, outp)) => {
                    obj.insert("fail".into(), json!("none"));
                    obj.insert("site".into(), json!(""));
                    obj.insert("pre".into(), json!(pre));
                    obj.insert("out".into(), json!(outp));
                }
                Err(site) => {
                    obj.insert("fail".into(), json!("panic"));
                    obj.insert("site".into(), json!(site_sig(&site)));
                    obj.insert("pre".into(), json!([]));
                    obj.insert("out".into(), json!([]));
                }
            }
            let st = guard(|| w.proj()).unwrap_or_else(|_| json!({"subs": [], "reqs": [], "nresp": 0, "retx": []}));
            obj.insert("st".into(), st);
            let failed = obj["fail"] != "none";
            out.push(o);
            if failed {
                break; // locks may be poisoned/held: the rest of the case is not meaningful
            }
        }
        let _ = guard(|| w.c.close());
    });
}
