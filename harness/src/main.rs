//! conform — executes TLC-generated cases against the real opcua crate and records observations.
//!
//!   conform run <engine> <cases.ndjson> <obs.ndjson>
//!   conform child <engine> <cases.ndjson> <obs.ndjson>   (one case per process, wall-clock limit)
//!   conform one <engine>                                  (stdin: one case, stdout: observations)
mod util;
mod srv;
mod e_subs;
mod e_revise;
mod e_filter;
mod e_aspace;
mod e_nodemgmt;
mod e_handshake;
mod e_renew;
mod e_renewsend;
mod e_locks;
mod e_services;
mod e_lockconfirm;

use serde_json::Value;
use std::io::{BufRead, BufReader, BufWriter, Write};

/// Observation sink: buffered in `run` mode, streamed line by line in `one` mode (so that an abort of the
/// process loses nothing that was already observed).
pub struct Obs {
    pub buf: Vec<Value>,
    stream: bool,
}

impl Obs {
    pub fn new(stream: bool) -> Obs {
        Obs { buf: Vec::new(), stream }
    }
    pub fn push(&mut self, v: Value) {
        if self.stream {
            let so = std::io::stdout();
            let mut so = so.lock();
            let _ = writeln!(so, "{}", v);
            let _ = so.flush();
        } else {
            self.buf.push(v);
        }
    }
}

fn run_case(engine: &str, case: &Value, out: &mut Obs) {
    match engine {
        "subs" => e_subs::run_case(case, out),
        "revise" => e_revise::run_case(case, out),
        "filter" => e_filter::run_case(case, out),
        "aspace" => e_aspace::run_case(case, out),
        "nodemgmt" => e_nodemgmt::run_case(case, out),
        "handshake" => e_handshake::run_case(case, out),
        "renew" => e_renew::run_case(case, out),
        "renewsend" => e_renewsend::run_case(case, out),
        "locks" => e_locks::run_case(case, out),
        "services" => e_services::run_case(case, out),
        "lockconfirm" => e_lockconfirm::run_case(case, out),
        _ => {
            eprintln!("unknown engine {}", engine);
            std::process::exit(2);
        }
    }
}

fn main() {
    let args: Vec<String> = std::env::args().collect();
    if args.len() < 3 {
        eprintln!("usage: conform run|child|one <engine> [cases obs]");
        std::process::exit(2);
    }
    util::install_panic_hook();
    let mode = args[1].as_str();
    let engine = args[2].as_str();
    match mode {
        "run" => {
            let inp = BufReader::new(std::fs::File::open(&args[3]).expect("cases"));
            let mut outp = BufWriter::new(std::fs::File::create(&args[4]).expect("obs"));
            // VERIF_CASE_MS: a case that runs longer ends the process with exit code 3 (the records of the finished
            // cases are on disk; the driver re-runs the unfinished case on its own and the rest in a new process)
            let started = std::sync::Arc::new(std::sync::atomic::AtomicU64::new(0));
            let t0 = std::time::Instant::now();
            if let Some(ms) = std::env::var("VERIF_CASE_MS").ok().and_then(|s| s.parse::<u64>().ok()) {
                let st = started.clone();
                std::thread::spawn(move || loop {
                    std::thread::sleep(std::time::Duration::from_millis(100));
                    let s = st.load(std::sync::atomic::Ordering::SeqCst);
                    if s > 0 && (t0.elapsed().as_millis() as u64) > s + ms {
                        eprintln!("HANG: a case exceeded {} ms", ms);
                        std::process::exit(3);
                    }
                });
            }
            for line in inp.lines() {
                let line = line.unwrap();
                if line.trim().is_empty() {
                    continue;
                }
                let case: Value = serde_json::from_str(&line).expect("case json");
                let mut obs = Obs::new(false);
                started.store(t0.elapsed().as_millis() as u64 + 1, std::sync::atomic::Ordering::SeqCst);
                run_case(engine, &case, &mut obs);
                started.store(0, std::sync::atomic::Ordering::SeqCst);
                for o in obs.buf {
                    writeln!(outp, "{}", o).unwrap();
                }
                outp.flush().unwrap();
            }
        }
        "one" => {
            let mut s = String::new();
            std::io::stdin().read_line(&mut s).unwrap();
            let case: Value = serde_json::from_str(&s).expect("case json");
            let mut obs = Obs::new(true);
            run_case(engine, &case, &mut obs);
        }
        "child" => {
            // one process per case; abort / timeout become observations
            let limit_ms: u64 = std::env::var("VERIF_CHILD_MS").ok().and_then(|s| s.parse().ok()).unwrap_or(10000);
            let inp = BufReader::new(std::fs::File::open(&args[3]).expect("cases"));
            let mut outp = BufWriter::new(std::fs::File::create(&args[4]).expect("obs"));
            let exe = std::env::current_exe().unwrap();
            for line in inp.lines() {
                let line = line.unwrap();
                if line.trim().is_empty() {
                    continue;
                }
                let case: Value = serde_json::from_str(&line).expect("case json");
                let cid = case.get("case").cloned().unwrap_or(Value::Null);
                let mut ch = std::process::Command::new(&exe)
                    .arg("one")
                    .arg(engine)
                    .stdin(std::process::Stdio::piped())
                    .stdout(std::process::Stdio::piped())
                    .stderr(std::process::Stdio::null())
                    .spawn()
                    .expect("spawn");
                {
                    let mut si = ch.stdin.take().unwrap();
                    let _ = writeln!(si, "{}", line);
                }
                let start = std::time::Instant::now();
                let mut status = None;
                // read stdout in a thread so that the child can not block on a full pipe
                let mut so = ch.stdout.take().unwrap();
                let reader = std::thread::spawn(move || {
                    let mut s = String::new();
                    use std::io::Read;
                    let _ = so.read_to_string(&mut s);
                    s
                });
                while start.elapsed().as_millis() < limit_ms as u128 {
                    match ch.try_wait() {
                        Ok(Some(st)) => {
                            status = Some(st);
                            break;
                        }
                        _ => std::thread::sleep(std::time::Duration::from_millis(2)),
                    }
                }
                let fail = match status {
                    None => {
                        let _ = ch.kill();
                        let _ = ch.wait();
                        Some("timeout")
                    }
                    Some(st) if !st.success() => Some("abort"),
                    _ => None,
                };
                let text = reader.join().unwrap_or_default();
                let mut n = 0;
                let mut last_st = case.get("st0").cloned().unwrap_or(Value::Null);
                for l in text.lines() {
                    if let Ok(v) = serde_json::from_str::<Value>(l) {
                        if let Some(st) = v.get("st") {
                            last_st = st.clone();
                        }
                        writeln!(outp, "{}", l).unwrap();
                        n += 1;
                    }
                }
                if let Some(f) = fail {
                    // the step that did not return: the call of the case that was being executed
                    let mut o = case
                        .get("steps")
                        .and_then(|s| s.as_array())
                        .and_then(|s| s.get(n))
                        .cloned()
                        .unwrap_or_else(|| serde_json::json!({"ev": "process"}));
                    if let Some(obj) = o.as_object_mut() {
                        obj.insert("case".into(), cid.clone());
                        obj.insert("i".into(), serde_json::json!(n + 1));
                        obj.insert("fail".into(), serde_json::json!(f));
                        obj.insert("site".into(), serde_json::json!(f));
                        obj.insert("found".into(), serde_json::json!(false));
                        obj.insert("pre".into(), serde_json::json!([]));
                        obj.insert("out".into(), serde_json::json!([]));
                        obj.insert("st".into(), last_st.clone());
                    }
                    writeln!(outp, "{}", o).unwrap();
                }
            }
        }
        _ => {
            eprintln!("unknown mode");
            std::process::exit(2);
        }
    }
}
