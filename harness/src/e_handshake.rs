//! Engine `handshake` (C15, C10): frames fed to a real server `TcpTransport` exactly as its reading task does.
use crate::srv::*;
use crate::util::*;
use crate::Obs;
use opcua::core::comms::prelude::*;
use opcua::core::supported_message::SupportedMessage;
use opcua::server::comms::transport::{Transport, TransportState};
use opcua::server::prelude::*;
use opcua::sync::RwLock;
use serde_json::{json, Value};
use std::cell::RefCell;
use std::collections::HashMap;
use std::sync::Arc;

thread_local! {
    static SRVS: RefCell<HashMap<(usize, usize), &'static Srv>> = RefCell::new(HashMap::new());
}

fn srv_for(max_chunks: usize, max_msg: usize) -> &'static Srv {
    SRVS.with(|m| {
        let mut m = m.borrow_mut();
        *m.entry((max_chunks, max_msg)).or_insert_with(|| {
            let b = Srv::builder().max_chunk_count(max_chunks).max_message_size(max_msg);
            Box::leak(Box::new(Srv::from_builder(b)))
        })
    })
}

const CHUNK: usize = 1024;

struct Cli {
    chan: SecureChannel,
    seq: u32,
    req: u32,
}

impl Cli {
    fn new(srv: &Srv) -> Cli {
        let cs = srv.server.certificate_store();
        let chan = SecureChannel::new(cs, Role::Client, DecodingOptions::default());
        Cli { chan, seq: 0, req: 0 }
    }
    fn header(&self) -> RequestHeader {
        RequestHeader {
            authentication_token: NodeId::null(),
            timestamp: DateTime::now(),
            request_handle: self.req + 1,
            return_diagnostics: DiagnosticBits::empty(),
            audit_entry_id: UAString::null(),
            timeout_hint: 0,
            additional_header: ExtensionObject::null(),
        }
    }
    fn one_chunk(&mut self, msg: SupportedMessage) -> Option<MessageChunk> {
        self.req += 1;
        self.seq += 1;
        Chunker::encode(self.seq, self.req, 0, 0, &self.chan, &msg).ok().and_then(|mut v| if v.is_empty() { None } else { Some(v.remove(0)) })
    }
    fn raw(&mut self, t: MessageChunkType, fin: MessageIsFinalType, new_msg: bool) -> Option<MessageChunk> {
        if new_msg {
            self.req += 1;
        }
        self.seq += 1;
        // pad the body so that the whole chunk is CHUNK bytes
        let probe = MessageChunk::new(self.seq, self.req, t, fin, &self.chan, &[]).ok()?;
        let body = vec![0u8; CHUNK.saturating_sub(probe.data.len())];
        MessageChunk::new(self.seq, self.req, t, fin, &self.chan, &body).ok()
    }
}

impl Cli {
    /// The pieces of ONE GetEndpoints request cut into exactly `m` chunks of CHUNK bytes each (the endpoint url is padded
    /// to make the last chunk as long as the others), so that the chunks reassemble into a request the server can answer.
    fn planned(&mut self, m: usize) -> Option<std::collections::VecDeque<MessageChunk>> {
        let req = |cli: &Cli, pad: usize| -> SupportedMessage {
            GetEndpointsRequest {
                request_header: cli.header(),
                endpoint_url: UAString::from(format!("{}/{}", ENDPOINT.trim_end_matches('/'), "x".repeat(pad))),
                locale_ids: None,
                profile_uris: None,
            }
            .into()
        };
        // the encoded request (type node id + body), as Chunker::encode makes it before cutting it up; the pieces are cut by
        // hand because Chunker refuses chunk sizes below the 8196 bytes of the specification
        let encoded = |msg: &SupportedMessage| -> Option<Vec<u8>> {
            let mut stream = std::io::Cursor::new(Vec::new());
            msg.node_id().encode(&mut stream).ok()?;
            msg.encode(&mut stream).ok()?;
            Some(stream.into_inner())
        };
        let hdr = MessageChunk::new(1, 1, MessageChunkType::Message, MessageIsFinalType::Final, &self.chan, &[]).ok()?.data.len();
        let total0 = encoded(&req(self, 0))?.len();
        let want = m * (CHUNK - hdr);
        if want < total0 {
            return None;
        }
        let data = encoded(&req(self, want - total0))?;
        let pieces: Vec<&[u8]> = data.chunks(CHUNK - hdr).collect();
        let mut chunks = Vec::new();
        for (k, piece) in pieces.iter().enumerate() {
            let fin = if k + 1 == pieces.len() { MessageIsFinalType::Final } else { MessageIsFinalType::Intermediate };
            chunks.push(MessageChunk::new(self.seq + 1 + k as u32, self.req + 1, MessageChunkType::Message, fin, &self.chan, piece).ok()?);
        }
        if chunks.len() != m || chunks.iter().any(|c| c.data.len() != CHUNK) {
            return None;
        }
        self.req += 1;
        self.seq += m as u32;
        Some(chunks.into_iter().collect())
    }
}

fn kind_of(m: &SupportedMessage) -> String {
    match m {
        SupportedMessage::AcknowledgeMessage(_) => "ACK".into(),
        SupportedMessage::OpenSecureChannelResponse(_) => "OPN".into(),
        SupportedMessage::GetEndpointsResponse(_) => "GetEndpointsResponse".into(),
        SupportedMessage::ServiceFault(_) => "ServiceFault".into(),
        SupportedMessage::ReadResponse(_) => "ReadResponse".into(),
        _ => "Other".into(),
    }
}

fn state_of(t: &opcua::server::comms::tcp_transport::TcpTransport) -> &'static str {
    match t.state() {
        TransportState::New | TransportState::WaitingHello => "WaitingHello",
        TransportState::ProcessMessages => "Process",
        TransportState::Finished(_) => "Finished",
    }
}

pub fn run_case(case: &Value, out: &mut Obs) {
    let cid = case.get("case").cloned().unwrap_or(Value::Null);
    let max_chunks = case.get("max_chunks").and_then(|v| v.as_u64()).unwrap_or(0) as usize;
    let max_msg = case.get("max_msg").and_then(|v| v.as_u64()).unwrap_or(0) as usize;
    let srv = srv_for(max_chunks, max_msg);
    let mut conn = srv.connect();
    let mut cli = Cli::new(srv);
    let mut in_msg = false; // an incomplete message is being sent (intermediate chunks)
    let mut planned: std::collections::VecDeque<MessageChunk> = std::collections::VecDeque::new();
    let empty = vec![];
    let steps_all = case.get("steps").and_then(|s| s.as_array()).unwrap_or(&empty);
    for (i, s) in case.get("steps").and_then(|s| s.as_array()).unwrap_or(&empty).iter().enumerate() {
        let kind = gets(s, "kind").to_string();
        let fl = gets(s, "fl").to_string();
        let svc = gets(s, "svc").to_string();
        let mut sz = 0usize;
        let r = guard(|| {
            if conn.t.is_finished() {
                return (false, vec![], "".to_string());
            }
            let waiting = state_of(&conn.t) == "WaitingHello";
            // what the codec hands to the reading task
            if kind == "HEL" {
                if !waiting {
                    // reading loop: anything but a chunk after the hello ends the connection
                    conn.t.finish(StatusCode::BadCommunicationError);
                    return (true, vec![], "error".to_string());
                }
                let hello = HelloMessage::new(ENDPOINT, 65535, 65535, 0, 0);
                let (r, o) = conn.t.verif_hello(hello);
                if let Err(e) = r {
                    conn.t.finish(e);
                    return (true, o.iter().map(|(_, m)| kind_of(m)).collect(), "error".to_string());
                }
                return (true, o.iter().map(|(_, m)| kind_of(m)).collect(), "".to_string());
            }
            if waiting {
                // wait_for_hello got something else
                conn.t.finish(StatusCode::BadCommunicationError);
                return (true, vec![], "error".to_string());
            }
            let fin = match fl.as_str() {
                "C" => MessageIsFinalType::Intermediate,
                "A" => MessageIsFinalType::FinalError,
                _ => MessageIsFinalType::Final,
            };
            let ctype = match kind.as_str() {
                "OPNI" | "OPNR" => MessageChunkType::OpenSecureChannel,
                "CLO" => MessageChunkType::CloseSecureChannel,
                _ => MessageChunkType::Message,
            };
            // MSGS: the chunk header carries a channel id this connection never issued
            let real_ids = (cli.chan.secure_channel_id(), cli.chan.token_id());
            if kind == "MSGS" {
                cli.chan.set_secure_channel_id(real_ids.0 + 7);
            }
            // intermediate MSG chunks that are followed by a final GetEndpoints chunk are the pieces of one real request
            if !in_msg && planned.is_empty() && kind == "MSG" && fl == "C" {
                let is = |x: &Value, k: &str, f: &str| gets(x, "kind") == k && gets(x, "fl") == f;
                let mut j = i;
                while j < steps_all.len() && is(&steps_all[j], "MSG", "C") {
                    j += 1;
                }
                if j < steps_all.len() && is(&steps_all[j], "MSG", "F") && gets(&steps_all[j], "svc") == "GetEndpoints" {
                    if let Some(p) = cli.planned(j - i + 1) {
                        planned = p;
                    }
                }
            }
            let chunk = if !planned.is_empty() && kind == "MSG" && fl != "A" {
                in_msg = fl == "C";
                planned.pop_front()
            } else if fl != "F" || in_msg {
                planned.clear();
                let c = cli.raw(ctype, fin, !in_msg);
                in_msg = fl == "C";
                c
            } else {
                let msg: SupportedMessage = match kind.as_str() {
                    "OPNI" | "OPNR" => OpenSecureChannelRequest {
                        request_header: cli.header(),
                        client_protocol_version: 0,
                        request_type: if kind == "OPNI" { SecurityTokenRequestType::Issue } else { SecurityTokenRequestType::Renew },
                        security_mode: MessageSecurityMode::None,
                        client_nonce: ByteString::null(),
                        requested_lifetime: 60000,
                    }
                    .into(),
                    "CLO" => CloseSecureChannelRequest { request_header: cli.header() }.into(),
                    _ => {
                        if svc == "Read" {
                            ReadRequest {
                                request_header: cli.header(),
                                max_age: 0.0,
                                timestamps_to_return: TimestampsToReturn::Both,
                                nodes_to_read: Some(vec![ReadValueId {
                                    node_id: VariableId::Server_ServerStatus_State.into(),
                                    attribute_id: AttributeId::Value as u32,
                                    index_range: UAString::null(),
                                    data_encoding: QualifiedName::null(),
                                }]),
                            }
                            .into()
                        } else {
                            GetEndpointsRequest {
                                request_header: cli.header(),
                                endpoint_url: UAString::from(ENDPOINT),
                                locale_ids: None,
                                profile_uris: None,
                            }
                            .into()
                        }
                    }
                };
                cli.one_chunk(msg)
            };
            cli.chan.set_secure_channel_id(real_ids.0);
            let chunk = match chunk {
                Some(c) => c,
                None => return (true, vec![], "harness-could-not-build-chunk".to_string()),
            };
            sz = chunk.data.len();
            if std::env::var("VERIF_DEBUG").is_ok() {
                let ms = u32::from_le_bytes([chunk.data[4], chunk.data[5], chunk.data[6], chunk.data[7]]);
                eprintln!("frame {} {} {}: len {} header size {} flag {}", i + 1, kind, fl, chunk.data.len(), ms, chunk.data[3] as char);
            }
            let (r, o) = conn.t.verif_chunk(chunk);
            // the client learns the channel / token ids from the OPN response
            for (_, m) in &o {
                if let SupportedMessage::OpenSecureChannelResponse(resp) = m {
                    cli.chan.set_secure_channel_id(resp.security_token.channel_id);
                    cli.chan.set_token_id(resp.security_token.token_id);
                }
            }
            let kinds: Vec<String> = o.iter().map(|(_, m)| kind_of(m)).collect();
            match r {
                Ok(()) => (true, kinds, "".to_string()),
                Err(e) => {
                    if std::env::var("VERIF_DEBUG").is_ok() {
                        eprintln!("frame {} {} {}: {}", i + 1, kind, fl, e);
                    }
                    conn.t.finish(e);
                    (true, kinds, "error".to_string())
                }
            }
        });
        let mut o = s.clone();
        let obj = o.as_object_mut().unwrap();
        obj.insert("case".into(), cid.clone());
        obj.insert("i".into(), json!(i + 1));
        let failed = r.is_err();
        match r {
            Ok((fed, kinds, err)) => {
                obj.insert("fail".into(), json!("none"));
                obj.insert("site".into(), json!(""));
                obj.insert("fed".into(), json!(fed));
                obj.insert("out".into(), json!(kinds));
                obj.insert("err".into(), json!(err));
            }
            Err(site) => {
                obj.insert("fail".into(), json!("panic"));
                obj.insert("site".into(), json!(site_sig(&site)));
                obj.insert("fed".into(), json!(true));
                obj.insert("out".into(), json!([]));
                obj.insert("err".into(), json!("panic"));
            }
        }
        let (pn, pb) = conn.t.verif_pending();
        obj.insert("state".into(), json!(state_of(&conn.t)));
        obj.insert("pend".into(), json!(pn));
        obj.insert("bytes".into(), json!(pb));
        obj.insert("sz".into(), json!(sz));
        out.push(o);
        if failed {
            break;
        }
    }
    let _ = guard(|| conn.close());
    let _: Option<Arc<RwLock<()>>> = None;
}
