//! Engine `locks` (C38): runs every kind of server task once on a real server with the lock-tracing hook on and
//! records its acquisition program (acquire / release of lock instances, in order).
use crate::e_subs::node;
use crate::srv::*;
use crate::util::*;
use crate::Obs;
use opcua::core::supported_message::SupportedMessage;
use opcua::server::comms::transport::Transport;
use opcua::server::prelude::*;
use opcua::sync::RwLock;
use opcua::verif_locks;
use serde_json::{json, Value};
use std::sync::Arc;

fn events() -> Vec<Value> {
    verif_locks::take()
        .into_iter()
        .map(|e| json!({"a": if e.acquire { 1 } else { 0 }, "class": short(e.class), "inst": e.instance, "mode": e.mode, "site": e.site, "th": e.thread}))
        .collect()
}

fn short(c: &str) -> String {
    // opcua::server::state::ServerState -> ServerState ; keep generic parameters readable
    let mut out = String::new();
    let mut word = String::new();
    for ch in c.chars() {
        if ch.is_alphanumeric() || ch == '_' {
            word.push(ch);
        } else if ch == ':' {
            word.clear();
        } else {
            out.push_str(&word);
            word.clear();
            out.push(ch);
        }
    }
    out.push_str(&word);
    out.replace(' ', "")
}

struct C {
    t: Arc<RwLock<opcua::server::comms::tcp_transport::TcpTransport>>,
    conn_token: NodeId,
    handle: u32,
    sub: u32,
    item: u32,
}

impl C {
    fn header(&mut self) -> RequestHeader {
        self.handle += 1;
        RequestHeader {
            authentication_token: self.conn_token.clone(),
            timestamp: DateTime::now(),
            request_handle: self.handle,
            return_diagnostics: DiagnosticBits::empty(),
            audit_entry_id: UAString::null(),
            timeout_hint: 0,
            additional_header: ExtensionObject::null(),
        }
    }
    /// the reading task: transport write lock, then the message handler
    fn call(&mut self, m: SupportedMessage) -> Vec<(u32, SupportedMessage)> {
        let mut t = opcua::trace_write_lock!(self.t);
        let (_r, out) = t.verif_message(self.handle, &m);
        out
    }
}

fn open(srv: &Srv) -> C {
    let mut conn = srv.connect();
    let ok = conn.open_session();
    assert!(ok);
    let token = conn.token.clone();
    C { t: Arc::new(RwLock::new(conn.t)), conn_token: token, handle: 100, sub: 0, item: 0 }
}

fn task(out: &mut Obs, cid: &Value, i: &mut usize, name: &str, conn: usize, f: impl FnOnce()) {
    let _ = verif_locks::take();
    verif_locks::enable(true);
    let r = guard(f);
    verif_locks::enable(false);
    *i += 1;
    out.push(json!({"case": cid, "i": *i, "task": name, "conn": conn, "fail": if r.is_ok() { "none" } else { "panic" },
                    "site": r.err().map(|s| site_sig(&s)).unwrap_or_default(), "events": events()}));
}

pub fn run_case(case: &Value, out: &mut Obs) {
    let cid = case.get("case").cloned().unwrap_or(Value::Null);
    let srv = Srv::new();
    {
        let a = srv.server.address_space();
        let mut a = a.write();
        for i in 1..=2 {
            let id = NodeId::new(2, format!("v{}", i));
            let _ = VariableBuilder::new(&id, format!("v{}", i), "")
                .data_type(DataTypeId::Int32)
                .organized_by(ObjectId::ObjectsFolder)
                .value(0i32)
                .writable()
                .insert(&mut a);
        }
    }
    let mut i = 0usize;
    // Both connections and both sessions exist before anything else is traced and nothing is freed until the end, so
    // that an address identifies one lock instance. (The server shares ONE SessionManager between all its transports.)
    let mut conns: Vec<C> = Vec::new();
    for conn in 1..=2usize {
        let mut c0 = srv.connect();
        let tr = Arc::new(RwLock::new(std::mem::replace(&mut c0.t, srv.server.new_transport())));
        std::mem::forget(c0);
        let mut c = C { t: tr, conn_token: NodeId::null(), handle: 1, sub: 0, item: 0 };
        {
            let t = c.t.clone();
            let mut t = t.write();
            t.verif_start();
            t.verif_secure_channel().write().set_secure_channel_id(1);
        }
        let mut token = NodeId::null();
        task(out, &cid, &mut i, "CreateSession", conn, || {
            let req = CreateSessionRequest {
                request_header: c.header(),
                client_description: ApplicationDescription::default(),
                server_uri: UAString::null(),
                endpoint_url: UAString::from(ENDPOINT),
                session_name: UAString::from("verif"),
                client_nonce: ByteString::null(),
                client_certificate: ByteString::null(),
                requested_session_timeout: 0.0,
                max_response_message_size: 0,
            };
            for (_, m) in c.call(req.into()) {
                if let SupportedMessage::CreateSessionResponse(r) = m {
                    token = r.authentication_token.clone();
                }
            }
        });
        c.conn_token = token;
        task(out, &cid, &mut i, "ActivateSession", conn, || {
            let req = ActivateSessionRequest {
                request_header: c.header(),
                client_signature: SignatureData::null(),
                client_software_certificates: None,
                locale_ids: None,
                user_identity_token: ExtensionObject::from_encodable(
                    ObjectId::AnonymousIdentityToken_Encoding_DefaultBinary,
                    &AnonymousIdentityToken { policy_id: UAString::from("anonymous") },
                ),
                user_token_signature: SignatureData::null(),
            };
            let _ = c.call(req.into());
        });
        conns.push(c);
    }
    for conn in 1..=2usize {
        let c = &mut conns[conn - 1];
        let rv = |n: i64| ReadValueId { node_id: node(n), attribute_id: AttributeId::Value as u32, index_range: UAString::null(), data_encoding: QualifiedName::null() };
        macro_rules! svc {
            ($name:expr, $req:expr) => {{
                let h = c.header();
                let req: SupportedMessage = ($req)(h).into();
                let mut resp = Vec::new();
                task(out, &cid, &mut i, $name, conn, || {
                    resp = c.call(req);
                });
                resp
            }};
        }
        svc!("GetEndpoints", |h| GetEndpointsRequest { request_header: h, endpoint_url: UAString::from(ENDPOINT), locale_ids: None, profile_uris: None });
        svc!("FindServers", |h| FindServersRequest { request_header: h, endpoint_url: UAString::from(ENDPOINT), locale_ids: None, server_uris: None });
        svc!("Read", |h| ReadRequest { request_header: h, max_age: 0.0, timestamps_to_return: TimestampsToReturn::Both, nodes_to_read: Some(vec![rv(1), ReadValueId { node_id: VariableId::Server_ServerStatus.into(), ..rv(1) }, ReadValueId { node_id: VariableId::Server_ServerDiagnostics_ServerDiagnosticsSummary.into(), ..rv(1) }]) });
        svc!("Write", |h| WriteRequest { request_header: h, nodes_to_write: Some(vec![WriteValue { node_id: node(1), attribute_id: AttributeId::Value as u32, index_range: UAString::null(), value: DataValue::new_now(5i32) }]) });
        svc!("Browse", |h| BrowseRequest { request_header: h, view: ViewDescription { view_id: NodeId::null(), timestamp: DateTime::null(), view_version: 0 }, requested_max_references_per_node: 1,
            nodes_to_browse: Some(vec![BrowseDescription { node_id: ObjectId::ObjectsFolder.into(), browse_direction: BrowseDirection::Forward, reference_type_id: ReferenceTypeId::HierarchicalReferences.into(), include_subtypes: true, node_class_mask: 0, result_mask: 0x3f }]) });
        svc!("TranslateBrowsePaths", |h| TranslateBrowsePathsToNodeIdsRequest { request_header: h, browse_paths: Some(vec![BrowsePath { starting_node: ObjectId::ObjectsFolder.into(),
            relative_path: RelativePath { elements: Some(vec![RelativePathElement { reference_type_id: ReferenceTypeId::HierarchicalReferences.into(), is_inverse: false, include_subtypes: true, target_name: QualifiedName::new(0, "Server") }]) } }]) });
        svc!("RegisterNodes", |h| RegisterNodesRequest { request_header: h, nodes_to_register: Some(vec![node(1)]) });
        let r = svc!("CreateSubscription", |h| CreateSubscriptionRequest { request_header: h, requested_publishing_interval: 100.0, requested_lifetime_count: 30, requested_max_keep_alive_count: 10, max_notifications_per_publish: 0, publishing_enabled: true, priority: 0 });
        for (_, m) in &r {
            if let SupportedMessage::CreateSubscriptionResponse(x) = m {
                c.sub = x.subscription_id;
            }
        }
        let sub = c.sub;
        let r = svc!("CreateMonitoredItems", |h| CreateMonitoredItemsRequest { request_header: h, subscription_id: sub, timestamps_to_return: TimestampsToReturn::Both,
            items_to_create: Some(vec![MonitoredItemCreateRequest { item_to_monitor: rv(1), monitoring_mode: MonitoringMode::Reporting,
                requested_parameters: MonitoringParameters { client_handle: 1, sampling_interval: -1.0, filter: ExtensionObject::null(), queue_size: 2, discard_oldest: true } },
                MonitoredItemCreateRequest { item_to_monitor: ReadValueId { node_id: VariableId::Server_ServerStatus_CurrentTime.into(), ..rv(1) }, monitoring_mode: MonitoringMode::Reporting,
                requested_parameters: MonitoringParameters { client_handle: 2, sampling_interval: -1.0, filter: ExtensionObject::null(), queue_size: 2, discard_oldest: true } }]) });
        for (_, m) in &r {
            if let SupportedMessage::CreateMonitoredItemsResponse(x) = m {
                c.item = x.results.as_ref().and_then(|v| v.first()).map(|r| r.monitored_item_id).unwrap_or(0);
            }
        }
        let item = c.item;
        svc!("ModifySubscription", |h| ModifySubscriptionRequest { request_header: h, subscription_id: sub, requested_publishing_interval: 200.0, requested_lifetime_count: 30, requested_max_keep_alive_count: 10, max_notifications_per_publish: 0, priority: 1 });
        svc!("SetPublishingMode", |h| SetPublishingModeRequest { request_header: h, publishing_enabled: true, subscription_ids: Some(vec![sub]) });
        svc!("ModifyMonitoredItems", |h| ModifyMonitoredItemsRequest { request_header: h, subscription_id: sub, timestamps_to_return: TimestampsToReturn::Both,
            items_to_modify: Some(vec![MonitoredItemModifyRequest { monitored_item_id: item, requested_parameters: MonitoringParameters { client_handle: 1, sampling_interval: -1.0, filter: ExtensionObject::null(), queue_size: 3, discard_oldest: true } }]) });
        svc!("SetMonitoringMode", |h| SetMonitoringModeRequest { request_header: h, subscription_id: sub, monitoring_mode: MonitoringMode::Reporting, monitored_item_ids: Some(vec![item]) });
        svc!("SetTriggering", |h| SetTriggeringRequest { request_header: h, subscription_id: sub, triggering_item_id: item, links_to_add: None, links_to_remove: None });
        svc!("Publish", |h| PublishRequest { request_header: h, subscription_acknowledgements: None });
        {
            let t = c.t.clone();
            task(out, &cid, &mut i, "SubscriptionTick", conn, || {
                // the timer task: transport read lock, then sessions / address space
                let t = opcua::trace_read_lock!(t);
                // verif_tick needs &mut: it takes the same locks as the real loop body, re-acquire for it below
                drop(t);
            });
            task(out, &cid, &mut i, "SubscriptionTickBody", conn, || {
                let mut t = t.write();
                let now = chrono::Utc::now() + chrono::Duration::seconds(1);
                let _ = t.verif_tick(&now);
            });
        }
        svc!("Republish", |h| RepublishRequest { request_header: h, subscription_id: sub, retransmit_sequence_number: 1 });
        svc!("Call_GetMonitoredItems", |h| CallRequest { request_header: h, methods_to_call: Some(vec![CallMethodRequest { object_id: ObjectId::Server.into(), method_id: MethodId::Server_GetMonitoredItems.into(), input_arguments: Some(vec![Variant::from(sub)]) }]) });
        svc!("Call_ResendData", |h| CallRequest { request_header: h, methods_to_call: Some(vec![CallMethodRequest { object_id: ObjectId::Server.into(), method_id: MethodId::Server_ResendData.into(), input_arguments: Some(vec![Variant::from(sub)]) }]) });
        svc!("AddNodes", |h| AddNodesRequest { request_header: h, nodes_to_add: Some(vec![AddNodesItem { parent_node_id: ObjectId::ObjectsFolder.into(), reference_type_id: ReferenceTypeId::Organizes.into(),
            requested_new_node_id: ExpandedNodeId::null(), browse_name: QualifiedName::from(format!("lk{}", conn)), node_class: NodeClass::Object,
            node_attributes: ExtensionObject::from_encodable(ObjectId::ObjectAttributes_Encoding_DefaultBinary, &ObjectAttributes { specified_attributes: 0, display_name: LocalizedText::from("x"), description: LocalizedText::from(""), write_mask: 0, user_write_mask: 0, event_notifier: 0 }),
            type_definition: ObjectTypeId::BaseObjectType.into() }]) });
        svc!("AddReferences", |h| AddReferencesRequest { request_header: h, references_to_add: Some(vec![AddReferencesItem { source_node_id: node(1), reference_type_id: ReferenceTypeId::Organizes.into(), is_forward: true, target_server_uri: UAString::null(), target_node_id: node(2).into(), target_node_class: NodeClass::Variable }]) });
        svc!("DeleteReferences", |h| DeleteReferencesRequest { request_header: h, references_to_delete: Some(vec![DeleteReferencesItem { source_node_id: node(1), reference_type_id: ReferenceTypeId::Organizes.into(), is_forward: true, target_node_id: node(2).into(), delete_bidirectional: false }]) });
        svc!("DeleteNodes", |h| DeleteNodesRequest { request_header: h, nodes_to_delete: Some(vec![DeleteNodesItem { node_id: NodeId::new(2, "nothing"), delete_target_references: true }]) });
        svc!("HistoryRead", |h| HistoryReadRequest { request_header: h, history_read_details: ExtensionObject::null(), timestamps_to_return: TimestampsToReturn::Both, release_continuation_points: false, nodes_to_read: Some(vec![HistoryReadValueId { node_id: node(1), index_range: UAString::null(), data_encoding: QualifiedName::null(), continuation_point: ByteString::null() }]) });
        svc!("DeleteMonitoredItems", |h| DeleteMonitoredItemsRequest { request_header: h, subscription_id: sub, monitored_item_ids: Some(vec![item]) });
        svc!("DeleteSubscriptions", |h| DeleteSubscriptionsRequest { request_header: h, subscription_ids: Some(vec![sub]) });
    }
    // Variants: further requests of the universe of Services.tla (other parameter classes: error paths, other branches) on
    // connection 1, each against fresh live objects where it needs them. The program of a variant is named after its
    // service (Call: and its method) so that the variants of one service share one signature.
    if let Some(vs) = case.get("variants").and_then(|v| v.as_array()) {
        use crate::e_services::{build_req, live_objects, make_nodes, undo_type_changes, Names};
        let c = &mut conns[0];
        let mut names = Names { sub: 0, item: 0, item2: 0, cp: ByteString::null(), tag: 4242, seq_seen: 0 };
        {
            let a = srv.server.address_space();
            let mut a = a.write();
            make_nodes(&mut a, &names);
        }
        for (k, r) in vs.iter().enumerate() {
            // the objects a request may name are (re)made outside the traced region
            names.sub = 0;
            live_objects(&mut names, &mut |mkreq| {
                let h = c.header();
                c.call(mkreq(h)).into_iter().next().map(|(_, m)| m).unwrap_or_else(|| ServiceFault::new(&RequestHeader::dummy(), StatusCode::BadUnexpectedError).into())
            });
            let h = c.header();
            let req = build_req(h, &names, r);
            let svc = gets(r, "svc");
            let name = if svc == "Call" { format!("Call_{}~{}", gets(r, "method"), k + 1) } else { format!("{}~{}", svc, k + 1) };
            task(out, &cid, &mut i, &name, 1, || {
                let _ = c.call(req);
            });
            // tidy up (untraced): what the request left in the session or the type hierarchy
            let subs: Vec<u32> = vec![names.sub];
            let h = c.header();
            let _ = c.call(DeleteSubscriptionsRequest { request_header: h, subscription_ids: Some(subs) }.into());
            let a = srv.server.address_space();
            let mut a = a.write();
            undo_type_changes(&mut a);
        }
    }
    // A publish request that is answered with the status change of a subscription whose lifetime ran out: the tick made by
    // the request removes the subscription (connection 1).
    {
        let c = &mut conns[0];
        // publish requests that earlier tasks left in the session's queue time out first (untraced): a queued request would keep
        // the new subscription alive
        {
            let t = c.t.clone();
            let mut t = t.write();
            let now = chrono::Utc::now() + chrono::Duration::seconds(1000);
            let _ = t.verif_tick(&now);
        }
        let h = c.header();
        let r = c.call(CreateSubscriptionRequest { request_header: h, requested_publishing_interval: 100.0, requested_lifetime_count: 3, requested_max_keep_alive_count: 1, max_notifications_per_publish: 0, publishing_enabled: true, priority: 0 }.into());
        let mut created = false;
        for (_, m) in &r {
            if let SupportedMessage::CreateSubscriptionResponse(_) = m {
                created = true;
            }
        }
        if created {
            // no publish request is queued while the publishing intervals pass (untraced)
            for k in 1..=8 {
                let t = c.t.clone();
                let mut t = t.write();
                let now = chrono::Utc::now() + chrono::Duration::seconds(1010 + k);
                let _ = t.verif_tick(&now);
            }
            // (other subscriptions that the variants left on the session may be served first: a few requests)
            for k in 0..12 {
                let h = c.header();
                let req: SupportedMessage = PublishRequest { request_header: h, subscription_acknowledgements: None }.into();
                task(out, &cid, &mut i, &format!("Publish~after_a_subscription_expired_{}", k + 1), 1, || {
                    let _ = c.call(req);
                });
            }
        }
    }
    // The session services on their error paths (connection 1): a CreateSession on a secured channel whose client certificate
    // is rejected, an ActivateSession that is refused.
    {
        use opcua::crypto::{SecurityPolicy, X509Data, X509};
        let c = &mut conns[0];
        let sc = {
            let t = c.t.clone();
            let t = t.read();
            t.verif_secure_channel()
        };
        let set_policy = |p: SecurityPolicy, m: MessageSecurityMode| {
            let mut s = sc.write();
            s.set_security_policy(p);
            s.set_security_mode(m);
        };
        let create = |h: RequestHeader, cert: ByteString| -> SupportedMessage {
            CreateSessionRequest {
                request_header: h,
                client_description: ApplicationDescription::default(),
                server_uri: UAString::null(),
                endpoint_url: UAString::from(ENDPOINT),
                session_name: UAString::from("verif2"),
                client_nonce: ByteString::from(vec![7u8; 32]),
                client_certificate: cert,
                requested_session_timeout: 0.0,
                max_response_message_size: 0,
            }
            .into()
        };
        set_policy(SecurityPolicy::Basic256Sha256, MessageSecurityMode::SignAndEncrypt);
        let h = c.header();
        let req = create(h, ByteString::from(vec![1u8, 2, 3, 4]));
        task(out, &cid, &mut i, "CreateSession~certificate_is_not_a_certificate", 1, || {
            let _ = c.call(req);
        });
        let foreign = X509::cert_and_pkey(&X509Data {
            key_size: 2048,
            common_name: "stranger".to_string(),
            organization: "x.org".to_string(),
            organizational_unit: "x.org ops".to_string(),
            country: "EN".to_string(),
            state: "London".to_string(),
            alt_host_names: vec!["urn:stranger".to_string(), "strangerhost".to_string()],
            certificate_duration_days: 60,
        })
        .map(|(cert, _)| cert.as_byte_string())
        .unwrap_or_else(|_| ByteString::null());
        let h = c.header();
        let req = create(h, foreign);
        task(out, &cid, &mut i, "CreateSession~certificate_of_a_stranger", 1, || {
            let _ = c.call(req);
        });
        set_policy(SecurityPolicy::None, MessageSecurityMode::None);
        let h = c.header();
        let req: SupportedMessage = ActivateSessionRequest {
            request_header: h,
            client_signature: SignatureData::null(),
            client_software_certificates: None,
            locale_ids: None,
            user_identity_token: ExtensionObject::from_encodable(
                ObjectId::UserNameIdentityToken_Encoding_DefaultBinary,
                &UserNameIdentityToken { policy_id: UAString::from("userpass_none"), user_name: UAString::from("nobody"), password: ByteString::from(b"x".to_vec()), encryption_algorithm: UAString::null() },
            ),
            user_token_signature: SignatureData::null(),
        }
        .into();
        task(out, &cid, &mut i, "ActivateSession~unknown_user", 1, || {
            let _ = c.call(req);
        });
    }
    // closing a session and tearing a connection down come last (they free objects)
    {
        let c = &mut conns[0];
        let h = c.header();
        let req: SupportedMessage = CloseSessionRequest { request_header: h, delete_subscriptions: true }.into();
        task(out, &cid, &mut i, "CloseSession", 1, || {
            let _ = c.call(req);
        });
        let t = c.t.clone();
        task(out, &cid, &mut i, "Teardown", 1, || {
            // connection 1 has no session of its own any more; the shared session manager still holds connection 2's
            let mut t = opcua::trace_write_lock!(t);
            t.finish(StatusCode::BadConnectionClosed);
        });
    }
    std::mem::forget(conns);
    std::mem::forget(srv);
}
