//! Engine `services` (C33): concretises the abstract requests of Services.tla and sends them through the real
//! MessageHandler on an activated session; after every request a probe Read must still be served.
use crate::srv::*;
use crate::util::*;
use crate::Obs;
use opcua::core::supported_message::SupportedMessage;
use opcua::server::prelude::*;
use serde_json::{json, Value};
use std::sync::atomic::{AtomicU32, Ordering};

thread_local! {
    static SRV: Srv = Srv::new();
}
static N: AtomicU32 = AtomicU32::new(0);

/// What the abstract parameter classes of Services.tla name in one session's world.
pub struct Names {
    pub sub: u32,
    pub item: u32,
    pub item2: u32,
    pub cp: ByteString,
    pub tag: u32,
    pub seq_seen: u32,
}

struct W {
    c: Conn,
    n: Names,
}

fn nid(w: &Names, k: &str) -> NodeId {
    match k {
        "var" => NodeId::new(2, format!("svc-var-{}", w.tag)),
        "str" => NodeId::new(2, format!("svc-str-{}", w.tag)),
        "obj" => NodeId::new(2, format!("svc-obj-{}", w.tag)),
        "added" => NodeId::new(2, format!("svc-added-{}", w.tag)),
        "cyc" => NodeId::new(2, format!("svc-cyc1-{}", w.tag)),
        "existing" => NodeId::new(2, format!("svc-var-{}", w.tag)),
        "fresh" => NodeId::new(2, format!("svc-fresh-{}-{}", w.tag, N.fetch_add(1, Ordering::SeqCst))),
        "ns9" => NodeId::new(9, 12345u32),
        "server" => ObjectId::Server.into(),
        "missing" => NodeId::new(2, "svc-never-exists"),
        "same" => NodeId::new(2, format!("svc-var-{}", w.tag)),
        // reference types of the standard hierarchy (the services accept only standard reference type ids):
        // HasEventSource -HasSubtype-> HasNotifier
        "rt1" => ReferenceTypeId::HasEventSource.into(),
        "rt2" => ReferenceTypeId::HasNotifier.into(),
        "dt1" | "dt2" | "vardt" => NodeId::new(2, format!("svc-{}-{}", k, w.tag)),
        _ => NodeId::null(),
    }
}

fn attr(k: &str) -> u32 {
    match k {
        "Value" => AttributeId::Value as u32,
        "BrowseName" => AttributeId::BrowseName as u32,
        "EventNotifier" => AttributeId::EventNotifier as u32,
        "zero" => 0,
        _ => 9999,
    }
}
fn range(k: &str) -> UAString {
    if k == "none" { UAString::null() } else { UAString::from(k) }
}
fn reft(w: &Names, k: &str) -> NodeId {
    match k {
        "HasSubtype" => ReferenceTypeId::HasSubtype.into(),
        "rt1" => nid(w, "rt1"),
        "Organizes" => ReferenceTypeId::Organizes.into(),
        "HasComponent" => ReferenceTypeId::HasComponent.into(),
        "missing" => NodeId::new(2, "no-such-reference-type"),
        "nonref" => ObjectId::Server.into(),
        _ => NodeId::null(),
    }
}
fn num(k: &str) -> f64 {
    match k {
        "nan" => f64::NAN,
        "neg" => -5.0,
        "zero" => 0.0,
        "small" => 100.0,
        _ => 1.0e300,
    }
}
fn cnt(k: &str) -> u32 {
    match k {
        "zero" => 0,
        "small" => 3,
        _ => u32::MAX,
    }
}

fn elem(op: FilterOperator, ops: Vec<Operand>) -> ContentFilterElement {
    ContentFilterElement::from((op, ops))
}

fn filter(k: &str) -> ExtensionObject {
    let ev = |w: ContentFilter| {
        ExtensionObject::from_encodable(
            ObjectId::EventFilter_Encoding_DefaultBinary,
            &EventFilter {
                select_clauses: Some(vec![SimpleAttributeOperand {
                    type_definition_id: ObjectTypeId::BaseEventType.into(),
                    browse_path: Some(vec![QualifiedName::from("EventId")]),
                    attribute_id: AttributeId::Value as u32,
                    index_range: UAString::null(),
                }]),
                where_clause: w,
            },
        )
    };
    match k {
        "none" => ExtensionObject::null(),
        "datachange" => ExtensionObject::from_encodable(
            ObjectId::DataChangeFilter_Encoding_DefaultBinary,
            &DataChangeFilter { trigger: DataChangeTrigger::StatusValue, deadband_type: 1, deadband_value: 1.0 },
        ),
        "event_empty" => ev(ContentFilter { elements: None }),
        "event_badcount" => ev(ContentFilter { elements: Some(vec![elem(FilterOperator::Equals, vec![Operand::literal(1i32)])]) }),
        "event_badindex" => ev(ContentFilter { elements: Some(vec![elem(FilterOperator::Not, vec![Operand::element(7)])]) }),
        "event_selfref" => ev(ContentFilter { elements: Some(vec![elem(FilterOperator::Not, vec![Operand::element(0)])]) }),
        "event_attrop" => ev(ContentFilter {
            elements: Some(vec![elem(
                FilterOperator::Equals,
                vec![
                    Operand::AttributeOperand(AttributeOperand {
                        node_id: ObjectId::Server.into(),
                        alias: UAString::null(),
                        browse_path: RelativePath { elements: None },
                        attribute_id: AttributeId::Value as u32,
                        index_range: UAString::null(),
                    }),
                    Operand::literal(1i32),
                ],
            )]),
        }),
        "event_deep" => {
            let mut v = Vec::new();
            for i in 0..40u32 {
                v.push(elem(FilterOperator::Not, vec![Operand::element(i + 1)]));
            }
            v.push(elem(FilterOperator::Equals, vec![Operand::literal(1i32), Operand::literal(1i32)]));
            ev(ContentFilter { elements: Some(v) })
        }
        _ => ExtensionObject { node_id: ObjectId::EventFilter_Encoding_DefaultBinary.into(), body: ExtensionObjectEncoding::ByteString(ByteString::from(vec![1u8, 2, 3])) },
    }
}

fn sub_id(w: &Names, k: &str) -> Option<Vec<u32>> {
    match k {
        "live" => Some(vec![w.sub]),
        "bogus" => Some(vec![987654]),
        _ => None,
    }
}

/// The concrete request of an abstract request of Services.tla (h = the request header to use).
pub fn build_req(h: RequestHeader, w: &Names, r: &Value) -> SupportedMessage {
    let s = |k: &str| gets(r, k).to_string();
    let rv = |w: &Names, n: &str, a: &str, rg: &str| ReadValueId { node_id: nid(w, n), attribute_id: attr(a), index_range: range(rg), data_encoding: QualifiedName::null() };
    match gets(r, "svc") {
        "Read" => ReadRequest { request_header: h, max_age: 0.0, timestamps_to_return: TimestampsToReturn::Both, nodes_to_read: Some(vec![rv(w, &s("node"), &s("attr"), &s("range"))]) }.into(),
        "Write" => {
            let v: Variant = match gets(r, "val") {
                "int" => Variant::from(7i32),
                "string" => Variant::from("abc"),
                "utf8" => Variant::from("é€é€"),
                "array" => Variant::from(vec![1i32, 2, 3]),
                "bytes" => Variant::from(ByteString::from(vec![1u8, 2, 3])),
                _ => Variant::Empty,
            };
            WriteRequest { request_header: h, nodes_to_write: Some(vec![WriteValue { node_id: nid(w, &s("node")), attribute_id: attr(&s("attr")), index_range: range(&s("range")), value: DataValue::new_now(v) }]) }.into()
        }
        "Browse" => BrowseRequest { request_header: h, view: ViewDescription { view_id: NodeId::null(), timestamp: DateTime::null(), view_version: 0 }, requested_max_references_per_node: geti(r, "max") as u32,
            nodes_to_browse: Some(vec![BrowseDescription { node_id: nid(w, &s("node")), browse_direction: BrowseDirection::Both, reference_type_id: reft(w, &s("ref")), include_subtypes: true, node_class_mask: 0, result_mask: 0x3f }]) }.into(),
        "BrowseNext" => {
            let cp = match gets(r, "cp") { "null" => ByteString::null(), "bogus" => ByteString::from(vec![9u8; 8]), _ => w.cp.clone() };
            BrowseNextRequest { request_header: h, release_continuation_points: getb(r, "release"), continuation_points: Some(vec![cp]) }.into()
        }
        "Translate" => {
            let el = |t: NodeId, name: QualifiedName| RelativePathElement { reference_type_id: t, is_inverse: false, include_subtypes: true, target_name: name };
            let hier: NodeId = ReferenceTypeId::HierarchicalReferences.into();
            let elements = match gets(r, "path") {
                "empty" => Some(vec![]),
                "noelements" => None,
                "nullname" => Some(vec![el(hier.clone(), QualifiedName::null())]),
                "one" => Some(vec![el(hier.clone(), QualifiedName::from("Server"))]),
                "customref" => Some(vec![el(NodeId::new(2, "custom"), QualifiedName::from("x"))]),
                "rt1" => Some(vec![el(nid(w, "rt1"), QualifiedName::from("x"))]),
                _ => Some((0..40).map(|_| el(hier.clone(), QualifiedName::from("Objects"))).collect()),
            };
            TranslateBrowsePathsToNodeIdsRequest { request_header: h, browse_paths: Some(vec![BrowsePath { starting_node: nid(w, &s("node")), relative_path: RelativePath { elements } }]) }.into()
        }
        "RegisterNodes" => RegisterNodesRequest { request_header: h, nodes_to_register: Some(vec![nid(w, &s("node"))]) }.into(),
        "UnregisterNodes" => UnregisterNodesRequest { request_header: h, nodes_to_unregister: Some(vec![nid(w, &s("node"))]) }.into(),
        "AddNodes" => {
            let name = match gets(r, "name") {
                "ok" => QualifiedName::from(format!("n{}", N.fetch_add(1, Ordering::SeqCst))),
                "slash" => QualifiedName::from("a/b"),
                "dot" => QualifiedName::from("a.b"),
                "lt" => QualifiedName::from("<x>"),
                "amp" => QualifiedName::from("a&"),
                "colon" => QualifiedName::from("1:a"),
                "hash" => QualifiedName::from("#!a"),
                "empty" => QualifiedName::from(""),
                "ns5" => QualifiedName::new(5, "q"),
                _ => QualifiedName::from("dupname"),
            };
            let class = match gets(r, "class") { "Object" => NodeClass::Object, "Variable" => NodeClass::Variable, "Method" => NodeClass::Method, "View" => NodeClass::View, _ => NodeClass::Unspecified };
            let oa = ObjectAttributes { specified_attributes: 0x1f, display_name: LocalizedText::from("d"), description: LocalizedText::from(""), write_mask: 0, user_write_mask: 0, event_notifier: 0 };
            let va = VariableAttributes { specified_attributes: 0, display_name: LocalizedText::from("d"), description: LocalizedText::from(""), write_mask: 0, user_write_mask: 0, value: Variant::from(1i32),
                data_type: DataTypeId::Int32.into(), value_rank: -1, array_dimensions: None, access_level: 1, user_access_level: 1, minimum_sampling_interval: 0.0, historizing: false };
            let attrs = match (gets(r, "attrs"), class) {
                ("match", NodeClass::Variable) => ExtensionObject::from_encodable(ObjectId::VariableAttributes_Encoding_DefaultBinary, &va),
                ("match", _) => ExtensionObject::from_encodable(ObjectId::ObjectAttributes_Encoding_DefaultBinary, &oa),
                ("mismatch", NodeClass::Variable) => ExtensionObject::from_encodable(ObjectId::ObjectAttributes_Encoding_DefaultBinary, &oa),
                ("mismatch", _) => ExtensionObject::from_encodable(ObjectId::VariableAttributes_Encoding_DefaultBinary, &va),
                ("null", _) => ExtensionObject::null(),
                _ => ExtensionObject { node_id: ObjectId::ObjectAttributes_Encoding_DefaultBinary.into(), body: ExtensionObjectEncoding::ByteString(ByteString::from(vec![0xffu8; 5])) },
            };
            let td: ExpandedNodeId = match gets(r, "typedef") { "ok" => if class == NodeClass::Variable { VariableTypeId::BaseDataVariableType.into() } else { ObjectTypeId::BaseObjectType.into() }, "missing" => NodeId::new(2, "no-type").into(), _ => ExpandedNodeId::null() };
            let rid: ExpandedNodeId = match gets(r, "rid") { "null" => ExpandedNodeId::null(), k => nid(w, k).into() };
            AddNodesRequest { request_header: h, nodes_to_add: Some(vec![AddNodesItem { parent_node_id: nid(w, &s("parent")).into(), reference_type_id: reft(w, &s("ref")), requested_new_node_id: rid, browse_name: name, node_class: class, node_attributes: attrs, type_definition: td }]) }.into()
        }
        "AddReferences" => {
            let cls = match gets(r, "cls") { "Variable" => NodeClass::Variable, "Object" => NodeClass::Object, "ReferenceType" => NodeClass::ReferenceType, "DataType" => NodeClass::DataType, _ => NodeClass::Unspecified };
            let src = nid(w, &s("src"));
            let dst = if gets(r, "dst") == "same" { src.clone() } else { nid(w, &s("dst")) };
            AddReferencesRequest { request_header: h, references_to_add: Some(vec![AddReferencesItem { source_node_id: src, reference_type_id: reft(w, &s("ref")), is_forward: getb(r, "fwd"), target_server_uri: UAString::null(), target_node_id: dst.into(), target_node_class: cls }]) }.into()
        }
        "DeleteNodes" => DeleteNodesRequest { request_header: h, nodes_to_delete: Some(vec![DeleteNodesItem { node_id: nid(w, &s("node")), delete_target_references: getb(r, "tr") }]) }.into(),
        "DeleteReferences" => {
            let src = nid(w, &s("src"));
            let dst = if gets(r, "dst") == "same" { src.clone() } else { nid(w, &s("dst")) };
            DeleteReferencesRequest { request_header: h, references_to_delete: Some(vec![DeleteReferencesItem { source_node_id: src, reference_type_id: reft(w, &s("ref")), is_forward: getb(r, "fwd"), target_node_id: dst.into(), delete_bidirectional: getb(r, "bi") }]) }.into()
        }
        "CreateSubscription" => CreateSubscriptionRequest { request_header: h, requested_publishing_interval: num(&s("itv")), requested_lifetime_count: cnt(&s("lt")), requested_max_keep_alive_count: cnt(&s("ka")), max_notifications_per_publish: 0, publishing_enabled: true, priority: 0 }.into(),
        "ModifySubscription" => ModifySubscriptionRequest { request_header: h, subscription_id: sub_id(w, &s("sub")).map(|v| v[0]).unwrap_or(0), requested_publishing_interval: num(&s("itv")), requested_lifetime_count: 30, requested_max_keep_alive_count: 10, max_notifications_per_publish: 0, priority: 0 }.into(),
        "SetPublishingMode" => SetPublishingModeRequest { request_header: h, publishing_enabled: true, subscription_ids: sub_id(w, &s("sub")) }.into(),
        "DeleteSubscriptions" => DeleteSubscriptionsRequest { request_header: h, subscription_ids: sub_id(w, &s("sub")) }.into(),
        "TransferSubscriptions" => TransferSubscriptionsRequest { request_header: h, subscription_ids: sub_id(w, &s("sub")), send_initial_values: true }.into(),
        "Publish" => {
            let acks = match gets(r, "ack") { "bogus" => Some(vec![SubscriptionAcknowledgement { subscription_id: 4242, sequence_number: 77 }]), "live" => Some(vec![SubscriptionAcknowledgement { subscription_id: w.sub, sequence_number: w.seq_seen }]), _ => None };
            PublishRequest { request_header: h, subscription_acknowledgements: acks }.into()
        }
        "Republish" => RepublishRequest { request_header: h, subscription_id: sub_id(w, &s("sub")).map(|v| v[0]).unwrap_or(0), retransmit_sequence_number: geti(r, "seq") as u32 }.into(),
        "CreateMonitoredItems" => CreateMonitoredItemsRequest { request_header: h, subscription_id: sub_id(w, &s("sub")).map(|v| v[0]).unwrap_or(0), timestamps_to_return: TimestampsToReturn::Both,
            items_to_create: Some(vec![MonitoredItemCreateRequest { item_to_monitor: rv(w, &s("node"), &s("attr"), &s("range")), monitoring_mode: MonitoringMode::Reporting,
                requested_parameters: MonitoringParameters { client_handle: 5, sampling_interval: num(&s("samp")), filter: filter(&s("filter")), queue_size: cnt(&s("qs")), discard_oldest: true } }]) }.into(),
        "ModifyMonitoredItems" => ModifyMonitoredItemsRequest { request_header: h, subscription_id: sub_id(w, &s("sub")).map(|v| v[0]).unwrap_or(0), timestamps_to_return: TimestampsToReturn::Both,
            items_to_modify: Some(vec![MonitoredItemModifyRequest { monitored_item_id: if gets(r, "item") == "live" { w.item } else { 555 },
                requested_parameters: MonitoringParameters { client_handle: 5, sampling_interval: -1.0, filter: filter(&s("filter")), queue_size: cnt(&s("qs")), discard_oldest: false } }]) }.into(),
        "SetMonitoringMode" => SetMonitoringModeRequest { request_header: h, subscription_id: sub_id(w, &s("sub")).map(|v| v[0]).unwrap_or(0),
            monitoring_mode: match gets(r, "mode") { "Disabled" => MonitoringMode::Disabled, "Sampling" => MonitoringMode::Sampling, _ => MonitoringMode::Reporting },
            monitored_item_ids: match gets(r, "item") { "live" => Some(vec![w.item]), "bogus" => Some(vec![555]), _ => None } }.into(),
        "SetTriggering" => SetTriggeringRequest { request_header: h, subscription_id: sub_id(w, &s("sub")).map(|v| v[0]).unwrap_or(0), triggering_item_id: if gets(r, "item") == "live" { w.item } else { 555 },
            links_to_add: match gets(r, "link") { "self" => Some(vec![w.item]), "bogus" => Some(vec![555]), "live2" => Some(vec![w.item2]), _ => None }, links_to_remove: None }.into(),
        "DeleteMonitoredItems" => DeleteMonitoredItemsRequest { request_header: h, subscription_id: sub_id(w, &s("sub")).map(|v| v[0]).unwrap_or(0),
            monitored_item_ids: match gets(r, "item") { "live" => Some(vec![w.item]), "bogus" => Some(vec![555]), _ => None } }.into(),
        "Call" => {
            let m: NodeId = match gets(r, "method") { "GetMonitoredItems" => MethodId::Server_GetMonitoredItems.into(), "ResendData" => MethodId::Server_ResendData.into(), "missing" => NodeId::new(2, "no-method"), _ => NodeId::null() };
            let args = match gets(r, "args") { "none" => None, "live" => Some(vec![Variant::from(w.sub)]), "bogus" => Some(vec![Variant::from(31337u32)]), "wrongtype" => Some(vec![Variant::from("x")]), _ => Some(vec![Variant::from(1u32), Variant::from(2u32), Variant::from(3u32)]) };
            CallRequest { request_header: h, methods_to_call: Some(vec![CallMethodRequest { object_id: nid(w, &s("obj")), method_id: m, input_arguments: args }]) }.into()
        }
        "HistoryRead" => {
            let d = match gets(r, "details") {
                "raw" => ExtensionObject::from_encodable(ObjectId::ReadRawModifiedDetails_Encoding_DefaultBinary, &ReadRawModifiedDetails { is_read_modified: false, start_time: DateTime::null(), end_time: DateTime::now(), num_values_per_node: 1, return_bounds: false }),
                "events" => ExtensionObject::from_encodable(ObjectId::ReadEventDetails_Encoding_DefaultBinary, &ReadEventDetails { num_values_per_node: 1, start_time: DateTime::null(), end_time: DateTime::now(), filter: EventFilter { select_clauses: None, where_clause: ContentFilter { elements: None } } }),
                "garbage" => ExtensionObject { node_id: ObjectId::ReadRawModifiedDetails_Encoding_DefaultBinary.into(), body: ExtensionObjectEncoding::ByteString(ByteString::from(vec![7u8; 3])) },
                _ => ExtensionObject::null(),
            };
            HistoryReadRequest { request_header: h, history_read_details: d, timestamps_to_return: TimestampsToReturn::Both, release_continuation_points: false, nodes_to_read: Some(vec![HistoryReadValueId { node_id: nid(w, &s("node")), index_range: UAString::null(), data_encoding: QualifiedName::null(), continuation_point: ByteString::null() }]) }.into()
        }
        "HistoryUpdate" => {
            let d = match gets(r, "details") {
                "none" => None,
                "updatedata" => Some(vec![ExtensionObject::from_encodable(ObjectId::UpdateDataDetails_Encoding_DefaultBinary, &UpdateDataDetails { node_id: nid(w, "var"), perform_insert_replace: PerformUpdateType::Insert, update_values: None })]),
                "garbage" => Some(vec![ExtensionObject { node_id: ObjectId::UpdateDataDetails_Encoding_DefaultBinary.into(), body: ExtensionObjectEncoding::ByteString(ByteString::from(vec![7u8; 3])) }]),
                _ => Some(vec![ExtensionObject::null()]),
            };
            HistoryUpdateRequest { request_header: h, history_update_details: d }.into()
        }
        "QueryFirst" => QueryFirstRequest { request_header: h, view: ViewDescription { view_id: NodeId::null(), timestamp: DateTime::null(), view_version: 0 }, node_types: None, filter: ContentFilter { elements: None }, max_data_sets_to_return: 0, max_references_to_return: 0 }.into(),
        "QueryNext" => QueryNextRequest { request_header: h, release_continuation_point: false, continuation_point: ByteString::null() }.into(),
        "Cancel" => CancelRequest { request_header: h, request_handle: 1 }.into(),
        "FindServers" => FindServersRequest { request_header: h, endpoint_url: UAString::from(ENDPOINT), locale_ids: None, server_uris: None }.into(),
        "RegisterServer" => RegisterServerRequest { request_header: h, server: RegisteredServer { server_uri: UAString::from("urn:x"), product_uri: UAString::from("urn:y"), server_names: None, server_type: ApplicationType::Server, gateway_server_uri: UAString::null(), discovery_urls: None, semaphore_file_path: UAString::null(), is_online: true } }.into(),
        _ => GetEndpointsRequest { request_header: h, endpoint_url: UAString::from(ENDPOINT), locale_ids: None, profile_uris: None }.into(),
    }
}

/// The nodes the parameter classes name: a folder with an Int32 and a String variable, a removable object, a
/// HasComponent cycle, two data types and a variable of such a type.
pub fn make_nodes(a: &mut AddressSpace, w: &Names) {
    let tag = w.tag;
    let obj = nid(w, "obj");
    let _ = a.add_folder_with_id(&obj, format!("svcobj{}", tag), "svcobj", &NodeId::objects_folder_id());
    let _ = VariableBuilder::new(&nid(w, "var"), format!("var{}", tag), "").data_type(DataTypeId::Int32).organized_by(&obj).value(1i32).writable().insert(a);
    let _ = VariableBuilder::new(&nid(w, "str"), format!("str{}", tag), "").data_type(DataTypeId::String).organized_by(&obj).value("aé€b").writable().insert(a);
    let _ = ObjectBuilder::new(&nid(w, "added"), "dupname", "dupname").organized_by(&obj).insert(a);
    let c1 = nid(w, "cyc");
    let c2 = NodeId::new(2, format!("svc-cyc2-{}", tag));
    let _ = ObjectBuilder::new(&c1, format!("c1{}", tag), "c1").organized_by(&obj).insert(a);
    let _ = ObjectBuilder::new(&c2, format!("c2{}", tag), "c2").insert(a);
    a.insert_reference(&c1, &c2, ReferenceTypeId::HasComponent);
    a.insert_reference(&c2, &c1, ReferenceTypeId::HasComponent);
    // per-session data type nodes (not linked under the standard hierarchy, so that what a case does to them stays in the case)
    let _ = DataTypeBuilder::new(&nid(w, "dt1"), format!("dt1{}", tag), "dt1").insert(a);
    let _ = DataTypeBuilder::new(&nid(w, "dt2"), format!("dt2{}", tag), "dt2").insert(a);
    a.insert_reference(&nid(w, "dt1"), &nid(w, "dt2"), ReferenceTypeId::HasSubtype);
    let _ = VariableBuilder::new(&nid(w, "vardt"), format!("vardt{}", tag), "").data_type(nid(w, "dt1")).organized_by(&obj).value(1i32).writable().insert(a);
}

/// What a case did to the standard reference type hierarchy is undone (the server is shared by the cases of a process).
pub fn undo_type_changes(a: &mut AddressSpace) {
    let (rt1, rt2): (NodeId, NodeId) = (ReferenceTypeId::HasEventSource.into(), ReferenceTypeId::HasNotifier.into());
    let _ = a.delete_reference(&rt2, &rt1, ReferenceTypeId::HasSubtype);
}

/// The requests that give a session its live subscription, two monitored items and a browse continuation point.
pub fn live_objects(w: &mut Names, call1: &mut dyn FnMut(&dyn Fn(RequestHeader) -> SupportedMessage) -> SupportedMessage) {
    if let SupportedMessage::CreateSubscriptionResponse(r) = call1(&|h| CreateSubscriptionRequest { request_header: h, requested_publishing_interval: 100.0, requested_lifetime_count: 30, requested_max_keep_alive_count: 10, max_notifications_per_publish: 0, publishing_enabled: true, priority: 0 }.into()) {
        w.sub = r.subscription_id;
    }
    let mk = |w: &Names, ch: u32, n: &str| MonitoredItemCreateRequest { item_to_monitor: ReadValueId { node_id: nid(w, n), attribute_id: AttributeId::Value as u32, index_range: UAString::null(), data_encoding: QualifiedName::null() }, monitoring_mode: MonitoringMode::Reporting,
        requested_parameters: MonitoringParameters { client_handle: ch, sampling_interval: -1.0, filter: ExtensionObject::null(), queue_size: 2, discard_oldest: true } };
    let items = vec![mk(w, 1, "var"), mk(w, 2, "str")];
    let sub = w.sub;
    if let SupportedMessage::CreateMonitoredItemsResponse(r) = call1(&|h| CreateMonitoredItemsRequest { request_header: h, subscription_id: sub, timestamps_to_return: TimestampsToReturn::Both, items_to_create: Some(items.clone()) }.into()) {
        let v = r.results.unwrap_or_default();
        w.item = v.first().map(|x| x.monitored_item_id).unwrap_or(0);
        w.item2 = v.get(1).map(|x| x.monitored_item_id).unwrap_or(0);
    }
    // a live browse continuation point
    if let SupportedMessage::BrowseResponse(r) = call1(&|h| BrowseRequest { request_header: h, view: ViewDescription { view_id: NodeId::null(), timestamp: DateTime::null(), view_version: 0 }, requested_max_references_per_node: 1,
        nodes_to_browse: Some(vec![BrowseDescription { node_id: ObjectId::Server.into(), browse_direction: BrowseDirection::Forward, reference_type_id: ReferenceTypeId::HierarchicalReferences.into(), include_subtypes: true, node_class_mask: 0, result_mask: 0x3f }]) }.into()) {
        w.cp = r.results.unwrap_or_default().first().map(|x| x.continuation_point.clone()).unwrap_or_else(ByteString::null);
    }
}

fn setup(srv: &Srv) -> Option<W> {
    let mut c = srv.connect();
    if !c.open_session() {
        return None;
    }
    let tag = N.fetch_add(1, Ordering::SeqCst) + std::process::id() * 1000;
    let mut w = W { c, n: Names { sub: 0, item: 0, item2: 0, cp: ByteString::null(), tag, seq_seen: 0 } };
    {
        let a = srv.server.address_space();
        let mut a = a.write();
        make_nodes(&mut a, &w.n);
    }
    let W { c, n } = &mut w;
    live_objects(n, &mut |mkreq| {
        let h = c.header();
        c.call1(mkreq(h))
    });
    Some(w)
}

pub fn run_case(case: &Value, out: &mut Obs) {
    let cid = case.get("case").cloned().unwrap_or(Value::Null);
    SRV.with(|srv| {
        let mut w = match guard(|| setup(srv)) {
            Ok(Some(w)) => w,
            _ => {
                out.push(json!({"case": cid, "i": 1, "req": {"svc": "Setup"}, "kind": "none", "fail": "setup", "site": "setup", "probe": false, "ticked": false}));
                return;
            }
        };
        let empty = vec![];
        for (i, r) in case.get("steps").and_then(|s| s.as_array()).unwrap_or(&empty).iter().enumerate() {
            let res = guard(|| {
                let h = w.c.header();
                let m = build_req(h, &w.n, r);
                let is_publish = matches!(m, SupportedMessage::PublishRequest(_));
                let resp = w.c.call(m);
                let kind = match resp.first() {
                    Some((_, SupportedMessage::ServiceFault(_))) => "fault",
                    Some(_) => "response",
                    None => if is_publish { "queued" } else { "none" },
                };
                // two timer ticks: whatever the request created must survive the subscription loop
                let now = chrono::Utc::now() + chrono::Duration::seconds(2 + i as i64);
                let (_r, outs) = w.c.t.verif_tick(&now);
                for (_, m) in &outs {
                    if let SupportedMessage::PublishResponse(p) = m {
                        w.n.seq_seen = p.notification_message.sequence_number;
                    }
                }
                let now2 = now + chrono::Duration::milliseconds(500);
                let _ = w.c.t.verif_tick(&now2);
                // probe: the session must still be served
                let h = w.c.header();
                let probe = w.c.call1(ReadRequest { request_header: h, max_age: 0.0, timestamps_to_return: TimestampsToReturn::Both,
                    nodes_to_read: Some(vec![ReadValueId { node_id: VariableId::Server_ServerStatus_State.into(), attribute_id: AttributeId::Value as u32, index_range: UAString::null(), data_encoding: QualifiedName::null() }]) }.into());
                (kind, matches!(probe, SupportedMessage::ReadResponse(_)))
            });
            let failed = res.is_err();
            let o = match res {
                Ok((kind, probe)) => json!({"case": cid, "i": i + 1, "req": r, "kind": kind, "fail": "none", "site": "", "probe": probe, "ticked": true}),
                Err(site) => json!({"case": cid, "i": i + 1, "req": r, "kind": "none", "fail": "panic", "site": site_sig(&site), "probe": false, "ticked": false}),
            };
            out.push(o);
            if failed {
                break;
            }
        }
        let _ = guard(|| w.c.close());
        // what a case did to the standard reference type hierarchy is undone (the server is shared by the cases of a process)
        let _ = guard(|| {
            let a = srv.server.address_space();
            let mut a = a.write();
            undo_type_changes(&mut a);
        });
    });
}
