//! Engine `aspace`: replays behaviours of AddressSpace.tla on a real (small) `AddressSpace`.
//! Run in `child` mode: deleting a node may recurse without bound.
use crate::util::*;
use crate::Obs;
use opcua::server::address_space::relative_path::find_nodes_relative_path;
use opcua::server::prelude::*;
use serde_json::{json, Value};

const N: i64 = 4;

fn nid(n: i64) -> NodeId {
    NodeId::new(1, n as u32)
}
fn tid(t: &str) -> ReferenceTypeId {
    match t {
        "HC" => ReferenceTypeId::HasComponent,
        "HP" => ReferenceTypeId::HasProperty,
        "OR" => ReferenceTypeId::Organizes,
        "AG" => ReferenceTypeId::Aggregates,
        "CH" => ReferenceTypeId::HasChild,
        "HI" => ReferenceTypeId::HierarchicalReferences,
        _ => ReferenceTypeId::References,
    }
}
fn tname(id: &NodeId) -> String {
    match id.as_reference_type_id() {
        Ok(ReferenceTypeId::HasComponent) => "HC".into(),
        Ok(ReferenceTypeId::HasProperty) => "HP".into(),
        Ok(ReferenceTypeId::Organizes) => "OR".into(),
        Ok(ReferenceTypeId::HasSubtype) => "ST".into(),
        _ => "??".into(),
    }
}
fn nnum(id: &NodeId) -> i64 {
    if id.namespace == 1 {
        if let Identifier::Numeric(n) = id.identifier {
            return n as i64;
        }
    }
    -1
}

pub fn fresh(nodes: i64) -> AddressSpace {
    let mut a = AddressSpace::default();
    let _ = a.register_namespace("urn:verif");
    // the reference type hierarchy of the standard node set (HasSubtype edges)
    let st = ReferenceTypeId::HasSubtype;
    for (p, c) in [("HI", "CH"), ("CH", "AG"), ("AG", "HC"), ("AG", "HP"), ("HI", "OR")] {
        let (p, c): (NodeId, NodeId) = (tid(p).into(), tid(c).into());
        a.insert_reference(&p, &c, st);
    }
    for n in 1..=nodes {
        let name = if n % 2 == 1 { "a" } else { "b" };
        let o = ObjectBuilder::new(&nid(n), QualifiedName::new(0, name), name).build();
        a.insert::<Object, ReferenceTypeId>(o, None);
    }
    a
}

fn pairs(v: Option<Vec<opcua::server::address_space::references::Reference>>) -> Value {
    let mut p: Vec<(String, i64)> = v
        .unwrap_or_default()
        .iter()
        .map(|r| (tname(&r.reference_type), nnum(&r.target_node)))
        .collect();
    p.sort();
    p.dedup();
    json!(p.iter().map(|(t, n)| json!([t, n])).collect::<Vec<_>>())
}

fn proj(a: &AddressSpace, nodes: i64, types: &[String]) -> Value {
    let exist: Vec<i64> = (1..=nodes).filter(|n| a.node_exists(&nid(*n))).collect();
    let ag = Some((ReferenceTypeId::Aggregates, true));
    let hc = Some((ReferenceTypeId::HasComponent, false));
    let none: Option<(ReferenceTypeId, bool)> = None;
    let per = |f: &dyn Fn(i64) -> Value| json!((1..=nodes).map(|n| f(n)).collect::<Vec<_>>());
    let mut has = Vec::new();
    for x in 1..=nodes {
        for t in types {
            for y in 1..=nodes {
                if a.has_reference(&nid(x), &nid(y), tid(t)) {
                    has.push(json!([x, t, y]));
                }
            }
        }
    }
    json!({
        "nodes": exist,
        "f": per(&|n| pairs(a.find_references(&nid(n), none.clone()))),
        "i": per(&|n| pairs(a.find_inverse_references(&nid(n), none.clone()))),
        "fa": per(&|n| pairs(a.find_references(&nid(n), ag.clone()))),
        "ia": per(&|n| pairs(a.find_inverse_references(&nid(n), ag.clone()))),
        "fc": per(&|n| pairs(a.find_references(&nid(n), hc.clone()))),
        "has": has,
    })
}

pub fn run_case(case: &Value, out: &mut Obs) {
    let cid = case.get("case").cloned().unwrap_or(Value::Null);
    let nodes = case.get("nodes").and_then(|v| v.as_i64()).unwrap_or(3).min(N);
    let types: Vec<String> = case
        .get("types")
        .and_then(|v| v.as_array())
        .map(|a| a.iter().filter_map(|x| x.as_str().map(|s| s.to_string())).collect())
        .unwrap_or_else(|| vec!["HC".into(), "OR".into()]);
    let mut a = fresh(nodes);
    let empty = vec![];
    for (i, s) in case.get("steps").and_then(|s| s.as_array()).unwrap_or(&empty).iter().enumerate() {
        let ev = gets(s, "ev").to_string();
        let r = guard(|| match ev.as_str() {
            "Ins" => {
                a.insert_reference(&nid(geti(s, "a")), &nid(geti(s, "b")), tid(gets(s, "t")));
                (false, json!(null))
            }
            "Del" => (a.delete_reference(&nid(geti(s, "a")), &nid(geti(s, "b")), tid(gets(s, "t"))), json!(null)),
            "DelNode" => {
                let existed = a.node_exists(&nid(geti(s, "a")));
                let _ = a.delete(&nid(geti(s, "a")), getb(s, "tr"));
                (existed, json!(null))
            }
            "Translate" => {
                let els: Vec<RelativePathElement> = s["path"]
                    .as_array()
                    .unwrap_or(&empty)
                    .iter()
                    .map(|e| RelativePathElement {
                        reference_type_id: if gets(e, "t") == "NULL" { NodeId::null() } else { tid(gets(e, "t")).into() },
                        is_inverse: getb(e, "inv"),
                        include_subtypes: getb(e, "sub"),
                        target_name: QualifiedName::new(0, gets(e, "name")),
                    })
                    .collect();
                let rp = RelativePath { elements: Some(els) };
                let existed = a.node_exists(&nid(geti(s, "a")));
                let mut res: Vec<i64> = find_nodes_relative_path(&a, &nid(geti(s, "a")), &rp)
                    .unwrap_or_default()
                    .iter()
                    .map(nnum)
                    .collect();
                res.sort();
                res.dedup();
                (existed, json!(res))
            }
            _ => (false, json!(null)),
        });
        let mut o = s.clone();
        let obj = o.as_object_mut().unwrap();
        obj.insert("case".into(), cid.clone());
        obj.insert("i".into(), json!(i + 1));
        let mut failed = false;
        match r {
            Ok((found, res)) => {
                obj.insert("fail".into(), json!("none"));
                obj.insert("site".into(), json!(""));
                obj.insert("found".into(), json!(found));
                if ev == "Translate" {
                    obj.insert("res".into(), res);
                }
            }
            Err(site) => {
                failed = true;
                obj.insert("fail".into(), json!("panic"));
                obj.insert("site".into(), json!(site_sig(&site)));
                obj.insert("found".into(), json!(false));
                if ev == "Translate" {
                    obj.insert("res".into(), json!([]));
                }
            }
        }
        obj.insert("st".into(), proj(&a, nodes, &types));
        // flush progressively: in child mode an abort loses nothing that was already observed
        out.push(o);
        if failed {
            break;
        }
    }
}
