//! Shared helpers: panic capture, json plumbing, explicit clock.
use serde_json::{json, Value};
use std::cell::RefCell;
use std::panic::{self, AssertUnwindSafe};

thread_local! {
    static LAST_PANIC: RefCell<Option<String>> = RefCell::new(None);
}

/// Install a panic hook that records `file: message` (no line number, so that signatures are stable).
pub fn install_panic_hook() {
    panic::set_hook(Box::new(|info| {
        let loc = info
            .location()
            .map(|l| {
                let f = l.file();
                let f = f.rsplit("/lib/src/").next().unwrap_or(f);
                f.to_string()
            })
            .unwrap_or_else(|| "?".into());
        let msg = if let Some(s) = info.payload().downcast_ref::<&str>() {
            s.to_string()
        } else if let Some(s) = info.payload().downcast_ref::<String>() {
            s.clone()
        } else {
            "?".into()
        };
        let msg: String = msg.chars().take(60).collect();
        LAST_PANIC.with(|p| *p.borrow_mut() = Some(format!("{}: {}", loc, msg)));
    }));
}

/// Run a step; a panic in the code under test becomes data.
pub fn guard<T>(f: impl FnOnce() -> T) -> Result<T, String> {
    LAST_PANIC.with(|p| *p.borrow_mut() = None);
    match panic::catch_unwind(AssertUnwindSafe(f)) {
        Ok(v) => Ok(v),
        Err(_) => Err(LAST_PANIC
            .with(|p| p.borrow_mut().take())
            .unwrap_or_else(|| "unknown".into())),
    }
}

/// Stable site: strip digits so that e.g. differing numbers in messages do not split signatures.
pub fn site_sig(site: &str) -> String {
    let mut s = String::new();
    for c in site.chars() {
        if c.is_ascii_digit() {
            if !s.ends_with('#') {
                s.push('#');
            }
        } else {
            s.push(c);
        }
    }
    s
}

pub fn fail_obs(case: &Value, i: usize, ev: &str, site: &str) -> Value {
    json!({"case": case, "i": i, "ev": ev, "fail": "panic", "site": site_sig(site)})
}

pub fn geti(v: &Value, k: &str) -> i64 {
    v.get(k).and_then(|x| x.as_i64()).unwrap_or(0)
}
pub fn gets<'a>(v: &'a Value, k: &str) -> &'a str {
    v.get(k).and_then(|x| x.as_str()).unwrap_or("")
}
pub fn getb(v: &Value, k: &str) -> bool {
    v.get(k).and_then(|x| x.as_bool()).unwrap_or(false)
}
