//! Engine `revise` (C23): requested subscription / monitored item parameters through the real services.
use crate::e_subs::node;
use crate::srv::*;
use crate::util::*;
use crate::Obs;
use opcua::core::supported_message::SupportedMessage;
use opcua::server::prelude::*;
use serde_json::{json, Value};

thread_local! {
    static SRV: Srv = {
        let s = Srv::new();
        {
            let a = s.server.address_space();
            let mut a = a.write();
            for i in 1..=4 {
                let id = NodeId::new(2, format!("v{}", i));
                let _ = VariableBuilder::new(&id, format!("v{}", i), "")
                    .data_type(DataTypeId::Int32)
                    .organized_by(ObjectId::ObjectsFolder)
                    .value(0i32)
                    .insert(&mut a);
            }
        }
        s
    };
}

fn dur(v: &Value) -> f64 {
    match gets(v, "k") {
        "nan" => f64::NAN,
        "pinf" => f64::INFINITY,
        "ninf" => f64::NEG_INFINITY,
        _ => geti(v, "v") as f64,
    }
}

fn dur_out(d: f64) -> Value {
    if d.is_nan() {
        json!({"k": "nan", "v": 0})
    } else if d == f64::INFINITY {
        json!({"k": "pinf", "v": 0})
    } else if d == f64::NEG_INFINITY {
        json!({"k": "ninf", "v": 0})
    } else if d.abs() < 2.1e9 {
        // exact for the integral values used; the floor keeps "below the minimum" visible
        json!({"k": "num", "v": d.floor() as i64})
    } else {
        json!({"k": if d > 0.0 { "pinf" } else { "ninf" }, "v": 0})
    }
}

fn big(v: &Value) -> u64 {
    v[0].as_u64().unwrap_or(0) * 65536 + v[1].as_u64().unwrap_or(0)
}

fn big_out(n: u64) -> Value {
    json!([n / 65536, n % 65536])
}

pub fn run_case(case: &Value, out: &mut Obs) {
    let cid = case.get("case").cloned().unwrap_or(Value::Null);
    let c = &case["c"];
    let r = guard(|| {
        SRV.with(|srv| {
            let lim = &c["lim"];
            {
                let ss = srv.server.server_state();
                let mut ss = ss.write();
                ss.min_publishing_interval_ms = geti(lim, "minPI") as f64;
                ss.min_sampling_interval_ms = geti(lim, "minSI") as f64;
                ss.max_keep_alive_count = big(&lim["maxKA"]) as u32;
                ss.default_keep_alive_count = big(&lim["defKA"]) as u32;
                ss.max_lifetime_count = big(&lim["maxLT"]) as u32;
                ss.max_monitored_item_queue_size = geti(lim, "maxQ") as usize;
            }
            let mut conn = srv.connect();
            if !conn.open_session() {
                return json!({"fail": "setup", "site": "open_session", "status": "?"});
            }
            let modify = getb(c, "modify");
            let res = if gets(c, "kind") == "sub" {
                let (pi, ka, lt) = (dur(&c["pi"]), big(&c["ka"]) as u32, big(&c["lt"]) as u32);
                let req = CreateSubscriptionRequest {
                    request_header: conn.header(),
                    requested_publishing_interval: if modify { 500.0 } else { pi },
                    requested_lifetime_count: if modify { 30 } else { lt },
                    requested_max_keep_alive_count: if modify { 10 } else { ka },
                    max_notifications_per_publish: 0,
                    publishing_enabled: true,
                    priority: 0,
                };
                match conn.call1(req.into()) {
                    SupportedMessage::CreateSubscriptionResponse(r) => {
                        if !modify {
                            json!({"fail": "none", "site": "", "status": "Good", "pi": dur_out(r.revised_publishing_interval),
                                   "ka": big_out(r.revised_max_keep_alive_count as u64), "lt": big_out(r.revised_lifetime_count as u64)})
                        } else {
                            let req = ModifySubscriptionRequest {
                                request_header: conn.header(),
                                subscription_id: r.subscription_id,
                                requested_publishing_interval: pi,
                                requested_lifetime_count: lt,
                                requested_max_keep_alive_count: ka,
                                max_notifications_per_publish: 0,
                                priority: 0,
                            };
                            match conn.call1(req.into()) {
                                SupportedMessage::ModifySubscriptionResponse(r) => {
                                    json!({"fail": "none", "site": "", "status": "Good", "pi": dur_out(r.revised_publishing_interval),
                                           "ka": big_out(r.revised_max_keep_alive_count as u64), "lt": big_out(r.revised_lifetime_count as u64)})
                                }
                                SupportedMessage::ServiceFault(f) => json!({"fail": "none", "site": "", "status": f.response_header.service_result.name()}),
                                _ => json!({"fail": "none", "site": "", "status": "?"}),
                            }
                        }
                    }
                    SupportedMessage::ServiceFault(f) => json!({"fail": "none", "site": "", "status": f.response_header.service_result.name()}),
                    _ => json!({"fail": "none", "site": "", "status": "?"}),
                }
            } else {
                let (si, qs) = (dur(&c["si"]), geti(c, "qs") as u32);
                let req = CreateSubscriptionRequest {
                    request_header: conn.header(),
                    requested_publishing_interval: 1000.0,
                    requested_lifetime_count: 30,
                    requested_max_keep_alive_count: 10,
                    max_notifications_per_publish: 0,
                    publishing_enabled: true,
                    priority: 0,
                };
                let sub = match conn.call1(req.into()) {
                    SupportedMessage::CreateSubscriptionResponse(r) => r.subscription_id,
                    _ => 0,
                };
                let params = |si: f64, qs: u32| MonitoringParameters {
                    client_handle: 1,
                    sampling_interval: si,
                    filter: ExtensionObject::null(),
                    queue_size: qs,
                    discard_oldest: true,
                };
                let req = CreateMonitoredItemsRequest {
                    request_header: conn.header(),
                    subscription_id: sub,
                    timestamps_to_return: TimestampsToReturn::Both,
                    items_to_create: Some(vec![MonitoredItemCreateRequest {
                        item_to_monitor: ReadValueId {
                            node_id: node(1),
                            attribute_id: AttributeId::Value as u32,
                            index_range: UAString::null(),
                            data_encoding: QualifiedName::null(),
                        },
                        monitoring_mode: MonitoringMode::Reporting,
                        requested_parameters: if modify { params(250.0, 2) } else { params(si, qs) },
                    }]),
                };
                match conn.call1(req.into()) {
                    SupportedMessage::CreateMonitoredItemsResponse(r) => {
                        let r0 = r.results.unwrap_or_default().into_iter().next();
                        match r0 {
                            Some(r0) if !modify => {
                                json!({"fail": "none", "site": "", "status": r0.status_code.name(),
                                       "si": dur_out(r0.revised_sampling_interval), "qs": r0.revised_queue_size})
                            }
                            Some(r0) => {
                                let req = ModifyMonitoredItemsRequest {
                                    request_header: conn.header(),
                                    subscription_id: sub,
                                    timestamps_to_return: TimestampsToReturn::Both,
                                    items_to_modify: Some(vec![MonitoredItemModifyRequest {
                                        monitored_item_id: r0.monitored_item_id,
                                        requested_parameters: params(si, qs),
                                    }]),
                                };
                                match conn.call1(req.into()) {
                                    SupportedMessage::ModifyMonitoredItemsResponse(r) => {
                                        match r.results.unwrap_or_default().into_iter().next() {
                                            Some(m) => json!({"fail": "none", "site": "", "status": m.status_code.name(),
                                                              "si": dur_out(m.revised_sampling_interval), "qs": m.revised_queue_size}),
                                            None => json!({"fail": "none", "site": "", "status": "?"}),
                                        }
                                    }
                                    SupportedMessage::ServiceFault(f) => json!({"fail": "none", "site": "", "status": f.response_header.service_result.name()}),
                                    _ => json!({"fail": "none", "site": "", "status": "?"}),
                                }
                            }
                            None => json!({"fail": "none", "site": "", "status": "?"}),
                        }
                    }
                    SupportedMessage::ServiceFault(f) => json!({"fail": "none", "site": "", "status": f.response_header.service_result.name()}),
                    _ => json!({"fail": "none", "site": "", "status": "?"}),
                }
            };
            // a timer tick right after: revised values must also be usable by the subscription loop
            let now = chrono::Utc::now() + chrono::Duration::seconds(5);
            let _ = conn.t.verif_tick(&now);
            conn.close();
            res
        })
    });
    let r = match r {
        Ok(v) => v,
        Err(site) => json!({"fail": "panic", "site": site_sig(&site), "status": "?"}),
    };
    out.push(json!({"case": cid, "i": 1, "c": c, "r": r}));
}
