//! A real `Server` (built once per process) and socket-less connections to it.
use opcua::core::supported_message::SupportedMessage;
use opcua::server::comms::tcp_transport::TcpTransport;
use opcua::server::comms::transport::Transport;
use opcua::server::prelude::*;
use opcua::server::session::Session;
use opcua::sync::RwLock;
use std::sync::Arc;

pub struct Srv {
    pub server: Server,
}

pub fn out_dir() -> String {
    std::env::var("VERIF_OUT").unwrap_or_else(|_| "/verif/out".into())
}

pub const ENDPOINT: &str = "opc.tcp://127.0.0.1:4855/";

impl Srv {
    pub fn new() -> Srv {
        Self::from_builder(Self::builder())
    }

    pub fn builder() -> ServerBuilder {
        let pki = format!("{}/pki-{}", out_dir(), std::process::id() % 8);
        ServerBuilder::new_sample()
            .pki_dir(pki)
            .host_and_port("127.0.0.1", 4855)
            .discovery_urls(vec!["/".into()])
            .discovery_server_url(None)
            .clients_can_modify_address_space()
            .trust_client_certs()
    }

    pub fn from_builder(b: ServerBuilder) -> Srv {
        let server = b.server().expect("server config valid");
        Srv { server }
    }

    pub fn connect(&self) -> Conn {
        let mut t = self.server.new_transport();
        t.verif_start();
        Conn {
            t,
            req_handle: 1,
            token: NodeId::null(),
            address_space: self.server.address_space(),
            server_state: self.server.server_state(),
        }
    }
}

/// One server-side connection driven without a socket.
pub struct Conn {
    pub t: TcpTransport,
    pub req_handle: u32,
    pub token: NodeId,
    pub address_space: Arc<RwLock<AddressSpace>>,
    pub server_state: Arc<RwLock<opcua::server::state::ServerState>>,
}

impl Conn {
    pub fn header(&mut self) -> RequestHeader {
        self.req_handle += 1;
        RequestHeader {
            authentication_token: self.token.clone(),
            timestamp: DateTime::now(),
            request_handle: self.req_handle,
            return_diagnostics: DiagnosticBits::empty(),
            audit_entry_id: UAString::null(),
            timeout_hint: 0,
            additional_header: ExtensionObject::null(),
        }
    }

    /// dispatch a request through the real message handler; returns the responses it sent
    pub fn call(&mut self, msg: SupportedMessage) -> Vec<(u32, SupportedMessage)> {
        let id = self.req_handle;
        let (_r, out) = self.t.verif_message(id, &msg);
        out
    }

    pub fn call1(&mut self, msg: SupportedMessage) -> SupportedMessage {
        let mut out = self.call(msg);
        if out.is_empty() {
            SupportedMessage::Invalid(ObjectId::ServiceFault_Encoding_DefaultBinary)
        } else {
            out.remove(0).1
        }
    }

    /// CreateSession + ActivateSession (anonymous) on the policy-None endpoint
    pub fn open_session(&mut self) -> bool {
        {
            let sc = self.t.verif_secure_channel();
            let mut sc = sc.write();
            sc.set_secure_channel_id(1);
        }
        let req = CreateSessionRequest {
            request_header: self.header(),
            client_description: ApplicationDescription::default(),
            server_uri: UAString::null(),
            endpoint_url: UAString::from(ENDPOINT),
            session_name: UAString::from("verif"),
            client_nonce: ByteString::null(),
            client_certificate: ByteString::null(),
            requested_session_timeout: 0.0,
            max_response_message_size: 0,
        };
        let r = self.call1(req.into());
        let tok = match r {
            SupportedMessage::CreateSessionResponse(r) => r.authentication_token.clone(),
            _ => return false,
        };
        self.token = tok;
        let req = ActivateSessionRequest {
            request_header: self.header(),
            client_signature: SignatureData::null(),
            client_software_certificates: None,
            locale_ids: None,
            user_identity_token: ExtensionObject::from_encodable(
                ObjectId::AnonymousIdentityToken_Encoding_DefaultBinary,
                &AnonymousIdentityToken { policy_id: UAString::from("anonymous") },
            ),
            user_token_signature: SignatureData::null(),
        };
        matches!(self.call1(req.into()), SupportedMessage::ActivateSessionResponse(_))
    }

    pub fn session(&self) -> Option<Arc<RwLock<Session>>> {
        let sm = self.t.session_manager();
        let sm = sm.read();
        sm.sessions.values().next().cloned()
    }

    pub fn close(&mut self) {
        self.t.finish(StatusCode::Good);
    }
}
