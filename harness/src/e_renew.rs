//! Engine `renew` (C14): replays behaviours of Renew.tla on a real client-role / server-role SecureChannel pair:
//! real server TcpTransport (reader task: process_chunk -> open_secure_channel), real MessageWriter securing at
//! write time, real client SecureChannelState begin/end renew, real chunks in harness-held FIFO queues.
use crate::srv::*;
use crate::util::*;
use crate::Obs;
use opcua::client::verif::VerifSecureChannelState;
use opcua::core::comms::message_writer::MessageWriter;
use opcua::core::comms::prelude::*;
use opcua::core::supported_message::SupportedMessage;
use opcua::crypto::SecurityPolicy;
use opcua::server::prelude::*;
use opcua::sync::RwLock;
use serde_json::{json, Value};
use std::collections::VecDeque;
use std::sync::Arc;

thread_local! {
    static SRV: Srv = Srv::new();
}

struct W {
    conn: Conn,
    cchan: Arc<RwLock<SecureChannel>>,
    cstate: VerifSecureChannelState,
    cseq: u32,
    creq: u32,
    writer: MessageWriter,
    c2s: VecDeque<Vec<u8>>,
    s2c: VecDeque<Vec<u8>>,
    respq: VecDeque<(u32, SupportedMessage)>,
    got_opn: Option<SupportedMessage>,
}

fn secure(chan: &SecureChannel, seq: &mut u32, req: u32, msg: &SupportedMessage) -> Result<Vec<u8>, StatusCode> {
    let chunks = Chunker::encode(*seq + 1, req, 0, 0, chan, msg)?;
    let mut out = Vec::new();
    for c in &chunks {
        *seq += 1;
        let mut dst = vec![0u8; c.data.len() + 4096];
        let n = chan.apply_security(c, &mut dst)?;
        out.extend_from_slice(&dst[..n]);
    }
    Ok(out)
}

impl W {
    fn client_send(&mut self, msg: SupportedMessage) -> Result<(), StatusCode> {
        self.creq += 1;
        let chan = self.cchan.read();
        let b = secure(&chan, &mut self.cseq, self.creq, &msg)?;
        drop(chan);
        self.c2s.push_back(b);
        Ok(())
    }

    fn read_request(&self) -> SupportedMessage {
        ReadRequest {
            request_header: RequestHeader {
                authentication_token: NodeId::null(),
                timestamp: DateTime::now(),
                request_handle: self.creq + 1,
                return_diagnostics: DiagnosticBits::empty(),
                audit_entry_id: UAString::null(),
                timeout_hint: 0,
                additional_header: ExtensionObject::null(),
            },
            max_age: 0.0,
            timestamps_to_return: TimestampsToReturn::Both,
            nodes_to_read: Some(vec![ReadValueId {
                node_id: VariableId::Server_ServerStatus_State.into(),
                attribute_id: AttributeId::Value as u32,
                index_range: UAString::null(),
                data_encoding: QualifiedName::null(),
            }]),
        }
        .into()
    }

    /// server reader task: one frame
    fn server_recv(&mut self) -> Option<bool> {
        let b = self.c2s.pop_front()?;
        let (r, outs) = self.conn.t.verif_chunk(MessageChunk { data: b });
        for (id, m) in outs {
            self.respq.push_back((id, m));
        }
        Some(r.is_ok())
    }

    /// server writer task: secure the oldest queued response with the keys held NOW
    fn server_write(&mut self) -> Option<bool> {
        let (id, m) = self.respq.pop_front()?;
        let sc = self.conn.t.verif_secure_channel();
        let sc = sc.read();
        let ok = self.writer.write(id, m, &sc).is_ok();
        let b = self.writer.bytes_to_write();
        if ok {
            self.s2c.push_back(b);
        }
        Some(ok)
    }

    /// client transport task: verify with the keys the client channel holds NOW
    fn client_recv(&mut self) -> Option<bool> {
        let b = self.s2c.pop_front()?;
        let r = {
            let mut chan = self.cchan.write();
            chan.verify_and_remove_security(&b)
        };
        match r {
            Ok(chunk) => {
                let chan = self.cchan.read();
                if let Ok(m) = Chunker::decode(&[chunk], &chan, None) {
                    if let SupportedMessage::OpenSecureChannelResponse(_) = m {
                        self.got_opn = Some(m);
                    }
                }
                Some(true)
            }
            Err(_) => Some(false),
        }
    }
}

fn setup(srv: &Srv) -> Result<W, String> {
    let mut conn = srv.connect();
    let (r, _) = conn.t.verif_hello(HelloMessage::new(ENDPOINT, 65535, 65535, 0, 0));
    r.map_err(|e| format!("hello {}", e))?;
    let store = srv.server.certificate_store();
    let mut chan = SecureChannel::new(store.clone(), Role::Client, DecodingOptions::default());
    let server_cert = { store.read().read_own_cert_and_pkey().map_err(|e| format!("cert {}", e))?.0 };
    chan.set_remote_cert(Some(server_cert));
    chan.set_security_policy(SecurityPolicy::Basic256Sha256);
    chan.set_security_mode(MessageSecurityMode::SignAndEncrypt);
    let cchan = Arc::new(RwLock::new(chan));
    let cstate = VerifSecureChannelState::verif_new(cchan.clone());
    let mut w = W {
        conn,
        cchan,
        cstate,
        cseq: 0,
        creq: 0,
        writer: MessageWriter::new(65535, 0, 0),
        c2s: VecDeque::new(),
        s2c: VecDeque::new(),
        respq: VecDeque::new(),
        got_opn: None,
    };
    // issue
    let req = w.cstate.verif_begin_issue_or_renew(SecurityTokenRequestType::Issue);
    w.client_send(req).map_err(|e| format!("issue send {}", e))?;
    if w.server_recv() != Some(true) {
        return Err("issue rejected by server".into());
    }
    if w.server_write() != Some(true) {
        return Err("issue response not written".into());
    }
    if w.client_recv() != Some(true) {
        return Err("issue response rejected by client".into());
    }
    let opn = w.got_opn.take().ok_or("no issue response")?;
    w.cstate.verif_end_issue_or_renew(opn).map_err(|e| format!("end issue {}", e))?;
    Ok(w)
}

pub fn run_case(case: &Value, out: &mut Obs) {
    let cid = case.get("case").cloned().unwrap_or(Value::Null);
    SRV.with(|srv| {
        let mut w = match guard(|| setup(srv)) {
            Ok(Ok(w)) => w,
            Ok(Err(e)) => {
                out.push(json!({"case": cid, "i": 1, "ev": "Setup", "side": "client", "k": "SETUP", "id": 0, "tok": 0, "acc": false,
                                "fail": "setup", "site": e}));
                return;
            }
            Err(site) => {
                out.push(json!({"case": cid, "i": 1, "ev": "Setup", "side": "client", "k": "SETUP", "id": 0, "tok": 0, "acc": false,
                                "fail": "panic", "site": site_sig(&site)}));
                return;
            }
        };
        let empty = vec![];
        for (i, s) in case.get("steps").and_then(|s| s.as_array()).unwrap_or(&empty).iter().enumerate() {
            let ev = gets(s, "ev").to_string();
            let side = gets(s, "side").to_string();
            let k = gets(s, "k").to_string();
            let r = guard(|| -> Result<bool, String> {
                match (ev.as_str(), side.as_str(), k.as_str()) {
                    ("Secure", "client", _) => {
                        let m = w.read_request();
                        w.client_send(m).map(|_| true).map_err(|e| format!("client secure: {}", e))
                    }
                    ("BeginRenew", _, _) => {
                        let m = w.cstate.verif_begin_issue_or_renew(SecurityTokenRequestType::Renew);
                        w.client_send(m).map(|_| true).map_err(|e| format!("client renew secure: {}", e))
                    }
                    ("EndRenew", _, _) => {
                        let m = w.got_opn.take().ok_or("no OPN response held")?;
                        w.cstate.verif_end_issue_or_renew(m).map(|_| true).map_err(|e| format!("end renew: {}", e))
                    }
                    ("Secure", "server", _) => w.server_write().ok_or_else(|| "nothing to write".to_string()),
                    ("Deliver", to, "FORGED") => {
                        // a chunk secured with the keys of a channel that was never issued on this connection
                        let store = srv.server.certificate_store();
                        let mut f = SecureChannel::new(store, if to == "server" { Role::Client } else { Role::Server }, DecodingOptions::default());
                        f.set_security_policy(SecurityPolicy::Basic256Sha256);
                        f.set_security_mode(MessageSecurityMode::SignAndEncrypt);
                        f.create_random_nonce();
                        let n = SecurityPolicy::Basic256Sha256.random_nonce();
                        f.set_remote_nonce(n.as_ref());
                        f.derive_keys();
                        let (cid_, tid) = { let c = w.cchan.read(); (c.secure_channel_id(), c.token_id()) };
                        f.set_secure_channel_id(cid_);
                        f.set_token_id(tid);
                        let mut seq = 5000;
                        let m = w.read_request();
                        let b = secure(&f, &mut seq, 5000, &m).map_err(|e| format!("forge: {}", e))?;
                        if to == "server" {
                            let (r, outs) = w.conn.t.verif_chunk(MessageChunk { data: b });
                            Ok(r.is_ok() && !outs.is_empty())
                        } else {
                            let mut chan = w.cchan.write();
                            Ok(chan.verify_and_remove_security(&b).is_ok())
                        }
                    }
                    ("Deliver", "server", _) => w.server_recv().ok_or_else(|| "wire empty".to_string()),
                    ("Deliver", "client", _) => w.client_recv().ok_or_else(|| "wire empty".to_string()),
                    _ => Err("unknown step".into()),
                }
            });
            let mut o = s.clone();
            let obj = o.as_object_mut().unwrap();
            obj.insert("case".into(), cid.clone());
            obj.insert("i".into(), json!(i + 1));
            let mut stop = false;
            match r {
                Ok(Ok(acc)) => {
                    obj.insert("acc".into(), json!(acc));
                    obj.insert("fail".into(), json!("none"));
                    obj.insert("site".into(), json!(""));
                }
                Ok(Err(e)) => {
                    // the harness could not perform the step (the real objects are not where the model is)
                    obj.insert("acc".into(), json!(false));
                    obj.insert("fail".into(), json!("harness"));
                    obj.insert("site".into(), json!(e));
                    stop = true;
                }
                Err(site) => {
                    obj.insert("acc".into(), json!(false));
                    obj.insert("fail".into(), json!("panic"));
                    obj.insert("site".into(), json!(site_sig(&site)));
                    stop = true;
                }
            }
            out.push(o);
            if stop {
                break;
            }
        }
        let _ = guard(|| w.conn.close());
    });
}
