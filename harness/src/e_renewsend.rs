//! Engine `renewsend` (C14): replays behaviours of RenewSend.tla on the real `AsyncSecureChannel::send` of a real client
//! `Session` run by several caller tasks (one future per caller, polled exactly when the specification says the task
//! runs), with the harness standing where the client transport task sits (it takes requests from the channel's request
//! queue, secures each with the keys the client channel holds at that moment, verifies responses with the keys held
//! then and completes the waiting request) and a real server connection (TcpTransport reader path, MessageWriter
//! securing at write time) on the other side of two FIFO wires.
use crate::srv::*;
use crate::util::*;
use crate::Obs;
use opcua::client::verif::{VerifOutgoing, VerifRequests};
use opcua::client::{Client, ClientBuilder, Session};
use opcua::core::comms::message_writer::MessageWriter;
use opcua::core::comms::prelude::*;
use opcua::core::supported_message::SupportedMessage;
use opcua::crypto::SecurityPolicy;
use opcua::server::prelude::*;
use opcua::sync::RwLock;
use serde_json::{json, Value};
use std::collections::{HashMap, VecDeque};
use std::future::Future;
use std::pin::Pin;
use std::sync::Arc;
use std::task::{Context, Poll};

thread_local! {
    static SRV: Srv = Srv::new();
    static RT: tokio::runtime::Runtime = tokio::runtime::Builder::new_current_thread().enable_all().build().unwrap();
    static CLIENT: std::cell::RefCell<Client> = std::cell::RefCell::new(
        ClientBuilder::new()
            .application_name("verif client")
            .application_uri("urn:verif-client")
            .create_sample_keypair(false)
            .trust_server_certs(true)
            .pki_dir(format!("{}/pki-client-renew", std::env::var("VERIF_OUT").unwrap_or_else(|_| "/verif/out".into())))
            .session_retry_limit(0)
            .client()
            .expect("client config valid"));
}

type CallFuture = Pin<Box<dyn Future<Output = Result<Vec<DataValue>, StatusCode>>>>;
type Callback = tokio::sync::oneshot::Sender<Result<SupportedMessage, StatusCode>>;

fn poll_once(f: &mut CallFuture) -> Poll<Result<Vec<DataValue>, StatusCode>> {
    let w = futures::task::noop_waker();
    let mut cx = Context::from_waker(&w);
    f.as_mut().poll(&mut cx)
}

struct W {
    conn: Conn,
    session: Arc<Session>,
    cchan: Arc<RwLock<SecureChannel>>,
    queue: VerifRequests,
    outq: VecDeque<VerifOutgoing>,
    pending: HashMap<u32, Callback>,
    futs: HashMap<i64, CallFuture>,
    cseq: u32,
    creq: u32,
    writer: MessageWriter,
    c2s: VecDeque<Vec<u8>>,
    s2c: VecDeque<Vec<u8>>,
    respq: VecDeque<(u32, SupportedMessage)>,
}

fn secure(chan: &SecureChannel, seq: &mut u32, req: u32, msg: &SupportedMessage) -> Result<Vec<u8>, StatusCode> {
    let chunks = Chunker::encode(*seq + 1, req, 0, 0, chan, msg)?;
    let mut out = Vec::new();
    for c in &chunks {
        *seq += 1;
        let mut dst = vec![0u8; c.data.len() + 4096];
        let n = chan.apply_security(c, &mut dst)?;
        out.extend_from_slice(&dst[..n]);
    }
    Ok(out)
}

fn kind_of(m: &SupportedMessage) -> &'static str {
    match m {
        SupportedMessage::OpenSecureChannelRequest(_) => "OPNQ",
        _ => "MSG",
    }
}

impl W {
    /// what the caller tasks put into the channel's request queue since the last look
    fn drain(&mut self) -> Vec<&'static str> {
        let mut kinds = Vec::new();
        while let Some(o) = self.queue.try_next() {
            kinds.push(kind_of(&o.request));
            self.outq.push_back(o);
        }
        kinds
    }

    /// client transport task, sending half
    fn client_write(&mut self, want: &str) -> Result<bool, String> {
        let o = self.outq.pop_front().ok_or("request queue empty")?;
        if kind_of(&o.request) != want {
            return Err(format!("head of the request queue is {} not {}", kind_of(&o.request), want));
        }
        self.creq += 1;
        let b = {
            let chan = self.cchan.read();
            secure(&chan, &mut self.cseq, self.creq, &o.request).map_err(|e| format!("client secure: {}", e))?
        };
        if let Some(cb) = o.callback {
            self.pending.insert(self.creq, cb);
        }
        self.c2s.push_back(b);
        Ok(true)
    }

    fn server_recv(&mut self) -> Option<bool> {
        let b = self.c2s.pop_front()?;
        let (r, outs) = self.conn.t.verif_chunk(MessageChunk { data: b });
        for (id, m) in outs {
            self.respq.push_back((id, m));
        }
        Some(r.is_ok())
    }

    fn server_write(&mut self) -> Option<bool> {
        let (id, m) = self.respq.pop_front()?;
        let sc = self.conn.t.verif_secure_channel();
        let sc = sc.read();
        let ok = self.writer.write(id, m, &sc).is_ok();
        let b = self.writer.bytes_to_write();
        if ok {
            self.s2c.push_back(b);
        }
        Some(ok)
    }

    /// client transport task, receiving half: verify with the keys held NOW, complete the waiting request
    fn client_recv(&mut self) -> Option<bool> {
        let b = self.s2c.pop_front()?;
        let r = {
            let mut chan = self.cchan.write();
            chan.verify_and_remove_security(&b)
        };
        match r {
            Ok(chunk) => {
                let chan = self.cchan.read();
                let id = chunk.chunk_info(&chan).map(|i| i.sequence_header.request_id).unwrap_or(0);
                match Chunker::decode(&[chunk], &chan, None) {
                    Ok(m) => {
                        if let Some(cb) = self.pending.remove(&id) {
                            let _ = cb.send(Ok(m));
                        }
                        Some(true)
                    }
                    Err(_) => Some(false),
                }
            }
            Err(_) => Some(false),
        }
    }
}

fn setup(srv: &Srv) -> Result<W, String> {
    let mut conn = srv.connect();
    let (r, _) = conn.t.verif_hello(HelloMessage::new(ENDPOINT, 65535, 65535, 0, 0));
    r.map_err(|e| format!("hello {}", e))?;
    let endpoint: EndpointDescription = ("opc.tcp://127.0.0.1:4855/", "None", MessageSecurityMode::None, UserTokenPolicy::anonymous()).into();
    let (session, _event_loop) = CLIENT.with(|c| c.borrow_mut().new_session_from_info(endpoint)).map_err(|e| format!("session {}", e))?;
    let cchan = session.verif_channel().verif_secure_channel();
    {
        // what create_transport() does before connecting; the client presents the certificate / key of the server's store
        let store = srv.server.certificate_store();
        let (cert, key) = store.read().read_own_cert_and_pkey().map_err(|e| format!("cert {}", e))?;
        let mut chan = cchan.write();
        chan.set_cert(Some(cert.clone()));
        chan.set_private_key(Some(key));
        chan.set_remote_cert(Some(cert));
        chan.set_security_policy(SecurityPolicy::Basic256Sha256);
        chan.set_security_mode(MessageSecurityMode::SignAndEncrypt);
    }
    let queue = session.verif_wire(16);
    let mut w = W {
        conn,
        session,
        cchan,
        queue,
        outq: VecDeque::new(),
        pending: HashMap::new(),
        futs: HashMap::new(),
        cseq: 0,
        creq: 0,
        writer: MessageWriter::new(65535, 0, 0),
        c2s: VecDeque::new(),
        s2c: VecDeque::new(),
        respq: VecDeque::new(),
    };
    // issue (what connect_no_retry does with begin / end_issue_or_renew_secure_channel)
    let req = w.session.verif_channel().verif_state().verif_begin_issue_or_renew(SecurityTokenRequestType::Issue);
    w.creq += 1;
    let b = {
        let chan = w.cchan.read();
        secure(&chan, &mut w.cseq, w.creq, &req).map_err(|e| format!("issue secure {}", e))?
    };
    w.c2s.push_back(b);
    if w.server_recv() != Some(true) {
        return Err("issue rejected by server".into());
    }
    if w.server_write() != Some(true) {
        return Err("issue response not written".into());
    }
    let b = w.s2c.pop_front().ok_or("no issue response")?;
    let opn = {
        let chunk = w.cchan.write().verify_and_remove_security(&b).map_err(|e| format!("issue response rejected {}", e))?;
        let chan = w.cchan.read();
        Chunker::decode(&[chunk], &chan, None).map_err(|e| format!("issue response decode {}", e))?
    };
    w.session.verif_channel().verif_state().verif_end_issue_or_renew(opn).map_err(|e| format!("end issue {}", e))?;
    Ok(w)
}

pub fn run_case(case: &Value, out: &mut Obs) {
    let cid = case.get("case").cloned().unwrap_or(Value::Null);
    RT.with(|rt| {
        let _g = rt.enter();
        SRV.with(|srv| {
            let mut w = match guard(|| setup(srv)) {
                Ok(Ok(w)) => w,
                Ok(Err(e)) => {
                    out.push(json!({"case": cid, "i": 1, "ev": "Setup", "side": "client", "k": "SETUP", "id": 0, "tok": 0, "acc": false,
                                    "fail": "setup", "site": e}));
                    return;
                }
                Err(site) => {
                    out.push(json!({"case": cid, "i": 1, "ev": "Setup", "side": "client", "k": "SETUP", "id": 0, "tok": 0, "acc": false,
                                    "fail": "panic", "site": site_sig(&site)}));
                    return;
                }
            };
            let empty = vec![];
            for (i, s) in case.get("steps").and_then(|s| s.as_array()).unwrap_or(&empty).iter().enumerate() {
                let ev = gets(s, "ev").to_string();
                let side = gets(s, "side").to_string();
                let k = gets(s, "k").to_string();
                let who = geti(s, "id");
                let mut did = String::new();
                let r = guard(|| -> Result<bool, String> {
                    match (ev.as_str(), side.as_str()) {
                        ("TokenDue", _) => {
                            // three quarters of the lifetime are over: the client's view of the token's lifetime shrinks to nothing
                            {
                                let mut c = w.cchan.write();
                                let t = ChannelSecurityToken { channel_id: c.secure_channel_id(), token_id: c.token_id(), created_at: DateTime::now(), revised_lifetime: 0 };
                                c.set_security_token(t);
                            }
                            std::thread::sleep(std::time::Duration::from_millis(2));
                            let due = w.cchan.read().should_renew_security_token();
                            did = "due".into();
                            if due { Ok(true) } else { Err("token not due".into()) }
                        }
                        ("Call", _) => {
                            let sess = w.session.clone();
                            let mut f: CallFuture = Box::pin(async move {
                                sess.read(&[ReadValueId { node_id: VariableId::Server_ServerStatus_State.into(), attribute_id: AttributeId::Value as u32,
                                                          index_range: UAString::null(), data_encoding: QualifiedName::null() }],
                                          TimestampsToReturn::Both, 0.0).await
                            });
                            let p = poll_once(&mut f);
                            let kinds = w.drain();
                            if p.is_ready() {
                                return Err("send returned at once".into());
                            }
                            w.futs.insert(who, f);
                            did = match kinds.as_slice() { [] => "wait", ["OPNQ"] => "begin", ["MSG"] => "msg", _ => "other" }.into();
                            Ok(true)
                        }
                        ("Resume", _) | ("EndRenew", _) => {
                            let f = w.futs.get_mut(&who).ok_or("no such caller")?;
                            let p = poll_once(f);
                            let kinds = w.drain();
                            if let Poll::Ready(r) = p {
                                w.futs.remove(&who);
                                did = format!("returned:{}", r.err().map(|e| e.name().to_string()).unwrap_or_else(|| "Ok".into()));
                                return Ok(false);
                            }
                            did = match kinds.as_slice() { [] => "wait", ["OPNQ"] => "begin", ["MSG"] => "msg", _ => "other" }.into();
                            Ok(true)
                        }
                        ("Done", _) => {
                            let f = w.futs.get_mut(&who).ok_or("no such caller")?;
                            let p = poll_once(f);
                            let _ = w.drain();
                            match p {
                                Poll::Ready(_) => {
                                    w.futs.remove(&who);
                                    did = "msg".into();
                                    Ok(true)
                                }
                                Poll::Pending => {
                                    did = "pending".into();
                                    Ok(false)
                                }
                            }
                        }
                        ("Secure", "client") => w.client_write(&k),
                        ("Secure", "server") => w.server_write().ok_or_else(|| "nothing to write".to_string()),
                        ("Deliver", "server") => w.server_recv().ok_or_else(|| "wire empty".to_string()),
                        ("Deliver", "client") => w.client_recv().ok_or_else(|| "wire empty".to_string()),
                        _ => Err("unknown step".into()),
                    }
                });
                let mut o = s.clone();
                let obj = o.as_object_mut().unwrap();
                obj.insert("case".into(), cid.clone());
                obj.insert("i".into(), json!(i + 1));
                obj.insert("did".into(), json!(did));
                let mut stop = false;
                match r {
                    Ok(Ok(acc)) => {
                        obj.insert("acc".into(), json!(acc));
                        obj.insert("fail".into(), json!("none"));
                        obj.insert("site".into(), json!(""));
                    }
                    Ok(Err(e)) => {
                        // the harness could not perform the step (the real objects are not where the model is): the driver
                        // takes this record out before the monitor reads the observations
                        obj.insert("acc".into(), json!(false));
                        obj.insert("fail".into(), json!("none"));
                        obj.insert("site".into(), json!(""));
                        obj.insert("harness".into(), json!(e));
                        stop = true;
                    }
                    Err(site) => {
                        obj.insert("acc".into(), json!(false));
                        obj.insert("fail".into(), json!("panic"));
                        obj.insert("site".into(), json!(site_sig(&site)));
                        stop = true;
                    }
                }
                out.push(o);
                if stop {
                    break;
                }
            }
            w.futs.clear();
            let _ = guard(|| w.conn.close());
        });
    });
}
