//! Engine `lockconfirm` (C38): replays a TLC deadlock schedule of two recorded acquisition programs on the REAL lock objects
//! of a real server (ServerState, AddressSpace, the shared SessionManager, the Sessions and transports of two connections),
//! one OS thread per program, every acquisition timed. The deadlock is confirmed when, at the end of the schedule, every
//! unfinished thread fails to obtain its next lock although all attempts run concurrently.
use crate::srv::*;
use crate::util::*;
use crate::Obs;
use opcua::server::comms::tcp_transport::TcpTransport;
use opcua::server::comms::transport::Transport;
use opcua::server::prelude::*;
use opcua::server::session::{Session, SessionManager};
use opcua::server::state::ServerState;
use opcua::sync::RwLock;
use serde_json::{json, Value};
use std::any::Any;
use std::collections::HashMap;
use std::sync::mpsc::{channel, Receiver, Sender};
use std::sync::Arc;
use std::time::Duration;

#[derive(Clone)]
enum Real {
    SS(&'static RwLock<ServerState>),
    AS(&'static RwLock<AddressSpace>),
    SM(&'static RwLock<SessionManager>),
    Se(&'static RwLock<Session>),
    Tr(&'static RwLock<TcpTransport>),
}

fn leak<T>(a: &Arc<RwLock<T>>) -> &'static RwLock<T> {
    let b: &'static Arc<RwLock<T>> = Box::leak(Box::new(a.clone()));
    &**b
}

fn acquire(l: &Real, mode: &str, t: Duration) -> Option<Box<dyn Any>> {
    macro_rules! go {
        ($x:expr) => {
            if mode == "R" {
                $x.try_read_for(t).map(|g| Box::new(g) as Box<dyn Any>)
            } else {
                $x.try_write_for(t).map(|g| Box::new(g) as Box<dyn Any>)
            }
        };
    }
    match l {
        Real::SS(x) => go!(x),
        Real::AS(x) => go!(x),
        Real::SM(x) => go!(x),
        Real::Se(x) => go!(x),
        Real::Tr(x) => go!(x),
    }
}

enum Cmd {
    Step(u64),  // timeout ms for an acquisition
    Quit,
}

fn worker(prog: Vec<(String, String, String)>, locks: HashMap<String, Real>, rx: Receiver<Cmd>, tx: Sender<(bool, usize)>) {
    let mut pc = 0usize;
    let mut held: Vec<(String, Box<dyn Any>)> = Vec::new();
    while let Ok(c) = rx.recv() {
        match c {
            Cmd::Quit => break,
            Cmd::Step(ms) => {
                if pc >= prog.len() {
                    let _ = tx.send((true, pc));
                    continue;
                }
                let (op, lock, mode) = prog[pc].clone();
                let ok = if op == "acq" {
                    match locks.get(&lock) {
                        None => true, // a lock outside the replayed set
                        Some(l) => match acquire(l, &mode, Duration::from_millis(ms)) {
                            Some(g) => {
                                held.push((lock.clone(), g));
                                true
                            }
                            None => false,
                        },
                    }
                } else {
                    if let Some(i) = held.iter().rposition(|h| h.0 == lock) {
                        let _ = held.remove(i);
                    }
                    true
                };
                if ok {
                    pc += 1;
                }
                let _ = tx.send((ok, pc));
            }
        }
    }
    drop(held);
}

pub fn run_case(case: &Value, out: &mut Obs) {
    let cid = case.get("case").cloned().unwrap_or(Value::Null);
    let r = guard(|| {
        let srv: &'static Srv = Box::leak(Box::new(Srv::new()));
        let mut locks: HashMap<String, Real> = HashMap::new();
        locks.insert("ServerState#1".into(), Real::SS(leak(&srv.server.server_state())));
        locks.insert("AddressSpace#1".into(), Real::AS(leak(&srv.server.address_space())));
        for k in 1..=2 {
            let mut c = srv.connect();
            assert!(c.open_session());
            let sm = c.t.session_manager();
            locks.insert("SessionManager#1".into(), Real::SM(leak(&sm)));
            let s = { sm.read().find_session_by_token(&c.token).expect("session") };
            locks.insert(format!("Session#{}", k), Real::Se(leak(&s)));
            let t = Arc::new(RwLock::new(std::mem::replace(&mut c.t, srv.server.new_transport())));
            locks.insert(format!("TcpTransport#{}", k), Real::Tr(leak(&t)));
            std::mem::forget(c);
        }
        let names: Vec<String> = case["group"].as_array().unwrap().iter().map(|x| x.as_str().unwrap().to_string()).collect();
        let mut chans = Vec::new();
        let mut handles = Vec::new();
        for n in &names {
            let prog: Vec<(String, String, String)> = case["programs"][n]
                .as_array()
                .unwrap()
                .iter()
                .map(|i| (i[0].as_str().unwrap().to_string(), i[1].as_str().unwrap().to_string(), i[2].as_str().unwrap().to_string()))
                .collect();
            let (ctx, crx) = channel();
            let (rtx, rrx) = channel();
            let l = locks.clone();
            handles.push(std::thread::spawn(move || worker(prog, l, crx, rtx)));
            chans.push((ctx, rrx));
        }
        let mut pcs = vec![0usize; names.len()];
        let mut log = Vec::new();
        for s in case["schedule"].as_array().unwrap() {
            let p = s.as_u64().unwrap() as usize;
            let _ = chans[p].0.send(Cmd::Step(150));
            let (ok, pc) = chans[p].1.recv().unwrap();
            pcs[p] = pc;
            log.push(json!([p, ok, pc]));
        }
        // final state: every unfinished program tries its next instruction, all at the same time
        let lens: Vec<usize> = names.iter().map(|n| case["programs"][n].as_array().unwrap().len()).collect();
        let unfinished: Vec<usize> = (0..names.len()).filter(|i| pcs[*i] < lens[*i]).collect();
        for p in &unfinished {
            let _ = chans[*p].0.send(Cmd::Step(1200));
        }
        let mut blocked = 0;
        for p in &unfinished {
            let (ok, _pc) = chans[*p].1.recv().unwrap();
            if !ok {
                blocked += 1;
            }
        }
        for c in &chans {
            let _ = c.0.send(Cmd::Quit);
        }
        for h in handles {
            let _ = h.join();
        }
        json!({"unfinished": unfinished.len(), "blocked": blocked, "pcs": pcs, "log": log})
    });
    match r {
        Ok(v) => out.push(json!({"case": cid, "i": 1, "fail": "none", "site": "", "r": v})),
        Err(site) => out.push(json!({"case": cid, "i": 1, "fail": "panic", "site": site_sig(&site), "r": {"unfinished": 0, "blocked": 0}})),
    }
}
