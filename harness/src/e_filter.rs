//! Engine `filter` (C25): a real monitored item with a real DataChangeFilter samples a sequence of DataValues,
//! one per publishing interval with a publish request queued; reports which samples produced a notification.
use crate::e_subs::node;
use crate::srv::*;
use crate::util::*;
use crate::Obs;
use chrono::{DateTime as CDateTime, Duration as CDuration, Utc};
use opcua::core::supported_message::SupportedMessage;
use opcua::server::prelude::*;
use serde_json::{json, Value};

thread_local! {
    static SRV: Srv = {
        let s = Srv::new();
        {
            let a = s.server.address_space();
            let mut a = a.write();
            let id = NodeId::new(2, "v1");
            let _ = VariableBuilder::new(&id, "v1", "")
                .data_type(DataTypeId::BaseDataType)
                .organized_by(ObjectId::ObjectsFolder)
                .value(0i32)
                .insert(&mut a);
        }
        s
    };
}

fn variant(v: i64) -> Variant {
    if v >= 0 {
        Variant::Double(v as f64)
    } else {
        Variant::String(UAString::from(format!("s{}", -v)))
    }
}

fn run(srv: &Srv, c: &Value) -> Value {
    let f = &c["f"];
    let trig = match gets(f, "trig") {
        "Status" => DataChangeTrigger::Status,
        "StatusValue" => DataChangeTrigger::StatusValue,
        _ => DataChangeTrigger::StatusValueTimestamp,
    };
    let (dt, dv) = match gets(f, "db") {
        "abs0" => (DeadbandType::Absolute, 0.0),
        "abs1" => (DeadbandType::Absolute, 1.0),
        "absneg" => (DeadbandType::Absolute, -1.0),
        "pct" => (DeadbandType::Percent, 10.0),
        _ => (DeadbandType::None, 0.0),
    };
    let filter = DataChangeFilter { trigger: trig, deadband_type: dt as u32, deadband_value: dv };
    let base = CDateTime::<Utc>::from_timestamp(Utc::now().timestamp(), 0).unwrap();
    let at = |t: i64| base + CDuration::milliseconds(t * 1000);
    let mut conn = srv.connect();
    if !conn.open_session() {
        return json!({"fail": "setup", "site": "open_session", "accepted": false, "rep": []});
    }
    let req = CreateSubscriptionRequest {
        request_header: conn.header(),
        requested_publishing_interval: 1000.0,
        requested_lifetime_count: 300,
        requested_max_keep_alive_count: 100,
        max_notifications_per_publish: 0,
        publishing_enabled: true,
        priority: 0,
    };
    let sub = match conn.call1(req.into()) {
        SupportedMessage::CreateSubscriptionResponse(r) => r.subscription_id,
        _ => return json!({"fail": "setup", "site": "create_subscription", "accepted": false, "rep": []}),
    };
    let req = CreateMonitoredItemsRequest {
        request_header: conn.header(),
        subscription_id: sub,
        timestamps_to_return: TimestampsToReturn::Both,
        items_to_create: Some(vec![MonitoredItemCreateRequest {
            item_to_monitor: ReadValueId {
                node_id: node(1),
                attribute_id: AttributeId::Value as u32,
                index_range: UAString::null(),
                data_encoding: QualifiedName::null(),
            },
            monitoring_mode: MonitoringMode::Reporting,
            requested_parameters: MonitoringParameters {
                client_handle: 1,
                sampling_interval: -1.0,
                filter: ExtensionObject::from_encodable(ObjectId::DataChangeFilter_Encoding_DefaultBinary, &filter),
                queue_size: 10,
                discard_oldest: true,
            },
        }]),
    };
    let accepted = match conn.call1(req.into()) {
        SupportedMessage::CreateMonitoredItemsResponse(r) => {
            r.results.unwrap_or_default().first().map(|x| x.status_code.is_good()).unwrap_or(false)
        }
        _ => false,
    };
    if !accepted {
        conn.close();
        return json!({"fail": "none", "site": "", "accepted": false, "rep": []});
    }
    if let Some(sess) = conn.session() {
        sess.write().verif_set_clock(sub, &at(0));
    }
    let mut rep = Vec::new();
    let empty = vec![];
    let mut reqid = 10u32;
    for (k, d) in c["dvs"].as_array().unwrap_or(&empty).iter().enumerate() {
        let t = (k as i64) + 1;
        {
            let a = conn.address_space.clone();
            let mut a = a.write();
            if let Some(var) = a.find_variable_mut(node(1)) {
                let ts = opcua::types::DateTime::from(at(100 + d[2].as_i64().unwrap_or(0)));
                let st = if d[1].as_i64().unwrap_or(0) == 0 { StatusCode::Good } else { StatusCode::BadNoCommunication };
                let _ = var.set_value_direct(variant(d[0].as_i64().unwrap_or(0)), st, &ts, &ts);
            }
        }
        reqid += 1;
        let mut h = conn.header();
        h.timestamp = opcua::types::DateTime::from(at(t));
        let preq = PublishRequest { request_header: h, subscription_acknowledgements: None };
        let now = at(t);
        let (_r, direct) = conn.t.verif_publish_at(&now, reqid, &preq.into());
        let (_r, out) = conn.t.verif_tick(&now);
        let mut got = false;
        for (_id, m) in direct.iter().chain(out.iter()) {
            if let SupportedMessage::PublishResponse(p) = m {
                if let Some(nd) = &p.notification_message.notification_data {
                    for n in nd {
                        if n.node_id.as_object_id().ok() == Some(ObjectId::DataChangeNotification_Encoding_DefaultBinary) {
                            got = true;
                        }
                    }
                }
            }
        }
        rep.push(got);
    }
    conn.close();
    json!({"fail": "none", "site": "", "accepted": true, "rep": rep})
}

pub fn run_case(case: &Value, out: &mut Obs) {
    let cid = case.get("case").cloned().unwrap_or(Value::Null);
    let c = &case["c"];
    let r = guard(|| SRV.with(|srv| run(srv, c)));
    let r = match r {
        Ok(v) => v,
        Err(site) => json!({"fail": "panic", "site": site_sig(&site), "accepted": false, "rep": []}),
    };
    out.push(json!({"case": cid, "i": 1, "c": c, "r": r}));
}
