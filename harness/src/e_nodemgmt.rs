//! Engine `nodemgmt` (C34): NodeManagement services through the real MessageHandler on a real server.
use crate::srv::*;
use crate::util::*;
use crate::Obs;
use opcua::core::supported_message::SupportedMessage;
use opcua::server::prelude::*;
use serde_json::{json, Value};
use std::sync::atomic::{AtomicU32, Ordering};

thread_local! {
    static SRV: Srv = Srv::new();
}
static CASE_NO: AtomicU32 = AtomicU32::new(0);

struct W {
    c: Conn,
    base: u32,   // abstract id k (1..K)  <->  NodeId(ins, base + k - 1)
    ins: u16,    // internal namespace (server assigned ids live there)
    parent: NodeId,
    k: i64,
}

fn tid(t: &str) -> ReferenceTypeId {
    match t {
        "HC" => ReferenceTypeId::HasComponent,
        "HP" => ReferenceTypeId::HasProperty,
        _ => ReferenceTypeId::Organizes,
    }
}
fn tname(id: &NodeId) -> Option<&'static str> {
    match id.as_reference_type_id() {
        Ok(ReferenceTypeId::HasComponent) => Some("HC"),
        Ok(ReferenceTypeId::HasProperty) => Some("HP"),
        Ok(ReferenceTypeId::Organizes) => Some("OR"),
        _ => None,
    }
}

impl W {
    fn nid(&self, a: i64) -> NodeId {
        if a == 0 {
            self.parent.clone()
        } else if a == 9 {
            NodeId::new(2, "never-exists")
        } else {
            NodeId::new(self.ins, self.base + a as u32 - 1)
        }
    }
    fn abs(&self, id: &NodeId) -> Option<i64> {
        if *id == self.parent {
            return Some(0);
        }
        if id.namespace == self.ins {
            if let Identifier::Numeric(n) = id.identifier {
                if n >= self.base && (n - self.base) < self.k as u32 {
                    return Some((n - self.base) as i64 + 1);
                }
            }
        }
        None
    }
    fn proj(&self) -> Value {
        let a = self.c.address_space.read();
        let mut nodes = Vec::new();
        let mut refs: Vec<(i64, String, i64)> = Vec::new();
        for x in 0..=self.k {
            let id = self.nid(x);
            if a.node_exists(&id) {
                nodes.push(x);
            }
            let none: Option<(ReferenceTypeId, bool)> = None;
            for r in a.find_references(&id, none).unwrap_or_default() {
                if let (Some(t), Some(y)) = (tname(&r.reference_type), self.abs(&r.target_node)) {
                    refs.push((x, t.to_string(), y));
                }
            }
        }
        refs.sort_by(|p, q| (p.0, p.2, p.1 != "HC", p.1.clone()).cmp(&(q.0, q.2, q.1 != "HC", q.1.clone())));
        refs.dedup();
        json!({"nodes": nodes, "refs": refs.iter().map(|(a, t, b)| json!([a, t, b])).collect::<Vec<_>>()})
    }
}

fn step(w: &mut W, s: &Value) -> (String, i64) {
    match gets(s, "ev") {
        "AddNode" => {
            let rid = geti(s, "rid");
            let item = AddNodesItem {
                parent_node_id: w.nid(geti(s, "par")).into(),
                reference_type_id: tid(gets(s, "t")).into(),
                requested_new_node_id: if rid == 0 { ExpandedNodeId::null() } else { w.nid(rid).into() },
                browse_name: QualifiedName::from(gets(s, "name")),
                node_class: NodeClass::Object,
                node_attributes: ExtensionObject::from_encodable(
                    ObjectId::ObjectAttributes_Encoding_DefaultBinary,
                    &ObjectAttributes {
                        specified_attributes: (AttributesMask::DISPLAY_NAME | AttributesMask::DESCRIPTION | AttributesMask::EVENT_NOTIFIER
                            | AttributesMask::WRITE_MASK | AttributesMask::USER_WRITE_MASK).bits(),
                        display_name: LocalizedText::from(gets(s, "name")),
                        description: LocalizedText::from(""),
                        write_mask: 0,
                        user_write_mask: 0,
                        event_notifier: 0,
                    },
                ),
                type_definition: ObjectTypeId::BaseObjectType.into(),
            };
            let req = AddNodesRequest { request_header: w.c.header(), nodes_to_add: Some(vec![item]) };
            match w.c.call1(req.into()) {
                SupportedMessage::AddNodesResponse(r) => {
                    let r0 = r.results.unwrap_or_default().into_iter().next();
                    match r0 {
                        Some(r0) => (
                            r0.status_code.name().to_string(),
                            if r0.status_code.is_good() { w.abs(&r0.added_node_id).unwrap_or(-2) } else { -1 },
                        ),
                        None => ("?".into(), -1),
                    }
                }
                SupportedMessage::ServiceFault(f) => (f.response_header.service_result.name().to_string(), -1),
                _ => ("?".into(), -1),
            }
        }
        "AddRef" => {
            let item = AddReferencesItem {
                source_node_id: w.nid(geti(s, "a")),
                reference_type_id: tid(gets(s, "t")).into(),
                is_forward: getb(s, "fwd"),
                target_server_uri: UAString::null(),
                target_node_id: w.nid(geti(s, "b")).into(),
                target_node_class: NodeClass::Object,
            };
            let req = AddReferencesRequest { request_header: w.c.header(), references_to_add: Some(vec![item]) };
            match w.c.call1(req.into()) {
                SupportedMessage::AddReferencesResponse(r) => {
                    (r.results.unwrap_or_default().first().map(|s| s.name().to_string()).unwrap_or("?".into()), -1)
                }
                SupportedMessage::ServiceFault(f) => (f.response_header.service_result.name().to_string(), -1),
                _ => ("?".into(), -1),
            }
        }
        "DelRef" => {
            let item = DeleteReferencesItem {
                source_node_id: w.nid(geti(s, "a")),
                reference_type_id: tid(gets(s, "t")).into(),
                is_forward: getb(s, "fwd"),
                target_node_id: w.nid(geti(s, "b")).into(),
                delete_bidirectional: getb(s, "bidir"),
            };
            let req = DeleteReferencesRequest { request_header: w.c.header(), references_to_delete: Some(vec![item]) };
            match w.c.call1(req.into()) {
                SupportedMessage::DeleteReferencesResponse(r) => {
                    (r.results.unwrap_or_default().first().map(|s| s.name().to_string()).unwrap_or("?".into()), -1)
                }
                SupportedMessage::ServiceFault(f) => (f.response_header.service_result.name().to_string(), -1),
                _ => ("?".into(), -1),
            }
        }
        "DelNode" => {
            let item = DeleteNodesItem { node_id: w.nid(geti(s, "a")), delete_target_references: s.get("tr").and_then(|v| v.as_bool()).unwrap_or(true) };
            let req = DeleteNodesRequest { request_header: w.c.header(), nodes_to_delete: Some(vec![item]) };
            match w.c.call1(req.into()) {
                SupportedMessage::DeleteNodesResponse(r) => {
                    (r.results.unwrap_or_default().first().map(|s| s.name().to_string()).unwrap_or("?".into()), -1)
                }
                SupportedMessage::ServiceFault(f) => (f.response_header.service_result.name().to_string(), -1),
                _ => ("?".into(), -1),
            }
        }
        _ => ("?".into(), -1),
    }
}

pub fn run_case(case: &Value, out: &mut Obs) {
    let cid = case.get("case").cloned().unwrap_or(Value::Null);
    let k = case.get("k").and_then(|v| v.as_i64()).unwrap_or(6);
    SRV.with(|srv| {
        let mut c = srv.connect();
        if !c.open_session() {
            out.push(json!({"case": cid, "i": 1, "ev": "Setup", "fail": "setup", "site": "open_session", "status": "?", "id": -1,
                            "st": {"nodes": [0], "refs": []}}));
            return;
        }
        let n = CASE_NO.fetch_add(1, Ordering::SeqCst);
        let parent = NodeId::new(2, format!("P{}-{}", std::process::id(), n));
        let ins = {
            let a = srv.server.address_space();
            let mut a = a.write();
            let _ = a.add_folder_with_id(&parent, format!("P{}", n), format!("P{}", n), &NodeId::objects_folder_id());
            a.internal_namespace()
        };
        // the next server assigned numeric id
        let base = match NodeId::next_numeric(0).identifier {
            Identifier::Numeric(v) => v + 1,
            _ => 0,
        };
        let mut w = W { c, base, ins, parent, k };
        let empty = vec![];
        for (i, s) in case.get("steps").and_then(|s| s.as_array()).unwrap_or(&empty).iter().enumerate() {
            let r = guard(|| step(&mut w, s));
            let mut o = s.clone();
            let obj = o.as_object_mut().unwrap();
            obj.insert("case".into(), cid.clone());
            obj.insert("i".into(), json!(i + 1));
            let failed = r.is_err();
            match r {
                Ok((status, id)) => {
                    obj.insert("fail".into(), json!("none"));
                    obj.insert("site".into(), json!(""));
                    obj.insert("status".into(), json!(status));
                    obj.insert("id".into(), json!(id));
                }
                Err(site) => {
                    obj.insert("fail".into(), json!("panic"));
                    obj.insert("site".into(), json!(site_sig(&site)));
                    obj.insert("status".into(), json!("?"));
                    obj.insert("id".into(), json!(-1));
                }
            }
            let st = guard(|| w.proj()).unwrap_or_else(|_| json!({"nodes": [0], "refs": []}));
            obj.insert("st".into(), st);
            out.push(o);
            if failed {
                break;
            }
        }
        // leave nothing behind for the next case
        let _ = guard(|| {
            let a = srv.server.address_space();
            let mut a = a.write();
            for x in 0..=w.k {
                let _ = a.delete(&w.nid(x), true);
            }
        });
        let _ = guard(|| w.c.close());
    });
}
