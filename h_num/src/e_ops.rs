//! Engine `ops` (C39): a where-clause (sequence of elements with literal / element / simple attribute /
//! attribute / undecodable operands) is built as the wire structures and evaluated by the real
//! `evaluate_where_clause` (through the verification hook); result or error status are mapped back.
use crate::e_num::{make, parse_name};
use crate::util::*;
use crate::Obs;
use opcua::server::address_space::{variable::VariableBuilder, AddressSpace};
use opcua::server::events::event_filter;
use opcua::types::operand::Operand;
use opcua::types::service_types::{AttributeOperand, ContentFilter, ContentFilterElement, FilterOperator, RelativePath};
use opcua::types::{AttributeId, DataTypeId, ExtensionObject, NodeId, ObjectId, ReferenceTypeId, UAString, Variant};
use serde_json::{json, Value};

/// standard address space plus one variable `present` (Int32 2) below the Objects folder
pub fn address_space() -> AddressSpace {
    let mut a = AddressSpace::new();
    let ns = a.register_namespace("urn:verif:num").unwrap_or(2);
    let id = NodeId::new(ns, "present");
    let _ = VariableBuilder::new(&id, "present", "present")
        .data_type(DataTypeId::Int32)
        .organized_by(ObjectId::ObjectsFolder)
        .value(2i32)
        .insert(&mut a);
    a
}

thread_local! {
    static SPACE: AddressSpace = address_space();
}

fn operator(op: &str) -> Option<FilterOperator> {
    Some(match op {
        "Equals" => FilterOperator::Equals,
        "IsNull" => FilterOperator::IsNull,
        "GreaterThan" => FilterOperator::GreaterThan,
        "LessThan" => FilterOperator::LessThan,
        "GreaterThanOrEqual" => FilterOperator::GreaterThanOrEqual,
        "LessThanOrEqual" => FilterOperator::LessThanOrEqual,
        "Like" => FilterOperator::Like,
        "Not" => FilterOperator::Not,
        "Between" => FilterOperator::Between,
        "InList" => FilterOperator::InList,
        "And" => FilterOperator::And,
        "Or" => FilterOperator::Or,
        "Cast" => FilterOperator::Cast,
        "InView" => FilterOperator::InView,
        "OfType" => FilterOperator::OfType,
        "RelatedTo" => FilterOperator::RelatedTo,
        "BitwiseAnd" => FilterOperator::BitwiseAnd,
        "BitwiseOr" => FilterOperator::BitwiseOr,
        _ => return None,
    })
}

fn literal(t: &str, v: &str) -> Result<Variant, String> {
    Ok(match t {
        "Null" => Variant::Empty,
        "String" => Variant::from(v),
        _ => make(t, &parse_name(v)?, false)?,
    })
}

fn operand(a: &Value) -> Result<ExtensionObject, String> {
    Ok(match gets(a, "k") {
        "lit" => ExtensionObject::from(&Operand::literal(literal(gets(a, "t"), gets(a, "v"))?)),
        "el" => ExtensionObject::from(&Operand::element(geti(a, "i") as u32)),
        "sattr" => ExtensionObject::from(&Operand::simple_attribute(ReferenceTypeId::Organizes, gets(a, "v"), AttributeId::Value, UAString::null())),
        "attr" => ExtensionObject::from(&Operand::AttributeOperand(AttributeOperand {
            node_id: NodeId::objects_folder_id(),
            alias: UAString::null(),
            browse_path: RelativePath { elements: None },
            attribute_id: AttributeId::Value as u32,
            index_range: UAString::null(),
        })),
        "bad" => ExtensionObject::null(),
        k => return Err(format!("operand kind {}", k)),
    })
}

fn result(v: &Variant) -> (String, String) {
    match v {
        Variant::Empty => ("Null".into(), "".into()),
        Variant::Boolean(b) => ("Boolean".into(), if *b { "1" } else { "0" }.into()),
        Variant::SByte(x) => ("SByte".into(), x.to_string()),
        Variant::Byte(x) => ("Byte".into(), x.to_string()),
        Variant::Int16(x) => ("Int16".into(), x.to_string()),
        Variant::UInt16(x) => ("UInt16".into(), x.to_string()),
        Variant::Int32(x) => ("Int32".into(), x.to_string()),
        Variant::UInt32(x) => ("UInt32".into(), x.to_string()),
        Variant::Int64(x) => ("Int64".into(), x.to_string()),
        Variant::UInt64(x) => ("UInt64".into(), x.to_string()),
        Variant::Float(x) => ("Float".into(), x.to_string()),
        Variant::Double(x) => ("Double".into(), x.to_string()),
        Variant::String(s) => ("String".into(), s.as_ref().to_string()),
        other => ("Other".into(), format!("{:?}", other).chars().take(40).collect()),
    }
}

pub fn run_case(case: &Value, out: &mut Obs) {
    let cid = case.get("case").cloned().unwrap_or(Value::Null);
    let c = &case["c"];
    let r = (|| {
        let mut elements = Vec::new();
        for e in c["els"].as_array().cloned().unwrap_or_default() {
            let op = match operator(gets(&e, "op")) {
                Some(op) => op,
                None => return json!({"fail": "setup", "site": "operator", "k": "", "t": "", "v": ""}),
            };
            let mut args = Vec::new();
            for a in e["args"].as_array().cloned().unwrap_or_default() {
                match operand(&a) {
                    Ok(x) => args.push(x),
                    Err(m) => return json!({"fail": "setup", "site": m, "k": "", "t": "", "v": ""}),
                }
            }
            elements.push(ContentFilterElement { filter_operator: op, filter_operands: Some(args) });
        }
        let filter = ContentFilter { elements: Some(elements) };
        let object_id = NodeId::objects_folder_id();
        let res = guard(|| SPACE.with(|space| event_filter::verif_evaluate_where_clause(&object_id, &filter, space)));
        match res {
            Err(site) => json!({"fail": "panic", "site": site_sig(&site), "k": "", "t": "", "v": ""}),
            Ok(Ok(v)) => {
                let (t, v) = result(&v);
                json!({"fail": "none", "site": "", "k": "ok", "t": t, "v": v})
            }
            Ok(Err(status)) => json!({"fail": "none", "site": "", "k": "err", "t": "", "v": status.name()}),
        }
    })();
    out.push(json!({"case": cid, "i": 1, "c": {"kind": "ops", "els": c["els"]}, "r": r}));
}
