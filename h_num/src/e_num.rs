//! Engine `num` (C06): abstract points of spec/NumLine.tla -> concrete Rust values -> the real
//! `Variant::convert` / `Variant::cast` -> back to points.
//!
//! The NAME of a point is the number (`-2^63+1`, `2^31-0.5`, `255.75`, `f32max`, ...).  The harness
//! evaluates names with exact integer arithmetic (quarters in an i128; a handful of named
//! floating point constants).  Case `table` re-derives every attribute of the TLA+ table from the
//! names (order, integer / fraction, floor, ceiling, exact in f32 / f64, nearest f32 / f64, type
//! bounds against `T::MIN` / `T::MAX`) and reports every disagreement.
use crate::util::*;
use crate::Obs;
use opcua::types::{Variant, VariantTypeId};
use serde_json::{json, Value};
use std::cmp::Ordering;

/// exact value of a point
#[derive(Clone, Copy, Debug)]
pub enum Val {
    /// value * 4 (all points with |v| < 2^100 that are multiples of 1/4)
    Q(i128),
    /// a finite f64 that is not a multiple of 1/4 below 2^100: huge (>= 2^100) or inside (0, 1)
    F(f64),
    Nan,
    PInf,
    NInf,
}

const HUGE: f64 = 1.2676506002282294e30; // 2^100

fn pow2(e: i32) -> f64 {
    2f64.powi(e)
}

fn special(t: &str) -> Option<f64> {
    Some(match t {
        "f32max" => f32::MAX as f64,
        "f64max" => f64::MAX,
        "tiny32" => pow2(-149),
        "tiny64" => f64::from_bits(1),
        "pred0.5_32" => 0.5 - pow2(-25),
        "pred0.5_64" => 0.5 - pow2(-54),
        _ => return None,
    })
}

pub fn parse_name(name: &str) -> Result<Val, String> {
    match name {
        "nan" => return Ok(Val::Nan),
        "+inf" => return Ok(Val::PInf),
        "-inf" => return Ok(Val::NInf),
        _ => {}
    }
    // split into signed terms
    let mut terms: Vec<(bool, String)> = Vec::new();
    let mut cur = String::new();
    let mut neg = false;
    for (i, ch) in name.chars().enumerate() {
        if (ch == '+' || ch == '-') && !(i > 0 && name.as_bytes()[i - 1] == b'^') {
            if i > 0 {
                if cur.is_empty() {
                    return Err(format!("bad name {}", name));
                }
                terms.push((neg, std::mem::take(&mut cur)));
            }
            neg = ch == '-';
        } else {
            cur.push(ch);
        }
    }
    if cur.is_empty() {
        return Err(format!("bad name {}", name));
    }
    terms.push((neg, cur));
    if terms.len() == 1 {
        if let Some(x) = special(&terms[0].1) {
            return Ok(Val::F(if terms[0].0 { -x } else { x }));
        }
    }
    let mut q: i128 = 0;
    for (neg, t) in &terms {
        let tq: i128 = if let Some((b, e)) = t.split_once('^') {
            let b: i128 = b.parse().map_err(|_| format!("bad term {}", t))?;
            let e: u32 = e.parse().map_err(|_| format!("bad term {}", t))?;
            if b == 2 && e >= 100 {
                if terms.len() != 1 {
                    return Err(format!("huge term in a sum {}", name));
                }
                let x = pow2(e as i32);
                return Ok(Val::F(if *neg { -x } else { x }));
            }
            b.checked_pow(e).and_then(|v| v.checked_mul(4)).ok_or(format!("overflow {}", t))?
        } else if let Some((i, f)) = t.split_once('.') {
            let i: i128 = i.parse().map_err(|_| format!("bad term {}", t))?;
            let fq = match f {
                "25" => 1,
                "5" => 2,
                "75" => 3,
                _ => return Err(format!("bad fraction {}", t)),
            };
            i * 4 + fq
        } else {
            let i: i128 = t.parse().map_err(|_| format!("bad term {}", t))?;
            i.checked_mul(4).ok_or(format!("overflow {}", t))?
        };
        q += if *neg { -tq } else { tq };
    }
    Ok(Val::Q(q))
}

fn rank(v: &Val) -> i32 {
    match v {
        Val::NInf => -2,
        Val::F(x) if *x <= -HUGE => -1,
        Val::F(x) if *x >= HUGE => 1,
        Val::PInf => 2,
        _ => 0,
    }
}

/// total order of the non-NaN values
pub fn cmp(a: &Val, b: &Val) -> Ordering {
    let (ra, rb) = (rank(a), rank(b));
    if ra != rb {
        return ra.cmp(&rb);
    }
    match (a, b) {
        (Val::Q(x), Val::Q(y)) => x.cmp(y),
        (Val::F(x), Val::F(y)) => x.partial_cmp(y).unwrap(),
        (Val::Q(q), Val::F(x)) => cmp_qf(*q, *x),
        (Val::F(x), Val::Q(q)) => cmp_qf(*q, *x).reverse(),
        _ => Ordering::Equal,
    }
}

// x lies strictly inside (-1, 1) and is not a multiple of 1/4
fn cmp_qf(q: i128, x: f64) -> Ordering {
    if q >= 4 {
        Ordering::Greater
    } else if q <= -4 {
        Ordering::Less
    } else {
        (q as f64 * 0.25).partial_cmp(&x).unwrap()
    }
}

pub fn same(a: &Val, b: &Val) -> bool {
    match (a, b) {
        (Val::Nan, Val::Nan) | (Val::PInf, Val::PInf) | (Val::NInf, Val::NInf) => true,
        (Val::Q(x), Val::Q(y)) => x == y,
        (Val::F(x), Val::F(y)) => x == y,
        _ => false,
    }
}

fn bits(a: u128) -> u32 {
    128 - a.leading_zeros()
}

/// is the quarter-valued number exactly representable with `mant` significand bits
fn q_exact(q: i128, mant: u32) -> bool {
    if q == 0 {
        return true;
    }
    let a = q.unsigned_abs();
    bits(a >> a.trailing_zeros()) <= mant
}

/// nearest values with `mant` significand bits (first entry: even significand), exact integer arithmetic
fn q_nearest(q: i128, mant: u32) -> Vec<i128> {
    if q_exact(q, mant) {
        return vec![q];
    }
    let a = q.unsigned_abs();
    let sh = bits(a) - mant;
    let k = a >> sh;
    let lo = k << sh;
    let hi = (k + 1) << sh;
    let r: Vec<u128> = match (a - lo).cmp(&(hi - a)) {
        Ordering::Less => vec![lo],
        Ordering::Greater => vec![hi],
        Ordering::Equal => {
            if k % 2 == 0 {
                vec![lo, hi]
            } else {
                vec![hi, lo]
            }
        }
    };
    r.into_iter().map(|x| if q < 0 { -(x as i128) } else { x as i128 }).collect()
}

fn to_f64(v: &Val) -> Option<f64> {
    match v {
        Val::Q(q) => {
            if q_exact(*q, 53) {
                Some(*q as f64 / 4.0)
            } else {
                None
            }
        }
        Val::F(x) => Some(*x),
        Val::Nan => Some(f64::NAN),
        Val::PInf => Some(f64::INFINITY),
        Val::NInf => Some(f64::NEG_INFINITY),
    }
}

fn to_f32(v: &Val) -> Option<f32> {
    match v {
        Val::Q(q) => {
            if q_exact(*q, 24) {
                Some(*q as f32 / 4.0)
            } else {
                None
            }
        }
        Val::F(x) => {
            let y = *x as f32;
            if y.is_finite() && y as f64 == *x {
                Some(y)
            } else {
                None
            }
        }
        Val::Nan => Some(f32::NAN),
        Val::PInf => Some(f32::INFINITY),
        Val::NInf => Some(f32::NEG_INFINITY),
    }
}

fn to_int(v: &Val) -> Option<i128> {
    match v {
        Val::Q(q) if q % 4 == 0 => Some(q / 4),
        _ => None,
    }
}

fn of_f64(x: f64) -> Val {
    if x.is_nan() {
        Val::Nan
    } else if x == f64::INFINITY {
        Val::PInf
    } else if x == f64::NEG_INFINITY {
        Val::NInf
    } else if x.abs() < HUGE && (x * 4.0).fract() == 0.0 {
        Val::Q((x * 4.0) as i128)
    } else {
        Val::F(x)
    }
}

pub fn type_id(t: &str) -> Option<VariantTypeId> {
    Some(match t {
        "Boolean" => VariantTypeId::Boolean,
        "SByte" => VariantTypeId::SByte,
        "Byte" => VariantTypeId::Byte,
        "Int16" => VariantTypeId::Int16,
        "UInt16" => VariantTypeId::UInt16,
        "Int32" => VariantTypeId::Int32,
        "UInt32" => VariantTypeId::UInt32,
        "Int64" => VariantTypeId::Int64,
        "UInt64" => VariantTypeId::UInt64,
        "Float" => VariantTypeId::Float,
        "Double" => VariantTypeId::Double,
        _ => return None,
    })
}

/// the Variant of type `t` that holds exactly the value `v`
pub fn make(t: &str, v: &Val, negzero: bool) -> Result<Variant, String> {
    let bad = || format!("{:?} is not a value of {}", v, t);
    macro_rules! int {
        ($ty: ty) => {{
            let i = to_int(v).ok_or_else(bad)?;
            Variant::from(<$ty>::try_from(i).map_err(|_| bad())?)
        }};
    }
    Ok(match t {
        "Boolean" => match to_int(v) {
            Some(0) => Variant::from(false),
            Some(1) => Variant::from(true),
            _ => return Err(bad()),
        },
        "SByte" => int!(i8),
        "Byte" => int!(u8),
        "Int16" => int!(i16),
        "UInt16" => int!(u16),
        "Int32" => int!(i32),
        "UInt32" => int!(u32),
        "Int64" => int!(i64),
        "UInt64" => int!(u64),
        "Float" => {
            let x = to_f32(v).ok_or_else(bad)?;
            Variant::from(if negzero { -0.0f32 } else { x })
        }
        "Double" => {
            let x = to_f64(v).ok_or_else(bad)?;
            Variant::from(if negzero { -0.0f64 } else { x })
        }
        _ => return Err(format!("unknown type {}", t)),
    })
}

/// (type name, exact value, printable) of a numeric Variant
pub fn read(v: &Variant) -> (String, Option<Val>, String) {
    match v {
        Variant::Empty => ("Empty".into(), None, "".into()),
        Variant::Boolean(b) => ("Boolean".into(), Some(Val::Q(if *b { 4 } else { 0 })), b.to_string()),
        Variant::SByte(x) => ("SByte".into(), Some(Val::Q(*x as i128 * 4)), x.to_string()),
        Variant::Byte(x) => ("Byte".into(), Some(Val::Q(*x as i128 * 4)), x.to_string()),
        Variant::Int16(x) => ("Int16".into(), Some(Val::Q(*x as i128 * 4)), x.to_string()),
        Variant::UInt16(x) => ("UInt16".into(), Some(Val::Q(*x as i128 * 4)), x.to_string()),
        Variant::Int32(x) => ("Int32".into(), Some(Val::Q(*x as i128 * 4)), x.to_string()),
        Variant::UInt32(x) => ("UInt32".into(), Some(Val::Q(*x as i128 * 4)), x.to_string()),
        Variant::Int64(x) => ("Int64".into(), Some(Val::Q(*x as i128 * 4)), x.to_string()),
        Variant::UInt64(x) => ("UInt64".into(), Some(Val::Q(*x as i128 * 4)), x.to_string()),
        Variant::Float(x) => ("Float".into(), Some(of_f64(*x as f64)), format!("{:e}", x)),
        Variant::Double(x) => ("Double".into(), Some(of_f64(*x)), format!("{:e}", x)),
        other => (format!("{:?}", other.type_id()), None, format!("{:?}", other).chars().take(60).collect()),
    }
}

fn strs(v: &Value) -> Vec<String> {
    v.as_array().map(|a| a.iter().filter_map(|x| x.as_str().map(|s| s.to_string())).collect()).unwrap_or_default()
}

/// case `table`: every attribute of the TLA+ table against exact arithmetic and the Rust types
fn check_table(c: &Value) -> Vec<String> {
    let mut errs = Vec::new();
    let line = c["line"].as_array().cloned().unwrap_or_default();
    let mut vals: Vec<(String, Val)> = Vec::new();
    for rec in &line {
        let n = gets(rec, "n").to_string();
        match parse_name(&n) {
            Ok(v) => vals.push((n, v)),
            Err(e) => errs.push(e),
        }
    }
    if !errs.is_empty() {
        return errs;
    }
    let find = |v: &Val| vals.iter().find(|(_, x)| same(x, v)).map(|(n, _)| n.clone());
    for w in vals.windows(2) {
        if cmp(&w[0].1, &w[1].1) != Ordering::Less {
            errs.push(format!("order: {} is not below {}", w[0].0, w[1].0));
        }
    }
    for (rec, (n, v)) in line.iter().zip(vals.iter()) {
        // integer / fraction, floor, ceiling
        let (k, fl, ce) = match v {
            Val::Q(q) if q % 4 == 0 => ("int", Some(n.clone()), Some(n.clone())),
            Val::Q(q) => {
                let f = q.div_euclid(4);
                let k = match q.rem_euclid(4) {
                    1 => "lo",
                    2 => "tie",
                    _ => "hi",
                };
                (k, find(&Val::Q(f * 4)), find(&Val::Q(f * 4 + 4)))
            }
            Val::F(x) if x.abs() >= HUGE => ("int", Some(n.clone()), Some(n.clone())),
            Val::F(x) => {
                let f = x.floor();
                let k = if x - f < 0.5 { "lo" } else if x - f == 0.5 { "tie" } else { "hi" };
                (k, find(&of_f64(f)), find(&of_f64(f + 1.0)))
            }
            _ => ("?", None, None),
        };
        if gets(rec, "k") != k {
            errs.push(format!("{}: k is {} not {}", n, k, gets(rec, "k")));
        }
        if Some(gets(rec, "fl").to_string()) != fl || Some(gets(rec, "ce").to_string()) != ce {
            errs.push(format!("{}: floor/ceiling are {:?}/{:?}", n, fl, ce));
        }
        // representable, nearest representable
        let e32 = to_f32(v).is_some();
        let e64 = to_f64(v).is_some();
        if getb(rec, "e32") != e32 || getb(rec, "e64") != e64 {
            errs.push(format!("{}: exact in f32/f64 is {}/{}", n, e32, e64));
        }
        let name_all = |xs: Vec<Val>| -> Vec<String> { xs.iter().map(|x| find(x).unwrap_or_else(|| "?".into())).collect() };
        let (n32, n64) = match v {
            Val::Q(q) => (
                name_all(q_nearest(*q, 24).into_iter().map(Val::Q).collect()),
                name_all(q_nearest(*q, 53).into_iter().map(Val::Q).collect()),
            ),
            Val::F(x) => (
                if x.abs() > f32::MAX as f64 { vec![] } else { name_all(vec![of_f64((*x as f32) as f64)]) },
                vec![n.clone()],
            ),
            _ => (vec![], vec![]),
        };
        if strs(&rec["n32"]) != n32 || strs(&rec["n64"]) != n64 {
            errs.push(format!("{}: nearest f32/f64 are {:?}/{:?}", n, n32, n64));
        }
        // the concrete value really is that number: f64 and f32 values convert back to the same point
        if let Some(x) = to_f64(v) {
            if !same(&of_f64(x), v) {
                errs.push(format!("{}: f64 round trip", n));
            }
        }
        if let Some(x) = to_f32(v) {
            if !same(&of_f64(x as f64), v) {
                errs.push(format!("{}: f32 round trip", n));
            }
        }
    }
    // type bounds
    let bounds: [(&str, i128, i128); 9] = [
        ("Boolean", 0, 1),
        ("SByte", i8::MIN as i128, i8::MAX as i128),
        ("Byte", u8::MIN as i128, u8::MAX as i128),
        ("Int16", i16::MIN as i128, i16::MAX as i128),
        ("UInt16", u16::MIN as i128, u16::MAX as i128),
        ("Int32", i32::MIN as i128, i32::MAX as i128),
        ("UInt32", u32::MIN as i128, u32::MAX as i128),
        ("Int64", i64::MIN as i128, i64::MAX as i128),
        ("UInt64", u64::MIN as i128, u64::MAX as i128),
    ];
    for (t, lo, hi) in bounds {
        let l = parse_name(gets(&c["lo"], t));
        let h = parse_name(gets(&c["hi"], t));
        match (l, h) {
            (Ok(l), Ok(h)) if same(&l, &Val::Q(lo * 4)) && same(&h, &Val::Q(hi * 4)) => {}
            _ => errs.push(format!("bounds of {}", t)),
        }
    }
    for (t, m) in [("Float", f32::MAX as f64), ("Double", f64::MAX)] {
        let l = parse_name(gets(&c["lo"], t));
        let h = parse_name(gets(&c["hi"], t));
        match (l, h) {
            (Ok(l), Ok(h)) if same(&l, &Val::F(-m)) && same(&h, &Val::F(m)) => {}
            _ => errs.push(format!("bounds of {}", t)),
        }
    }
    errs
}

pub fn run_case(case: &Value, out: &mut Obs) {
    let cid = case.get("case").cloned().unwrap_or(Value::Null);
    let c = &case["c"];
    let op = gets(c, "op");
    if op == "table" {
        let errs = check_table(c);
        out.push(json!({"case": cid, "i": 1, "c": {"op": "table"},
                        "r": {"fail": "none", "site": "", "t": "Empty", "p": "", "raw": "", "points": c["line"].as_array().map(|a| a.len()).unwrap_or(0), "errs": errs}}));
        return;
    }
    let setup = |msg: String| json!({"fail": "setup", "site": msg, "t": "Empty", "p": "", "raw": ""});
    let r = (|| {
        let v = match parse_name(gets(c, "p")) {
            Ok(v) => v,
            Err(e) => return setup(e),
        };
        let src = match make(gets(c, "src"), &v, gets(c, "enc") == "negzero") {
            Ok(s) => s,
            Err(e) => return setup(e),
        };
        let dst = match type_id(gets(c, "dst")) {
            Some(d) => d,
            None => return setup("dst".into()),
        };
        let res = guard(|| if op == "cast" { src.cast(dst) } else { src.convert(dst) });
        match res {
            Err(site) => json!({"fail": "panic", "site": site_sig(&site), "t": "Empty", "p": "", "raw": ""}),
            Ok(res) => {
                let (t, val, raw) = read(&res);
                let mut p = "?".to_string();
                if let Some(val) = val {
                    for cand in strs(&c["cand"]) {
                        if let Ok(cv) = parse_name(&cand) {
                            if same(&cv, &val) {
                                p = cand;
                                break;
                            }
                        }
                    }
                } else {
                    p = "".into();
                }
                json!({"fail": "none", "site": "", "t": t, "p": p, "raw": raw})
            }
        }
    })();
    out.push(json!({"case": cid, "i": 1, "c": c, "r": r}));
}
