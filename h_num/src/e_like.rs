//! Engine `like` (C39): one case = one LIKE pattern and the list of all strings of the bounded
//! alphabet.  Every string is matched twice on the real code: directly (`like_to_regex` + `is_match`,
//! through the verification hook) and as a `Like` element of a where-clause through the real evaluator.
use crate::util::*;
use crate::Obs;
use opcua::server::address_space::AddressSpace;
use opcua::server::events::event_filter;
use opcua::types::operand::{ContentFilterBuilder, Operand};
use opcua::types::{NodeId, Variant};
use serde_json::{json, Value};

thread_local! {
    pub static SPACE: AddressSpace = crate::e_ops::address_space();
}

pub fn run_case(case: &Value, out: &mut Obs) {
    let cid = case.get("case").cloned().unwrap_or(Value::Null);
    let c = &case["c"];
    let pat = gets(c, "pat").to_string();
    let strs: Vec<String> = c["strs"].as_array().map(|a| a.iter().filter_map(|x| x.as_str().map(|s| s.to_string())).collect()).unwrap_or_default();
    let r = guard(|| {
        SPACE.with(|space| {
            let mut direct = Vec::new();
            let mut eval = Vec::new();
            let mut compiled = true;
            let mut other = Vec::new();
            let object_id = NodeId::objects_folder_id();
            for s in &strs {
                match event_filter::verif_like_match(&pat, s) {
                    Some(true) => direct.push(s.clone()),
                    Some(false) => {}
                    None => compiled = false,
                }
                let f = ContentFilterBuilder::new().like(Operand::literal(s.as_str()), Operand::literal(pat.as_str())).build();
                match event_filter::verif_evaluate_where_clause(&object_id, &f, space) {
                    Ok(Variant::Boolean(true)) => eval.push(s.clone()),
                    Ok(Variant::Boolean(false)) => {}
                    x => other.push(format!("{:?}", x).chars().take(40).collect::<String>()),
                }
            }
            other.truncate(2);
            json!({"fail": "none", "site": "", "direct": direct, "eval": eval, "compiled": compiled, "other": other})
        })
    });
    let r = match r {
        Ok(v) => v,
        Err(site) => json!({"fail": "panic", "site": site_sig(&site), "direct": [], "eval": [], "compiled": false, "other": []}),
    };
    out.push(json!({"case": cid, "i": 1, "c": {"kind": "like", "toks": c["toks"], "pat": pat}, "r": r}));
}
