//! The real JSON text -> the abstract JSON tree of spec/JsonCodec.tla, member order preserved:
//!   null {"k":"null"} | bool {"k":"bool","n":"true"} | number {"k":"num","n":"<token as written>"} |
//!   string {"k":"str","s":[code points]} | array {"k":"arr","a":[...]} | object {"k":"obj","o":[[key, tree], ...]}
//! (a small recursive descent reader: serde_json::Value would sort the members and re-format the numbers)
use serde_json::{json, Value};

struct P<'a> {
    s: &'a [u8],
    i: usize,
}

impl<'a> P<'a> {
    fn ws(&mut self) {
        while self.i < self.s.len() && matches!(self.s[self.i], b' ' | b'\t' | b'\n' | b'\r') {
            self.i += 1;
        }
    }
    fn eat(&mut self, lit: &str) -> bool {
        if self.s[self.i..].starts_with(lit.as_bytes()) {
            self.i += lit.len();
            true
        } else {
            false
        }
    }
    fn hex4(&mut self) -> Option<u32> {
        let h = std::str::from_utf8(self.s.get(self.i..self.i + 4)?).ok()?;
        self.i += 4;
        u32::from_str_radix(h, 16).ok()
    }
    fn string(&mut self) -> Option<Vec<u32>> {
        if !self.eat("\"") {
            return None;
        }
        let mut out = Vec::new();
        loop {
            let rest = std::str::from_utf8(&self.s[self.i..]).ok()?;
            let c = rest.chars().next()?;
            self.i += c.len_utf8();
            match c {
                '"' => return Some(out),
                '\\' => {
                    let e = *self.s.get(self.i)?;
                    self.i += 1;
                    match e {
                        b'"' => out.push(34),
                        b'\\' => out.push(92),
                        b'/' => out.push(47),
                        b'b' => out.push(8),
                        b'f' => out.push(12),
                        b'n' => out.push(10),
                        b'r' => out.push(13),
                        b't' => out.push(9),
                        b'u' => {
                            let hi = self.hex4()?;
                            if (0xD800..0xDC00).contains(&hi) && self.eat("\\u") {
                                let lo = self.hex4()?;
                                out.push(0x10000 + ((hi - 0xD800) << 10) + (lo.wrapping_sub(0xDC00) & 0x3FF));
                            } else {
                                out.push(hi);
                            }
                        }
                        _ => return None,
                    }
                }
                c => out.push(c as u32),
            }
        }
    }
    fn value(&mut self) -> Option<Value> {
        self.ws();
        let c = *self.s.get(self.i)?;
        let v = match c {
            b'n' if self.eat("null") => json!({"k": "null"}),
            b't' if self.eat("true") => json!({"k": "bool", "n": "true"}),
            b'f' if self.eat("false") => json!({"k": "bool", "n": "false"}),
            b'"' => json!({"k": "str", "s": self.string()?}),
            b'[' => {
                self.i += 1;
                let mut a = Vec::new();
                self.ws();
                if self.eat("]") {
                    return Some(json!({"k": "arr", "a": a}));
                }
                loop {
                    a.push(self.value()?);
                    self.ws();
                    if self.eat(",") {
                        continue;
                    }
                    if self.eat("]") {
                        break;
                    }
                    return None;
                }
                json!({"k": "arr", "a": a})
            }
            b'{' => {
                self.i += 1;
                let mut o = Vec::new();
                self.ws();
                if self.eat("}") {
                    return Some(json!({"k": "obj", "o": o}));
                }
                loop {
                    self.ws();
                    let k: String = self.string()?.iter().filter_map(|c| char::from_u32(*c)).collect();
                    self.ws();
                    if !self.eat(":") {
                        return None;
                    }
                    let v = self.value()?;
                    o.push(json!([k, v]));
                    self.ws();
                    if self.eat(",") {
                        continue;
                    }
                    if self.eat("}") {
                        break;
                    }
                    return None;
                }
                json!({"k": "obj", "o": o})
            }
            b'-' | b'0'..=b'9' => {
                let st = self.i;
                while self.i < self.s.len() && matches!(self.s[self.i], b'-' | b'+' | b'.' | b'e' | b'E' | b'0'..=b'9') {
                    self.i += 1;
                }
                json!({"k": "num", "n": std::str::from_utf8(&self.s[st..self.i]).ok()?})
            }
            _ => return None,
        };
        Some(v)
    }
}

pub fn tree_of(text: &str) -> Value {
    let mut p = P { s: text.as_bytes(), i: 0 };
    match p.value() {
        Some(v) => {
            p.ws();
            if p.i == text.len() {
                v
            } else {
                json!({"k": "unparsed"})
            }
        }
        None => json!({"k": "unparsed"}),
    }
}
