//! Engine `json_rt` (C42): build the real value, serde_json::to_string, serde_json::from_str of that text into the
//! same type, re-abstract what came back.  The document is recorded as text and as a tree (L1 drift only).
use crate::jtree::tree_of;
use crate::util::*;
use crate::val::*;
use crate::Obs;
use serde_json::{json, Map, Value};

/// signatures must be free of white space
fn tidy(s: &str) -> String {
    let t: String = s.chars().map(|c| if c.is_ascii_alphanumeric() || "._:/#-".contains(c) { c } else { '_' }).collect();
    t.chars().take(90).collect()
}

pub fn run_case(case: &Value, out: &mut Obs) {
    let cid = case.get("case").cloned().unwrap_or(Value::Null);
    let c = &case["c"];
    let ty = gets(c, "ty").to_string();
    let mut r = Map::new();
    let fail_v = json!({"t": "Fail"});
    r.insert("fail".into(), json!("none"));
    r.insert("site".into(), json!(""));
    r.insert("ser".into(), json!("none"));
    r.insert("de".into(), json!("none"));
    r.insert("back".into(), fail_v.clone());
    r.insert("eq".into(), json!(false));
    r.insert("json".into(), json!({"k": "fail"}));
    r.insert("text".into(), json!(""));
    r.insert("err".into(), json!(""));
    let v = Any::from_abs(&ty, &c["w"]);
    match guard(|| v.to_json_text()) {
        Err(site) => {
            r.insert("fail".into(), json!("panic"));
            r.insert("site".into(), json!(tidy(&format!("serialize:{}", site_sig(&site)))));
        }
        Ok(Err(e)) => {
            r.insert("ser".into(), json!("err"));
            r.insert("err".into(), json!(tidy(&e)));
        }
        Ok(Ok(text)) => {
            r.insert("ser".into(), json!("ok"));
            r.insert("json".into(), tree_of(&text));
            match guard(|| v.from_json_text(&text)) {
                Err(site) => {
                    r.insert("fail".into(), json!("panic"));
                    r.insert("site".into(), json!(tidy(&format!("deserialize:{}", site_sig(&site)))));
                }
                Ok(Err(e)) => {
                    r.insert("de".into(), json!("err"));
                    r.insert("err".into(), json!(tidy(&e)));
                }
                Ok(Ok(b)) => {
                    r.insert("de".into(), json!("ok"));
                    r.insert("eq".into(), json!(b == v));
                    r.insert("back".into(), b.to_abs());
                }
            }
            r.insert("text".into(), json!(text));
        }
    }
    out.push(json!({"case": cid, "i": 1, "c": c, "r": Value::Object(r)}));
}
