//! Abstract values of spec/JsonCodec.tla (JSON) <-> real opcua values, table driven, and a type-erased value `Any`
//! that is serialised / deserialised by its type tag.
//! Numeric leaves are decimal text (integers) or named points (floats, DateTime, StatusCode): see the tables below.
use opcua::types::*;
use serde_json::{json, Value};

fn gb(v: &Value, k: &str) -> bool {
    v.get(k).and_then(|x| x.as_bool()).unwrap_or(false)
}
fn gs<'a>(v: &'a Value, k: &str) -> &'a str {
    v.get(k).and_then(|x| x.as_str()).unwrap_or("")
}
fn num<T: std::str::FromStr + Default>(v: &Value, k: &str) -> T {
    gs(v, k).parse::<T>().unwrap_or_default()
}
fn ints(v: &Value) -> Vec<u32> {
    v.as_array().map(|a| a.iter().map(|x| x.as_u64().unwrap_or(0) as u32).collect()).unwrap_or_default()
}

// ---- strings (code points) and byte strings
pub fn to_str(v: &Value) -> UAString {
    if gb(v, "nl") {
        UAString::null()
    } else {
        UAString::from(ints(&v["b"]).iter().filter_map(|c| char::from_u32(*c)).collect::<String>())
    }
}
pub fn from_str(s: &UAString) -> Value {
    match s.value() {
        None => json!({"nl": true, "b": []}),
        Some(x) => json!({"nl": false, "b": x.chars().map(|c| c as u32).collect::<Vec<u32>>()}),
    }
}
pub fn to_bs(v: &Value) -> ByteString {
    if gb(v, "nl") {
        ByteString::null()
    } else {
        ByteString { value: Some(ints(&v["b"]).iter().map(|x| *x as u8).collect()) }
    }
}
pub fn from_bs(s: &ByteString) -> Value {
    match &s.value {
        None => json!({"nl": true, "b": []}),
        Some(x) => json!({"nl": false, "b": x}),
    }
}
fn to_guid(v: &Value) -> Guid {
    let mut a = [0u8; 16];
    for (i, x) in ints(v).iter().take(16).enumerate() {
        a[i] = *x as u8;
    }
    Guid::from_bytes(a)
}
fn from_guid(g: &Guid) -> Value {
    json!(g.as_bytes().to_vec())
}

// ---- named points
const DT_NAMES: [&str; 5] = ["epoch", "ms", "sec", "end", "sub"];
pub fn to_dt(name: &str) -> DateTime {
    match name {
        "ms" => DateTime::ymd_hms_nano(2021, 3, 4, 5, 6, 7, 89_000_000),
        "sub" => DateTime::ymd_hms_nano(2021, 3, 4, 5, 6, 7, 89_123_400),
        "sec" => DateTime::ymd_hms(1999, 12, 31, 23, 59, 59),
        "end" => DateTime::endtimes(),
        _ => DateTime::epoch(),
    }
}
pub fn from_dt(d: &DateTime) -> &'static str {
    DT_NAMES.iter().find(|n| to_dt(n).as_chrono() == d.as_chrono()).copied().unwrap_or("other")
}
const SC_TAB: [(&str, u32); 4] =
    [("Good", 0), ("BadDecodingError", 0x8007_0000), ("UncertainInfo", 0x4090_0081), ("BadLimitHigh", 0x8007_0200)];
pub fn to_sc(name: &str) -> StatusCode {
    StatusCode::from_bits_truncate(SC_TAB.iter().find(|e| e.0 == name).map(|e| e.1).unwrap_or(0))
}
pub fn from_sc(s: &StatusCode) -> &'static str {
    SC_TAB.iter().find(|e| e.1 == s.bits()).map(|e| e.0).unwrap_or("other")
}
const F_NAMES: [&str; 10] = ["zero", "negzero", "onehalf", "tenth", "max", "lowest", "tiny", "inf", "ninf", "nan"];
fn to_f64(p: &str) -> f64 {
    match p {
        "negzero" => -0.0,
        "onehalf" => 1.5,
        "tenth" => 0.1,
        "max" => f64::MAX,
        "lowest" => f64::MIN,
        "tiny" => f64::MIN_POSITIVE,
        "inf" => f64::INFINITY,
        "ninf" => f64::NEG_INFINITY,
        "nan" => f64::NAN,
        _ => 0.0,
    }
}
fn to_f32(p: &str) -> f32 {
    match p {
        "negzero" => -0.0,
        "onehalf" => 1.5,
        "tenth" => 0.1,
        "max" => f32::MAX,
        "lowest" => f32::MIN,
        "tiny" => f32::MIN_POSITIVE,
        "inf" => f32::INFINITY,
        "ninf" => f32::NEG_INFINITY,
        "nan" => f32::NAN,
        _ => 0.0,
    }
}
// by bit pattern (so that -0.0 is told from 0.0); every NaN is "nan"
fn from_f64(x: f64) -> &'static str {
    if x.is_nan() {
        return "nan";
    }
    F_NAMES.iter().find(|n| to_f64(n).to_bits() == x.to_bits()).copied().unwrap_or("other")
}
fn from_f32(x: f32) -> &'static str {
    if x.is_nan() {
        return "nan";
    }
    F_NAMES.iter().find(|n| to_f32(n).to_bits() == x.to_bits()).copied().unwrap_or("other")
}

// ---- node ids
pub fn to_nid(v: &Value) -> NodeId {
    let identifier = match gs(v, "k") {
        "str" => Identifier::String(to_str(&v["s"])),
        "guid" => Identifier::Guid(to_guid(&v["g"])),
        "opq" => Identifier::ByteString(to_bs(&v["s"])),
        _ => Identifier::Numeric(num::<u32>(v, "n")),
    };
    NodeId { namespace: num::<u16>(v, "ns"), identifier }
}
pub fn from_nid(n: &NodeId) -> Value {
    let nulls = json!({"nl": true, "b": []});
    let g0 = json!(vec![0u8; 16]);
    let ns = n.namespace.to_string();
    match &n.identifier {
        Identifier::Numeric(x) => json!({"k": "num", "ns": ns, "n": x.to_string(), "s": nulls, "g": g0}),
        Identifier::String(s) => json!({"k": "str", "ns": ns, "n": "0", "s": from_str(s), "g": g0}),
        Identifier::Guid(g) => json!({"k": "guid", "ns": ns, "n": "0", "s": nulls, "g": from_guid(g)}),
        Identifier::ByteString(s) => json!({"k": "opq", "ns": ns, "n": "0", "s": from_bs(s), "g": g0}),
    }
}
pub fn to_xnid(v: &Value) -> ExpandedNodeId {
    ExpandedNodeId { node_id: to_nid(&v["id"]), namespace_uri: to_str(&v["uri"]), server_index: num::<u32>(v, "srv") }
}
pub fn from_xnid(x: &ExpandedNodeId) -> Value {
    json!({"id": from_nid(&x.node_id), "uri": from_str(&x.namespace_uri), "srv": x.server_index.to_string()})
}
pub fn to_qn(v: &Value) -> QualifiedName {
    QualifiedName { namespace_index: num::<u16>(v, "ns"), name: to_str(&v["name"]) }
}
pub fn from_qn(q: &QualifiedName) -> Value {
    json!({"ns": q.namespace_index.to_string(), "name": from_str(&q.name)})
}
pub fn to_lt(v: &Value) -> LocalizedText {
    LocalizedText { locale: to_str(&v["loc"]), text: to_str(&v["text"]) }
}
pub fn from_lt(l: &LocalizedText) -> Value {
    json!({"loc": from_str(&l.locale), "text": from_str(&l.text)})
}
pub fn to_eo(v: &Value) -> ExtensionObject {
    let body = match gs(v, "enc") {
        "bytes" => ExtensionObjectEncoding::ByteString(to_bs(&v["body"])),
        "xml" => ExtensionObjectEncoding::XmlElement(to_str(&v["body"])),
        _ => ExtensionObjectEncoding::None,
    };
    ExtensionObject { node_id: to_nid(&v["id"]), body }
}
pub fn from_eo(e: &ExtensionObject) -> Value {
    let (enc, body) = match &e.body {
        ExtensionObjectEncoding::None => ("none", json!({"nl": true, "b": []})),
        ExtensionObjectEncoding::ByteString(b) => ("bytes", from_bs(b)),
        ExtensionObjectEncoding::XmlElement(s) => ("xml", from_str(s)),
    };
    json!({"id": from_nid(&e.node_id), "enc": enc, "body": body})
}

// ---- diagnostic info: chain of links
fn opt_i(v: &Value) -> Option<i32> {
    if gb(v, "some") {
        Some(num::<i32>(v, "x"))
    } else {
        None
    }
}
fn from_opt_i(o: &Option<i32>) -> Value {
    match o {
        Some(x) => json!({"some": true, "x": x.to_string()}),
        None => json!({"some": false, "x": "0"}),
    }
}
pub fn to_di(chain: &Value) -> DiagnosticInfo {
    let links = chain.as_array().cloned().unwrap_or_default();
    let mut cur: Option<Box<DiagnosticInfo>> = None;
    for l in links.iter().rev() {
        let d = DiagnosticInfo {
            symbolic_id: opt_i(&l["sym"]),
            namespace_uri: opt_i(&l["nsu"]),
            locale: opt_i(&l["lcl"]),
            localized_text: opt_i(&l["ltx"]),
            additional_info: if gb(&l["add"], "some") { Some(to_str(&l["add"]["s"])) } else { None },
            inner_status_code: if gb(&l["ist"], "some") { Some(to_sc(gs(&l["ist"], "sc"))) } else { None },
            inner_diagnostic_info: cur.take(),
        };
        cur = Some(Box::new(d));
    }
    cur.map(|b| *b).unwrap_or_else(DiagnosticInfo::null)
}
pub fn from_di(d: &DiagnosticInfo) -> Value {
    let mut out = Vec::new();
    let mut cur = Some(d);
    while let Some(x) = cur {
        out.push(json!({
            "sym": from_opt_i(&x.symbolic_id), "nsu": from_opt_i(&x.namespace_uri), "lcl": from_opt_i(&x.locale),
            "ltx": from_opt_i(&x.localized_text),
            "add": match &x.additional_info { Some(s) => json!({"some": true, "s": from_str(s)}), None => json!({"some": false, "s": {"nl": true, "b": []}}) },
            "ist": match &x.inner_status_code { Some(s) => json!({"some": true, "sc": from_sc(s)}), None => json!({"some": false, "sc": "Good"}) },
        }));
        cur = x.inner_diagnostic_info.as_deref();
    }
    Value::Array(out)
}

// ---- data value: six independent optional members
pub fn to_dv(v: &Value) -> DataValue {
    DataValue {
        value: if gb(v, "hv") { Some(to_variant(&v["v"])) } else { None },
        status: if gb(v, "hs") { Some(to_sc(gs(v, "st"))) } else { None },
        source_timestamp: if gb(v, "hst") { Some(to_dt(gs(v, "sts"))) } else { None },
        source_picoseconds: if gb(v, "hsp") { Some(num::<u16>(v, "sp")) } else { None },
        server_timestamp: if gb(v, "hvt") { Some(to_dt(gs(v, "svs"))) } else { None },
        server_picoseconds: if gb(v, "hvp") { Some(num::<u16>(v, "vp")) } else { None },
    }
}
pub fn from_dv(d: &DataValue) -> Value {
    json!({
        "hv": d.value.is_some(),
        "v": match &d.value { Some(v) => from_variant(v), None => json!({"t": "Empty"}) },
        "hs": d.status.is_some(),
        "st": d.status.as_ref().map(from_sc).unwrap_or("Good"),
        "hst": d.source_timestamp.is_some(),
        "sts": d.source_timestamp.as_ref().map(from_dt).unwrap_or("epoch"),
        "hsp": d.source_picoseconds.is_some(),
        "sp": d.source_picoseconds.unwrap_or(0).to_string(),
        "hvt": d.server_timestamp.is_some(),
        "svs": d.server_timestamp.as_ref().map(from_dt).unwrap_or("epoch"),
        "hvp": d.server_picoseconds.is_some(),
        "vp": d.server_picoseconds.unwrap_or(0).to_string(),
    })
}

// ---- variant
fn type_id(name: &str) -> VariantTypeId {
    use VariantTypeId::*;
    match name {
        "Boolean" => Boolean, "SByte" => SByte, "Byte" => Byte, "Int16" => Int16, "UInt16" => UInt16, "Int32" => Int32,
        "UInt32" => UInt32, "Int64" => Int64, "UInt64" => UInt64, "Float" => Float, "Double" => Double, "String" => String,
        "DateTime" => DateTime, "Guid" => Guid, "StatusCode" => StatusCode, "ByteString" => ByteString,
        "XmlElement" => XmlElement, "QualifiedName" => QualifiedName, "LocalizedText" => LocalizedText, "NodeId" => NodeId,
        "ExpandedNodeId" => ExpandedNodeId, "ExtensionObject" => ExtensionObject, "Variant" => Variant,
        "DataValue" => DataValue, "DiagnosticInfo" => DiagnosticInfo, "Array" => Array, _ => Empty,
    }
}
pub fn to_variant(v: &Value) -> Variant {
    let t = gs(v, "t");
    match t {
        "Boolean" => Variant::Boolean(gs(v, "p") == "true"),
        "SByte" => Variant::SByte(num(v, "p")),
        "Byte" => Variant::Byte(num(v, "p")),
        "Int16" => Variant::Int16(num(v, "p")),
        "UInt16" => Variant::UInt16(num(v, "p")),
        "Int32" => Variant::Int32(num(v, "p")),
        "UInt32" => Variant::UInt32(num(v, "p")),
        "Int64" => Variant::Int64(num(v, "p")),
        "UInt64" => Variant::UInt64(num(v, "p")),
        "Float" => Variant::Float(to_f32(gs(v, "p"))),
        "Double" => Variant::Double(to_f64(gs(v, "p"))),
        "Guid" => Variant::Guid(Box::new(to_guid(&v["g"]))),
        "StatusCode" => Variant::StatusCode(to_sc(gs(v, "sc"))),
        "DateTime" => Variant::DateTime(Box::new(to_dt(gs(v, "dt")))),
        "String" => Variant::String(to_str(&v["s"])),
        "XmlElement" => Variant::XmlElement(to_str(&v["s"])),
        "ByteString" => Variant::ByteString(to_bs(&v["s"])),
        "NodeId" => Variant::NodeId(Box::new(to_nid(&v["id"]))),
        "ExpandedNodeId" => Variant::ExpandedNodeId(Box::new(to_xnid(&v["xid"]))),
        "QualifiedName" => Variant::QualifiedName(Box::new(to_qn(&v["qn"]))),
        "LocalizedText" => Variant::LocalizedText(Box::new(to_lt(&v["lt"]))),
        "ExtensionObject" => Variant::ExtensionObject(Box::new(to_eo(&v["eo"]))),
        "DataValue" => Variant::DataValue(Box::new(to_dv(&v["dv"]))),
        "Variant" => Variant::Variant(Box::new(to_variant(&v["v"]))),
        "DiagnosticInfo" => Variant::DiagnosticInfo(Box::new(to_di(&v["di"]))),
        "Array" => {
            let values: Vec<Variant> = v["items"].as_array().map(|a| a.iter().map(to_variant).collect()).unwrap_or_default();
            let dimensions = if gb(&v["dims"], "some") { Some(ints(&v["dims"]["d"])) } else { None };
            Variant::Array(Box::new(Array { value_type: type_id(gs(v, "ety")), values, dimensions }))
        }
        _ => Variant::Empty,
    }
}
pub fn from_variant(v: &Variant) -> Value {
    fn n(t: &str, p: String) -> Value {
        json!({"t": t, "p": p})
    }
    match v {
        Variant::Empty => json!({"t": "Empty"}),
        Variant::Boolean(x) => n("Boolean", x.to_string()),
        Variant::SByte(x) => n("SByte", x.to_string()),
        Variant::Byte(x) => n("Byte", x.to_string()),
        Variant::Int16(x) => n("Int16", x.to_string()),
        Variant::UInt16(x) => n("UInt16", x.to_string()),
        Variant::Int32(x) => n("Int32", x.to_string()),
        Variant::UInt32(x) => n("UInt32", x.to_string()),
        Variant::Int64(x) => n("Int64", x.to_string()),
        Variant::UInt64(x) => n("UInt64", x.to_string()),
        Variant::Float(x) => n("Float", from_f32(*x).to_string()),
        Variant::Double(x) => n("Double", from_f64(*x).to_string()),
        Variant::Guid(x) => json!({"t": "Guid", "g": from_guid(x)}),
        Variant::StatusCode(x) => json!({"t": "StatusCode", "sc": from_sc(x)}),
        Variant::DateTime(x) => json!({"t": "DateTime", "dt": from_dt(x)}),
        Variant::String(x) => json!({"t": "String", "s": from_str(x)}),
        Variant::XmlElement(x) => json!({"t": "XmlElement", "s": from_str(x)}),
        Variant::ByteString(x) => json!({"t": "ByteString", "s": from_bs(x)}),
        Variant::NodeId(x) => json!({"t": "NodeId", "id": from_nid(x)}),
        Variant::ExpandedNodeId(x) => json!({"t": "ExpandedNodeId", "xid": from_xnid(x)}),
        Variant::QualifiedName(x) => json!({"t": "QualifiedName", "qn": from_qn(x)}),
        Variant::LocalizedText(x) => json!({"t": "LocalizedText", "lt": from_lt(x)}),
        Variant::ExtensionObject(x) => json!({"t": "ExtensionObject", "eo": from_eo(x)}),
        Variant::DataValue(x) => json!({"t": "DataValue", "dv": from_dv(x)}),
        Variant::Variant(x) => json!({"t": "Variant", "v": from_variant(x)}),
        Variant::DiagnosticInfo(x) => json!({"t": "DiagnosticInfo", "di": from_di(x)}),
        Variant::Array(a) => json!({
            "t": "Array", "ety": format!("{:?}", a.value_type),
            "items": Value::Array(a.values.iter().map(from_variant).collect()),
            "dims": match &a.dimensions { Some(d) => json!({"some": true, "d": d}), None => json!({"some": false, "d": []}) },
        }),
    }
}

/// A value of any of the top level types the specification talks about.
#[derive(Debug, Clone, PartialEq)]
pub enum Any {
    Variant(Variant),
    Dv(DataValue),
    Str(UAString),
    Bs(ByteString),
    Guid(Guid),
    Dt(DateTime),
    Sc(StatusCode),
    Nid(NodeId),
    XNid(ExpandedNodeId),
    Lt(LocalizedText),
    Qn(QualifiedName),
    Eo(ExtensionObject),
    Di(DiagnosticInfo),
}

impl Any {
    /// ty = "Variant": w is the Variant; otherwise w is the tagged payload (the shape of a Variant holding it)
    pub fn from_abs(ty: &str, w: &Value) -> Any {
        match ty {
            "DataValue" => Any::Dv(to_dv(&w["dv"])),
            "String" => Any::Str(to_str(&w["s"])),
            "ByteString" => Any::Bs(to_bs(&w["s"])),
            "Guid" => Any::Guid(to_guid(&w["g"])),
            "DateTime" => Any::Dt(to_dt(gs(w, "dt"))),
            "StatusCode" => Any::Sc(to_sc(gs(w, "sc"))),
            "NodeId" => Any::Nid(to_nid(&w["id"])),
            "ExpandedNodeId" => Any::XNid(to_xnid(&w["xid"])),
            "LocalizedText" => Any::Lt(to_lt(&w["lt"])),
            "QualifiedName" => Any::Qn(to_qn(&w["qn"])),
            "ExtensionObject" => Any::Eo(to_eo(&w["eo"])),
            "DiagnosticInfo" => Any::Di(to_di(&w["di"])),
            _ => Any::Variant(to_variant(w)),
        }
    }
    pub fn to_abs(&self) -> Value {
        match self {
            Any::Variant(v) => from_variant(v),
            Any::Dv(x) => json!({"t": "DataValue", "dv": from_dv(x)}),
            Any::Str(x) => json!({"t": "String", "s": from_str(x)}),
            Any::Bs(x) => json!({"t": "ByteString", "s": from_bs(x)}),
            Any::Guid(x) => json!({"t": "Guid", "g": from_guid(x)}),
            Any::Dt(x) => json!({"t": "DateTime", "dt": from_dt(x)}),
            Any::Sc(x) => json!({"t": "StatusCode", "sc": from_sc(x)}),
            Any::Nid(x) => json!({"t": "NodeId", "id": from_nid(x)}),
            Any::XNid(x) => json!({"t": "ExpandedNodeId", "xid": from_xnid(x)}),
            Any::Lt(x) => json!({"t": "LocalizedText", "lt": from_lt(x)}),
            Any::Qn(x) => json!({"t": "QualifiedName", "qn": from_qn(x)}),
            Any::Eo(x) => json!({"t": "ExtensionObject", "eo": from_eo(x)}),
            Any::Di(x) => json!({"t": "DiagnosticInfo", "di": from_di(x)}),
        }
    }
    /// serde_json::to_string of the real value
    pub fn to_json_text(&self) -> Result<String, String> {
        let r = match self {
            Any::Variant(x) => serde_json::to_string(x),
            Any::Dv(x) => serde_json::to_string(x),
            Any::Str(x) => serde_json::to_string(x),
            Any::Bs(x) => serde_json::to_string(x),
            Any::Guid(x) => serde_json::to_string(x),
            Any::Dt(x) => serde_json::to_string(x),
            Any::Sc(x) => serde_json::to_string(x),
            Any::Nid(x) => serde_json::to_string(x),
            Any::XNid(x) => serde_json::to_string(x),
            Any::Lt(x) => serde_json::to_string(x),
            Any::Qn(x) => serde_json::to_string(x),
            Any::Eo(x) => serde_json::to_string(x),
            Any::Di(x) => serde_json::to_string(x),
        };
        r.map_err(|e| e.to_string())
    }
    /// serde_json::from_str into the same type
    pub fn from_json_text(&self, text: &str) -> Result<Any, String> {
        fn e<T>(r: serde_json::Result<T>) -> Result<T, String> {
            r.map_err(|e| e.to_string())
        }
        Ok(match self {
            Any::Variant(_) => Any::Variant(e(serde_json::from_str(text))?),
            Any::Dv(_) => Any::Dv(e(serde_json::from_str(text))?),
            Any::Str(_) => Any::Str(e(serde_json::from_str(text))?),
            Any::Bs(_) => Any::Bs(e(serde_json::from_str(text))?),
            Any::Guid(_) => Any::Guid(e(serde_json::from_str(text))?),
            Any::Dt(_) => Any::Dt(e(serde_json::from_str(text))?),
            Any::Sc(_) => Any::Sc(e(serde_json::from_str(text))?),
            Any::Nid(_) => Any::Nid(e(serde_json::from_str(text))?),
            Any::XNid(_) => Any::XNid(e(serde_json::from_str(text))?),
            Any::Lt(_) => Any::Lt(e(serde_json::from_str(text))?),
            Any::Qn(_) => Any::Qn(e(serde_json::from_str(text))?),
            Any::Eo(_) => Any::Eo(e(serde_json::from_str(text))?),
            Any::Di(_) => Any::Di(e(serde_json::from_str(text))?),
        })
    }
}
