//! conform — executes TLC-generated cases against the real opcua crate and records observations.
//!
//!   conform run <engine> <cases.ndjson> <obs.ndjson>
//!   conform child <engine> <cases.ndjson> <obs.ndjson>   (one case per process, wall-clock limit)
//!   conform one <engine>                                  (stdin: one case, stdout: observations)
#[path = "../../harness/src/util.rs"]
mod util;
mod e_json;
mod jtree;
mod val;

use serde_json::Value;
use std::io::{BufRead, BufReader, BufWriter, Write};

pub type Obs = Vec<Value>;

/// observations are written ASCII only (TLC reads them under a POSIX locale): non-ASCII characters, which can only
/// occur inside JSON strings, become \uXXXX escapes (surrogate pairs above the BMP)
fn ascii(line: String) -> String {
    if line.is_ascii() {
        return line;
    }
    let mut o = String::with_capacity(line.len() + 16);
    for c in line.chars() {
        if c.is_ascii() {
            o.push(c);
        } else {
            let mut b = [0u16; 2];
            for u in c.encode_utf16(&mut b) {
                o.push_str(&format!("\\u{:04x}", u));
            }
        }
    }
    o
}

fn run_case(engine: &str, case: &Value, out: &mut Obs) {
    match engine {
        "json_rt" => e_json::run_case(case, out),
        _ => {
            eprintln!("unknown engine {}", engine);
            std::process::exit(2);
        }
    }
}

fn main() {
    let args: Vec<String> = std::env::args().collect();
    if args.len() < 3 {
        eprintln!("usage: conform run|child|one <engine> [cases obs]");
        std::process::exit(2);
    }
    util::install_panic_hook();
    let mode = args[1].as_str();
    let engine = args[2].as_str();
    match mode {
        "run" => {
            let inp = BufReader::new(std::fs::File::open(&args[3]).expect("cases"));
            let mut outp = BufWriter::new(std::fs::File::create(&args[4]).expect("obs"));
            for line in inp.lines() {
                let line = line.unwrap();
                if line.trim().is_empty() {
                    continue;
                }
                let case: Value = serde_json::from_str(&line).expect("case json");
                let mut obs = Vec::new();
                run_case(engine, &case, &mut obs);
                for o in obs {
                    writeln!(outp, "{}", ascii(o.to_string())).unwrap();
                }
            }
        }
        "one" => {
            let mut s = String::new();
            std::io::stdin().read_line(&mut s).unwrap();
            let case: Value = serde_json::from_str(&s).expect("case json");
            let mut obs = Vec::new();
            run_case(engine, &case, &mut obs);
            let so = std::io::stdout();
            let mut so = so.lock();
            for o in obs {
                writeln!(so, "{}", ascii(o.to_string())).unwrap();
            }
        }
        "child" => {
            // one process per case; abort / timeout become observations
            let limit_ms: u64 = std::env::var("VERIF_CHILD_MS").ok().and_then(|s| s.parse().ok()).unwrap_or(10000);
            let inp = BufReader::new(std::fs::File::open(&args[3]).expect("cases"));
            let mut outp = BufWriter::new(std::fs::File::create(&args[4]).expect("obs"));
            let exe = std::env::current_exe().unwrap();
            for line in inp.lines() {
                let line = line.unwrap();
                if line.trim().is_empty() {
                    continue;
                }
                let case: Value = serde_json::from_str(&line).expect("case json");
                let cid = case.get("case").cloned().unwrap_or(Value::Null);
                let mut ch = std::process::Command::new(&exe)
                    .arg("one")
                    .arg(engine)
                    .stdin(std::process::Stdio::piped())
                    .stdout(std::process::Stdio::piped())
                    .stderr(std::process::Stdio::null())
                    .spawn()
                    .expect("spawn");
                {
                    let mut si = ch.stdin.take().unwrap();
                    let _ = writeln!(si, "{}", line);
                }
                let start = std::time::Instant::now();
                let mut status = None;
                // read stdout in a thread so that the child can not block on a full pipe
                let mut so = ch.stdout.take().unwrap();
                let reader = std::thread::spawn(move || {
                    let mut s = String::new();
                    use std::io::Read;
                    let _ = so.read_to_string(&mut s);
                    s
                });
                while start.elapsed().as_millis() < limit_ms as u128 {
                    match ch.try_wait() {
                        Ok(Some(st)) => {
                            status = Some(st);
                            break;
                        }
                        _ => std::thread::sleep(std::time::Duration::from_millis(2)),
                    }
                }
                let fail = match status {
                    None => {
                        let _ = ch.kill();
                        let _ = ch.wait();
                        Some("timeout")
                    }
                    Some(st) if !st.success() => Some("abort"),
                    _ => None,
                };
                let text = reader.join().unwrap_or_default();
                let mut n = 0;
                for l in text.lines() {
                    if serde_json::from_str::<Value>(l).is_ok() {
                        writeln!(outp, "{}", l).unwrap();
                        n += 1;
                    }
                }
                if let Some(f) = fail {
                    let o = serde_json::json!({"case": cid, "i": n + 1, "ev": "process", "fail": f, "site": f});
                    writeln!(outp, "{}", o).unwrap();
                }
            }
        }
        _ => {
            eprintln!("unknown mode");
            std::process::exit(2);
        }
    }
}
