//! Engine `keyderiv` (C13): channel key derivation.
//!
//! A case is (policy, client nonce, server nonce) with the symbolic terms TLC printed (`exp`). The engine
//!   * builds the concrete nonces,
//!   * derives keys with the real code: `SecurityPolicy::make_secure_channel_keys` and `SecureChannel::derive_keys`
//!     on a client-role and on a server-role channel (projection hook `verif_derived_keys`),
//!   * evaluates the printed terms PSHA(h, secret, seed)[off..off+len) with an independent RFC 5246 P_hash
//!     (HMAC per RFC 2104 over openssl's SHA-1/SHA-256, self-tested against openssl's HMAC) and maps every real key
//!     back to a term: the expected term if the bytes are equal, else whichever P_SHA stream of the two nonces
//!     contains the bytes, else "none",
//!   * secures a chunk on one role and verifies it on the other, compares the key bytes with those of other nonce pairs.
use crate::mint;
use crate::util::*;
use crate::Obs;
use opcua::core::comms::secure_channel::{Role, SecureChannel};
use opcua::crypto::{CertificateStore, SecurityPolicy};
use opcua::types::ByteString;
use opcua::sync::RwLock;
use opcua::types::{DecodingOptions, MessageSecurityMode};
use openssl::hash::{hash, MessageDigest};
use serde_json::{json, Value};
use std::sync::Arc;

// ---------------------------------------------------------------- independent P_hash (RFC 5246 section 5)
fn md(h: &str) -> MessageDigest {
    if h == "sha1" {
        MessageDigest::sha1()
    } else {
        MessageDigest::sha256()
    }
}

/// HMAC (RFC 2104), block size 64 for SHA-1 and SHA-256
fn hmac(h: &str, key: &[u8], data: &[u8]) -> Vec<u8> {
    let mut k = [0u8; 64];
    if key.len() > 64 {
        let d = hash(md(h), key).unwrap();
        k[..d.len()].copy_from_slice(&d);
    } else {
        k[..key.len()].copy_from_slice(key);
    }
    let mut inner: Vec<u8> = k.iter().map(|b| b ^ 0x36).collect();
    inner.extend_from_slice(data);
    let mut outer: Vec<u8> = k.iter().map(|b| b ^ 0x5c).collect();
    outer.extend_from_slice(&hash(md(h), &inner).unwrap());
    hash(md(h), &outer).unwrap().to_vec()
}

/// P_hash(secret, seed) = HMAC(secret, A(1) + seed) + HMAC(secret, A(2) + seed) + ...,  A(0) = seed, A(i) = HMAC(secret, A(i-1))
fn p_hash(h: &str, secret: &[u8], seed: &[u8], n: usize) -> Vec<u8> {
    let mut out = Vec::new();
    let mut a = seed.to_vec();
    while out.len() < n {
        a = hmac(h, secret, &a);
        let mut m = a.clone();
        m.extend_from_slice(seed);
        out.extend(hmac(h, secret, &m));
    }
    out.truncate(n);
    out
}

fn self_test() {
    use openssl::pkey::PKey;
    use openssl::sign::Signer;
    for (h, key) in [("sha1", &b"k"[..]), ("sha256", &b"another key, longer than sixty-four bytes, so that it is hashed first ......"[..])] {
        let pk = PKey::hmac(key).unwrap();
        let mut s = Signer::new(md(h), &pk).unwrap();
        s.update(b"data").unwrap();
        if s.sign_to_vec().unwrap() != hmac(h, key, b"data") {
            eprintln!("self test of the independent HMAC failed");
            std::process::exit(2);
        }
    }
}

// ---------------------------------------------------------------- concretisation
thread_local! {
    /// streams "r1", "r2", ...: no byte 00 / 01 / ff / a5, and position-wise different from all earlier streams
    static STREAMS: Vec<Vec<u8>> = {
        self_test();
        let keep = |b: u8| b != 0 && b != 1 && b != 0xff && b != 0xa5;
        let mut all: Vec<Vec<u8>> = Vec::new();
        for k in 1..=6 {
            let mut r = mint::stream(&format!("c13-r{}", k), 64, keep);
            for i in 0..64 {
                while all.iter().any(|e| e[i] == r[i]) {
                    r[i] = if r[i] >= 0xf0 { 2 } else { r[i] + 1 };
                    if r[i] == 0xa5 {
                        r[i] += 1;
                    }
                }
            }
            all.push(r);
        }
        all
    };
}

fn nonce(n: &Value) -> Vec<u8> {
    let len = geti(n, "len") as usize;
    match gets(n, "fill") {
        "zero" => vec![0u8; len],
        "ff" => vec![0xffu8; len],
        "a5" => vec![0xa5u8; len],
        "inc" => (0..len).map(|i| (i + 1) as u8).collect(),
        f => {
            let k: usize = f.trim_start_matches('r').parse().unwrap_or(1);
            STREAMS.with(|s| s[k - 1][..len].to_vec())
        }
    }
}

type K3 = (Vec<u8>, Vec<u8>, Vec<u8>);

fn channel(role: Role, pol: SecurityPolicy, local: &[u8], remote: &[u8], mode: MessageSecurityMode) -> SecureChannel {
    let store = Arc::new(RwLock::new(CertificateStore::new(&mint::out_dir().join("h_crypto").join("no-pki"))));
    let mut ch = SecureChannel::new(store, role, DecodingOptions::default());
    ch.set_security_policy(pol);
    ch.set_security_mode(mode);
    ch.set_local_nonce(local);
    ch.set_remote_nonce(remote);
    ch.derive_keys();
    ch
}

/// a chunk-shaped buffer secured by `a` must be accepted by `b` and give back the same bytes
fn wire(a: &SecureChannel, b: &SecureChannel, pol: SecurityPolicy) -> String {
    let sig = pol.symmetric_signature_size();
    let head = 16usize;
    let body = if sig == 20 { 12 } else { 16 };
    let p = head + body + sig;
    let src: Vec<u8> = (0..p).map(|i| (i * 7 + 3) as u8).collect();
    let mut dst = vec![0u8; p + 16];
    let n = match a.symmetric_sign_and_encrypt(&src, 0..(p - sig), head..p, &mut dst) {
        Ok(n) => n,
        Err(e) => return format!("secure:{}", e.name()),
    };
    let mut back = vec![0u8; n]; // exactly the chunk size, as verify_and_remove_security allocates it
    match b.symmetric_decrypt_and_verify(&dst[..n], 0..(p - sig), head..n, &mut back) {
        Ok(m) => {
            if m >= p - sig && back[..(p - sig)] == src[..(p - sig)] {
                "ok".into()
            } else {
                "different-plaintext".into()
            }
        }
        Err(e) => format!("verify:{}", e.name()),
    }
}

/// real key bytes -> term over the nonces of this exchange: the expected term if the bytes are equal, else whichever
/// P_SHA stream of the two nonces contains the bytes, else "none"
fn recover(real: &[u8], want: &Value, cn: &[u8], sn: &[u8]) -> Value {
    let val = |who: &str| if who == "C" { cn } else { sn };
    if want.is_object() {
        let (off, len) = (geti(want, "off") as usize, geti(want, "len") as usize);
        if p_hash(gets(want, "h"), val(gets(want, "secret")), val(gets(want, "seed")), off + len)[off..] == *real {
            return want.clone();
        }
    }
    if !real.is_empty() {
        for h in ["sha1", "sha256"] {
            for (a, b) in [("S", "C"), ("C", "S"), ("C", "C"), ("S", "S")] {
                let s = p_hash(h, val(a), val(b), 160);
                if let Some(off) = s.windows(real.len()).position(|w| w == real) {
                    return json!({"h": h, "secret": a, "seed": b, "off": off, "len": real.len()});
                }
            }
        }
    }
    json!({"h": "none", "secret": "C", "seed": "C", "off": 0, "len": real.len()})
}

fn k3(k: &K3, want: &Value, cn: &[u8], sn: &[u8]) -> Value {
    json!({"sign": recover(&k.0, &want["sign"], cn, sn), "enc": recover(&k.1, &want["enc"], cn, sn), "iv": recover(&k.2, &want["iv"], cn, sn)})
}

fn both(x: String, y: String) -> String {
    if x != "ok" {
        x
    } else {
        y
    }
}

/// single derivation on fresh channel objects
fn run_one(c: &Value, exp: &Value) -> Value {
    let pol = mint::policy(gets(c, "pol"));
    let (cn, sn) = (nonce(&c["cn"]), nonce(&c["sn"]));
    // 1. the policy function, Table 33 arguments: client keys (secret = server nonce, seed = client nonce), server keys
    let mkc = pol.make_secure_channel_keys(&sn, &cn);
    let mkc: K3 = (mkc.0, mkc.1.value().to_vec(), mkc.2);
    let mks = pol.make_secure_channel_keys(&cn, &sn);
    let mks: K3 = (mks.0, mks.1.value().to_vec(), mks.2);
    // 2. both roles of a channel
    let cli = channel(Role::Client, pol, &cn, &sn, MessageSecurityMode::SignAndEncrypt);
    let srv = channel(Role::Server, pol, &sn, &cn, MessageSecurityMode::SignAndEncrypt);
    let (cl, cr) = cli.verif_derived_keys().expect("client keys");
    let (sl, sr) = srv.verif_derived_keys().expect("server keys");
    // 3. a secured chunk crosses the channel, in both modes
    let cli_s = channel(Role::Client, pol, &cn, &sn, MessageSecurityMode::Sign);
    let srv_s = channel(Role::Server, pol, &sn, &cn, MessageSecurityMode::Sign);
    let wire_c2s = both(wire(&cli, &srv, pol), wire(&cli_s, &srv_s, pol));
    let wire_s2c = both(wire(&srv, &cli, pol), wire(&srv_s, &cli_s, pol));
    // 4. other nonce pairs
    let mut others = Vec::new();
    if let Some(qs) = exp["others"].as_array() {
        for q in qs {
            let (qc, qs_) = (nonce(&q["cn"]), nonce(&q["sn"]));
            let qcli = channel(Role::Client, pol, &qc, &qs_, MessageSecurityMode::SignAndEncrypt);
            let (ql, qr) = qcli.verif_derived_keys().expect("keys of other pair");
            others.push(json!({"q": q, "same": {"cs": ql.0 == cl.0, "ce": ql.1 == cl.1, "ci": ql.2 == cl.2,
                                                 "ss": qr.0 == cr.0, "se": qr.1 == cr.1, "si": qr.2 == cr.2}}));
        }
    }
    json!({"fail": "none", "site": "",
           "mk": {"client": k3(&mkc, &exp["mk"]["client"], &cn, &sn), "server": k3(&mks, &exp["mk"]["server"], &cn, &sn)},
           "cli": {"local": k3(&cl, &exp["cli"]["local"], &cn, &sn), "remote": k3(&cr, &exp["cli"]["remote"], &cn, &sn)},
           "srv": {"local": k3(&sl, &exp["srv"]["local"], &cn, &sn), "remote": k3(&sr, &exp["srv"]["remote"], &cn, &sn)},
           "agree": {"c2s": cl == sr, "s2c": sl == cr},
           "wire": {"c2s": wire_c2s, "s2c": wire_s2c},
           "others": others})
}

/// a sequence of exchanges (issue, renewals) on ONE client-role and ONE server-role channel object, driven the way the
/// stack drives them: client `set_local_nonce` (request), server `set_remote_nonce_from_byte_string` + `set_local_nonce`
/// or `create_random_nonce` + `derive_keys`, client `set_remote_nonce_from_byte_string` (response) + `derive_keys`.
/// After every exchange the keys both ends hold are mapped back to terms over the nonces of THAT exchange.
fn run_seq(c: &Value, exp: &Value, steps: &mut Vec<Value>) -> Result<(), String> {
    let pol = mint::policy(gets(c, "pol"));
    let mk = |role: Role| {
        let store = Arc::new(RwLock::new(CertificateStore::new(&mint::out_dir().join("h_crypto").join("no-pki"))));
        let mut ch = SecureChannel::new(store, role, DecodingOptions::default());
        ch.set_security_policy(pol);
        ch.set_security_mode(MessageSecurityMode::SignAndEncrypt);
        ch
    };
    let (mut cli, mut srv) = (mk(Role::Client), mk(Role::Server));
    for x in c["ex"].as_array().cloned().unwrap_or_default() {
        let cn = nonce(&x["cn"]);
        // client: OpenSecureChannel request carries its fresh nonce
        cli.set_local_nonce(&cn);
        let sent_cn = ByteString::from(cn.clone());
        // server: takes the client nonce, makes its own, derives
        srv.set_remote_nonce_from_byte_string(&sent_cn).map_err(|e| format!("server rejected the client nonce: {}", e.name()))?;
        if gets(&x["sn"], "fill") == "srvrand" {
            srv.create_random_nonce();
        } else {
            srv.set_local_nonce(&nonce(&x["sn"]));
        }
        srv.derive_keys();
        // the response carries the server nonce
        let sent_sn = srv.local_nonce_as_byte_string();
        let sn: Vec<u8> = sent_sn.value.clone().unwrap_or_default();
        cli.set_remote_nonce_from_byte_string(&sent_sn).map_err(|e| format!("client rejected the server nonce: {}", e.name()))?;
        cli.derive_keys();

        let (cl, cr) = cli.verif_derived_keys().ok_or("client keys")?;
        let (sl, sr) = srv.verif_derived_keys().ok_or("server keys")?;
        let w1 = (wire(&cli, &srv, pol), wire(&srv, &cli, pol));
        cli.set_security_mode(MessageSecurityMode::Sign);
        srv.set_security_mode(MessageSecurityMode::Sign);
        let w2 = (wire(&cli, &srv, pol), wire(&srv, &cli, pol));
        cli.set_security_mode(MessageSecurityMode::SignAndEncrypt);
        srv.set_security_mode(MessageSecurityMode::SignAndEncrypt);
        steps.push(json!({
            "cli": {"local": k3(&cl, &exp["cli"]["local"], &cn, &sn), "remote": k3(&cr, &exp["cli"]["remote"], &cn, &sn)},
            "srv": {"local": k3(&sl, &exp["srv"]["local"], &cn, &sn), "remote": k3(&sr, &exp["srv"]["remote"], &cn, &sn)},
            "agree": {"c2s": cl == sr, "s2c": sl == cr},
            "wire": {"c2s": both(w1.0, w2.0), "s2c": both(w1.1, w2.1)},
            "nonce_lens": [cn.len(), sn.len()]}));
    }
    Ok(())
}

pub fn run_case(case: &Value, out: &mut Obs) {
    let cid = case.get("case").cloned().unwrap_or(Value::Null);
    let c = &case["c"];
    let exp = &case["exp"];
    let r = if gets(c, "kind") == "seq" {
        let mut steps = Vec::new();
        match guard(|| run_seq(c, exp, &mut steps)) {
            Ok(Ok(())) => json!({"fail": "none", "site": "", "steps": steps}),
            Ok(Err(e)) => json!({"fail": "setup", "site": e, "steps": steps}),
            Err(site) => json!({"fail": "panic", "site": site_sig(&site), "steps": steps}),
        }
    } else {
        match guard(|| run_one(c, exp)) {
            Ok(v) => v,
            Err(site) => json!({"fail": "panic", "site": site_sig(&site)}),
        }
    };
    out.push(json!({"case": cid, "i": 1, "c": c, "r": r}));
}
