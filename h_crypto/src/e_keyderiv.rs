//! Engine `keyderiv` (C13): channel key derivation.
//!
//! A case is (policy, client nonce, server nonce) with the symbolic terms TLC printed (`exp`). The engine
//!   * builds the concrete nonces,
//!   * derives keys with the real code: `SecurityPolicy::make_secure_channel_keys` and `SecureChannel::derive_keys`
//!     on a client-role and on a server-role channel (projection hook `verif_derived_keys`),
//!   * evaluates the printed terms PSHA(h, secret, seed)[off..off+len) with an independent RFC 5246 P_hash
//!     (HMAC per RFC 2104 over openssl's SHA-1/SHA-256, self-tested against openssl's HMAC) and maps every real key
//!     back to a term: the expected term if the bytes are equal, else whichever P_SHA stream of the two nonces
//!     contains the bytes, else "none",
//!   * secures a chunk on one role and verifies it on the other, compares the key bytes with those of other nonce pairs.
use crate::mint;
use crate::util::*;
use crate::Obs;
use opcua::core::comms::secure_channel::{Role, SecureChannel};
use opcua::crypto::{CertificateStore, SecurityPolicy};
use opcua::sync::RwLock;
use opcua::types::{DecodingOptions, MessageSecurityMode};
use openssl::hash::{hash, MessageDigest};
use serde_json::{json, Value};
use std::sync::Arc;

// ---------------------------------------------------------------- independent P_hash (RFC 5246 section 5)
fn md(h: &str) -> MessageDigest {
    if h == "sha1" {
        MessageDigest::sha1()
    } else {
        MessageDigest::sha256()
    }
}

/// HMAC (RFC 2104), block size 64 for SHA-1 and SHA-256
fn hmac(h: &str, key: &[u8], data: &[u8]) -> Vec<u8> {
    let mut k = [0u8; 64];
    if key.len() > 64 {
        let d = hash(md(h), key).unwrap();
        k[..d.len()].copy_from_slice(&d);
    } else {
        k[..key.len()].copy_from_slice(key);
    }
    let mut inner: Vec<u8> = k.iter().map(|b| b ^ 0x36).collect();
    inner.extend_from_slice(data);
    let mut outer: Vec<u8> = k.iter().map(|b| b ^ 0x5c).collect();
    outer.extend_from_slice(&hash(md(h), &inner).unwrap());
    hash(md(h), &outer).unwrap().to_vec()
}

/// P_hash(secret, seed) = HMAC(secret, A(1) + seed) + HMAC(secret, A(2) + seed) + ...,  A(0) = seed, A(i) = HMAC(secret, A(i-1))
fn p_hash(h: &str, secret: &[u8], seed: &[u8], n: usize) -> Vec<u8> {
    let mut out = Vec::new();
    let mut a = seed.to_vec();
    while out.len() < n {
        a = hmac(h, secret, &a);
        let mut m = a.clone();
        m.extend_from_slice(seed);
        out.extend(hmac(h, secret, &m));
    }
    out.truncate(n);
    out
}

fn self_test() {
    use openssl::pkey::PKey;
    use openssl::sign::Signer;
    for (h, key) in [("sha1", &b"k"[..]), ("sha256", &b"another key, longer than sixty-four bytes, so that it is hashed first ......"[..])] {
        let pk = PKey::hmac(key).unwrap();
        let mut s = Signer::new(md(h), &pk).unwrap();
        s.update(b"data").unwrap();
        if s.sign_to_vec().unwrap() != hmac(h, key, b"data") {
            eprintln!("self test of the independent HMAC failed");
            std::process::exit(2);
        }
    }
}

// ---------------------------------------------------------------- concretisation
thread_local! {
    static STREAMS: (Vec<u8>, Vec<u8>) = {
        self_test();
        let keep = |b: u8| b != 0 && b != 1 && b != 0xff && b != 0xa5;
        let r1 = mint::stream("c13-r1", 64, keep);
        let mut r2 = mint::stream("c13-r2", 64, keep);
        for i in 0..64 {
            if r2[i] == r1[i] {
                r2[i] = if r1[i] == 0x42 { 0x43 } else { 0x42 };
            }
        }
        (r1, r2)
    };
}

fn nonce(n: &Value) -> Vec<u8> {
    let len = geti(n, "len") as usize;
    match gets(n, "fill") {
        "zero" => vec![0u8; len],
        "ff" => vec![0xffu8; len],
        "a5" => vec![0xa5u8; len],
        "inc" => (0..len).map(|i| (i + 1) as u8).collect(),
        "r2" => STREAMS.with(|s| s.1[..len].to_vec()),
        _ => STREAMS.with(|s| s.0[..len].to_vec()),
    }
}

type K3 = (Vec<u8>, Vec<u8>, Vec<u8>);

fn channel(role: Role, pol: SecurityPolicy, local: &[u8], remote: &[u8], mode: MessageSecurityMode) -> SecureChannel {
    let store = Arc::new(RwLock::new(CertificateStore::new(&mint::out_dir().join("h_crypto").join("no-pki"))));
    let mut ch = SecureChannel::new(store, role, DecodingOptions::default());
    ch.set_security_policy(pol);
    ch.set_security_mode(mode);
    ch.set_local_nonce(local);
    ch.set_remote_nonce(remote);
    ch.derive_keys();
    ch
}

/// a chunk-shaped buffer secured by `a` must be accepted by `b` and give back the same bytes
fn wire(a: &SecureChannel, b: &SecureChannel, pol: SecurityPolicy) -> String {
    let sig = pol.symmetric_signature_size();
    let head = 16usize;
    let body = if sig == 20 { 12 } else { 16 };
    let p = head + body + sig;
    let src: Vec<u8> = (0..p).map(|i| (i * 7 + 3) as u8).collect();
    let mut dst = vec![0u8; p + 16];
    let n = match a.symmetric_sign_and_encrypt(&src, 0..(p - sig), head..p, &mut dst) {
        Ok(n) => n,
        Err(e) => return format!("secure:{}", e.name()),
    };
    let mut back = vec![0u8; n]; // exactly the chunk size, as verify_and_remove_security allocates it
    match b.symmetric_decrypt_and_verify(&dst[..n], 0..(p - sig), head..n, &mut back) {
        Ok(m) => {
            if m >= p - sig && back[..(p - sig)] == src[..(p - sig)] {
                "ok".into()
            } else {
                "different-plaintext".into()
            }
        }
        Err(e) => format!("verify:{}", e.name()),
    }
}

pub fn run_case(case: &Value, out: &mut Obs) {
    let cid = case.get("case").cloned().unwrap_or(Value::Null);
    let c = &case["c"];
    let exp = &case["exp"];
    let r = guard(|| {
        let pol = match gets(c, "pol") {
            "Basic128Rsa15" => SecurityPolicy::Basic128Rsa15,
            "Basic256" => SecurityPolicy::Basic256,
            "Basic256Sha256" => SecurityPolicy::Basic256Sha256,
            "Aes128Sha256RsaOaep" => SecurityPolicy::Aes128Sha256RsaOaep,
            "Aes256Sha256RsaPss" => SecurityPolicy::Aes256Sha256RsaPss,
            _ => SecurityPolicy::Unknown,
        };
        let (cn, sn) = (nonce(&c["cn"]), nonce(&c["sn"]));
        let val = |who: &str| if who == "C" { &cn } else { &sn };
        let eval = |t: &Value| -> Vec<u8> {
            let (off, len) = (geti(t, "off") as usize, geti(t, "len") as usize);
            p_hash(gets(t, "h"), val(gets(t, "secret")), val(gets(t, "seed")), off + len)[off..].to_vec()
        };
        // real bytes -> term
        let recover = |real: &[u8], want: &Value| -> Value {
            if want.is_object() && eval(want) == real {
                return want.clone();
            }
            if !real.is_empty() {
                for h in ["sha1", "sha256"] {
                    for (a, b) in [("S", "C"), ("C", "S"), ("C", "C"), ("S", "S")] {
                        let s = p_hash(h, val(a), val(b), 160);
                        if let Some(off) = s.windows(real.len()).position(|w| w == real) {
                            return json!({"h": h, "secret": a, "seed": b, "off": off, "len": real.len()});
                        }
                    }
                }
            }
            json!({"h": "none", "secret": "C", "seed": "C", "off": 0, "len": real.len()})
        };
        let k3 = |k: &K3, want: &Value| json!({"sign": recover(&k.0, &want["sign"]), "enc": recover(&k.1, &want["enc"]), "iv": recover(&k.2, &want["iv"])});

        // 1. the policy function, Table 33 arguments: client keys (secret = server nonce, seed = client nonce), server keys
        let mkc = pol.make_secure_channel_keys(&sn, &cn);
        let mkc: K3 = (mkc.0, mkc.1.value().to_vec(), mkc.2);
        let mks = pol.make_secure_channel_keys(&cn, &sn);
        let mks: K3 = (mks.0, mks.1.value().to_vec(), mks.2);
        // 2. both roles of a channel
        let cli = channel(Role::Client, pol, &cn, &sn, MessageSecurityMode::SignAndEncrypt);
        let srv = channel(Role::Server, pol, &sn, &cn, MessageSecurityMode::SignAndEncrypt);
        let (cl, cr) = cli.verif_derived_keys().expect("client keys");
        let (sl, sr) = srv.verif_derived_keys().expect("server keys");
        // 3. a secured chunk crosses the channel, in both modes
        let cli_s = channel(Role::Client, pol, &cn, &sn, MessageSecurityMode::Sign);
        let srv_s = channel(Role::Server, pol, &sn, &cn, MessageSecurityMode::Sign);
        let both = |x: String, y: String| if x != "ok" { x } else { y };
        let wire_c2s = both(wire(&cli, &srv, pol), wire(&cli_s, &srv_s, pol));
        let wire_s2c = both(wire(&srv, &cli, pol), wire(&srv_s, &cli_s, pol));
        // 4. other nonce pairs
        let mut others = Vec::new();
        if let Some(qs) = exp["others"].as_array() {
            for q in qs {
                let (qc, qs_) = (nonce(&q["cn"]), nonce(&q["sn"]));
                let qcli = channel(Role::Client, pol, &qc, &qs_, MessageSecurityMode::SignAndEncrypt);
                let (ql, qr) = qcli.verif_derived_keys().expect("keys of other pair");
                others.push(json!({"q": q, "same": {"cs": ql.0 == cl.0, "ce": ql.1 == cl.1, "ci": ql.2 == cl.2,
                                                     "ss": qr.0 == cr.0, "se": qr.1 == cr.1, "si": qr.2 == cr.2}}));
            }
        }
        json!({"fail": "none", "site": "",
               "mk": {"client": k3(&mkc, &exp["mk"]["client"]), "server": k3(&mks, &exp["mk"]["server"])},
               "cli": {"local": k3(&cl, &exp["cli"]["local"]), "remote": k3(&cr, &exp["cli"]["remote"])},
               "srv": {"local": k3(&sl, &exp["srv"]["local"]), "remote": k3(&sr, &exp["srv"]["remote"])},
               "agree": {"c2s": cl == sr, "s2c": sl == cr},
               "wire": {"c2s": wire_c2s, "s2c": wire_s2c},
               "others": others})
    });
    let r = match r {
        Ok(v) => v,
        Err(site) => json!({"fail": "panic", "site": site_sig(&site)}),
    };
    out.push(json!({"case": cid, "i": 1, "c": c, "r": r}));
}
