//! Engine `pwtoken` (C16): legacy encrypted user name identity token secrets.
//!
//! Case kinds (spec/PasswordToken.tla):
//!   rt    : legacy_password_encrypt, then legacy_password_decrypt / decrypt_user_identity_token_password with the same
//!           nonce and with the nonce variants TLC listed;
//!   craft : plaintext built here from the decision table, encrypted block-wise with openssl (block size from the spec);
//!   arb   : arbitrary ciphertext byte strings;
//!   bytes : nonce and plaintext given byte by byte by the specification (length prefix / body / nonce classes of a
//!           hostile client), encrypted correctly with openssl.
//! Outcomes are abstract: "ok-same" (the original password), "ok-other", "err", "panic".
//!
//! Concretisation contract: password characters come from [a-z], U+0100.., U+4000.., U+1F600.. (all continuation bytes
//! in 0x80..0x9F); nonce bytes are adjacent-distinct, class "hi" from {A0..BF, C0, C1, F5..FF} (never continue valid
//! UTF-8), class "ascii" from printable ASCII without [a-z]; so no nonce byte occurs in a password.
use crate::mint;
use crate::util::*;
use crate::Obs;
use opcua::crypto::{decrypt_user_identity_token_password, legacy_password_decrypt, legacy_password_encrypt, PrivateKey, RsaPadding, X509};
use opcua::types::service_types::UserNameIdentityToken;
use opcua::types::{ByteString, UAString};
use openssl::encrypt::Encrypter;
use openssl::hash::MessageDigest;
use openssl::pkey::PKey;
use openssl::rsa::Padding;
use serde_json::{json, Value};
use std::cell::RefCell;
use std::collections::HashMap;

thread_local! {
    static CERTS: RefCell<HashMap<u32, (X509, PrivateKey)>> = RefCell::new(HashMap::new());
}

fn with_key<T>(bits: u32, f: impl FnOnce(&X509, &PrivateKey) -> T) -> T {
    CERTS.with(|m| {
        let mut m = m.borrow_mut();
        let e = m.entry(bits).or_insert_with(|| mint::default_cert(bits, "server"));
        f(&e.0, &e.1)
    })
}

fn hi_alphabet() -> Vec<u8> {
    let mut a: Vec<u8> = (0xA0u8..=0xBF).collect();
    a.extend([0xC0u8, 0xC1]);
    a.extend(0xF5u8..=0xFF);
    a
}
fn ascii_alphabet() -> Vec<u8> {
    (0x20u8..=0x7E).filter(|b| !(b'a'..=b'z').contains(b)).collect()
}
fn alphabet(cls: &str) -> Vec<u8> {
    if cls == "ascii" {
        ascii_alphabet()
    } else {
        hi_alphabet()
    }
}

/// adjacent-distinct bytes of the class
fn nonce_stream(tag: &str, cls: &str, n: usize) -> Vec<u8> {
    let a = alphabet(cls);
    let r = mint::stream(&format!("c16-{}-{}", tag, cls), n + 1, |_| true);
    let mut out: Vec<u8> = Vec::with_capacity(n);
    for i in 0..n {
        let mut k = r[i] as usize % a.len();
        if i > 0 && a[k] == out[i - 1] {
            k = (k + 1) % a.len();
        }
        out.push(a[k]);
    }
    out
}

fn other_byte(cls: &str, not: &[u8]) -> u8 {
    *alphabet(cls).iter().find(|b| !not.contains(b)).unwrap()
}

fn nonce(n: &Value) -> Vec<u8> {
    nonce_stream("n", gets(n, "cls"), geti(n, "len") as usize)
}

fn variant(v: &str, n: &[u8], cls: &str, len: usize) -> Vec<u8> {
    let l = n.len();
    let mut x = n.to_vec();
    match v {
        "flip-first" => x[0] = other_byte(cls, &[n[0], *n.get(1).unwrap_or(&n[0])]),
        "flip-last" => x[l - 1] = other_byte(cls, &[n[l - 1], if l > 1 { n[l - 2] } else { n[0] }]),
        "other" => {
            x = nonce_stream("o", cls, l);
            if x[l - 1] == n[l - 1] {
                x[l - 1] = other_byte(cls, &[n[l - 1], if l > 1 { x[l - 2] } else { n[0] }]);
            }
        }
        "trunc" => x.truncate(l - 1),
        "dropfirst" => {
            x.remove(0);
        }
        "empty" => x.clear(),
        "ext" => x.push(other_byte(cls, &[*n.last().unwrap_or(&0)])),
        "long" => {
            let mut f = nonce_stream("l", cls, len - l);
            if l > 0 && !f.is_empty() && f[0] == n[l - 1] {
                f[0] = other_byte(cls, &[n[l - 1], *f.get(1).unwrap_or(&0)]);
            }
            x.extend(f);
        }
        _ => {}
    }
    assert_eq!(x.len(), len, "variant length differs from the specification");
    x
}

fn password(pw: &Value) -> String {
    let (cls, n) = (gets(pw, "cls"), geti(pw, "n") as usize);
    let r = mint::stream("c16-pw", n.max(1), |_| true);
    (0..n)
        .map(|i| {
            let k = (r[i] % 26) as u32;
            let c = match if cls == "mixed" { ["ascii", "latin", "cjk", "emoji"][i % 4] } else { cls } {
                "ascii" => 'a' as u32 + k,
                "latin" => 0x100 + k,
                "cjk" => 0x4000 + k,
                _ => 0x1F600 + k,
            };
            char::from_u32(c).unwrap()
        })
        .collect()
}

fn padding(p: &str) -> RsaPadding {
    match p {
        "pkcs1" => RsaPadding::Pkcs1,
        "oaep-sha1" => RsaPadding::OaepSha1,
        _ => RsaPadding::OaepSha256,
    }
}

/// block-wise RSA encryption done with openssl only (independent of PublicKey::public_encrypt)
fn rsa_encrypt(bits: u32, pad: &str, block: usize, plain: &[u8]) -> Vec<u8> {
    let pem = mint::rsa_pem(bits, "server");
    let key = PKey::private_key_from_pem(&pem).unwrap();
    let mut out = Vec::new();
    let mut chunks: Vec<&[u8]> = plain.chunks(block).collect();
    if chunks.is_empty() {
        chunks.push(&plain[0..0]);
    }
    for ch in chunks {
        let mut e = Encrypter::new(&key).unwrap();
        match pad {
            "pkcs1" => e.set_rsa_padding(Padding::PKCS1).unwrap(),
            "oaep-sha1" => e.set_rsa_padding(Padding::PKCS1_OAEP).unwrap(),
            _ => {
                e.set_rsa_padding(Padding::PKCS1_OAEP).unwrap();
                e.set_rsa_oaep_md(MessageDigest::sha256()).unwrap();
                e.set_rsa_mgf1_md(MessageDigest::sha256()).unwrap();
            }
        }
        let mut buf = vec![0u8; e.encrypt_len(ch).unwrap()];
        let n = e.encrypt(ch, &mut buf).unwrap();
        out.extend_from_slice(&buf[..n]);
    }
    out
}

struct Rec {
    site: Option<String>,
}

impl Rec {
    fn outcome(&mut self, original: Option<&str>, f: impl FnOnce() -> Result<String, opcua::types::StatusCode>) -> String {
        match guard(f) {
            Ok(Ok(p)) => {
                if Some(p.as_str()) == original {
                    "ok-same".into()
                } else {
                    "ok-other".into()
                }
            }
            Ok(Err(_)) => "err".into(),
            Err(site) => {
                if self.site.is_none() {
                    self.site = Some(site_sig(&site));
                }
                "panic".into()
            }
        }
    }
}

impl Rec {
    /// outcome with the bytes of the returned password
    fn raw(&mut self, f: impl FnOnce() -> Result<String, opcua::types::StatusCode>) -> Value {
        match guard(f) {
            Ok(Ok(p)) => json!({"o": "ok", "pw": p.as_bytes()}),
            Ok(Err(_)) => json!({"o": "err", "pw": []}),
            Err(site) => {
                if self.site.is_none() {
                    self.site = Some(site_sig(&site));
                }
                json!({"o": "panic", "pw": []})
            }
        }
    }
}

fn token(secret: &ByteString, uri: &str) -> UserNameIdentityToken {
    UserNameIdentityToken {
        policy_id: UAString::null(),
        user_name: UAString::from("user"),
        password: secret.clone(),
        encryption_algorithm: UAString::from(uri),
    }
}

fn both(rec: &mut Rec, original: Option<&str>, secret: &ByteString, n: &[u8], key: &PrivateKey, pad: &str, uri: &str) -> (String, String) {
    let a = rec.outcome(original, || legacy_password_decrypt(secret, n, key, padding(pad)));
    let t = token(secret, uri);
    let b = rec.outcome(original, || decrypt_user_identity_token_password(&t, n, key));
    (a, b)
}

pub fn run_case(case: &Value, out: &mut Obs) {
    let cid = case.get("case").cloned().unwrap_or(Value::Null);
    let c = &case["c"];
    let exp = &case["exp"];
    let bits = geti(c, "bits") as u32;
    let pad = gets(c, "pad");
    let uri = gets(exp, "uri");
    let mut rec = Rec { site: None };
    let mut r = with_key(bits, |cert, key| match gets(c, "kind") {
        "rt" => {
            let pw = password(&c["pw"]);
            assert_eq!(pw.len() as i64, geti(exp, "pwbytes"), "password length differs from the specification");
            let n = nonce(&c["nonce"]);
            let cls = gets(&c["nonce"], "cls");
            let enc = guard(|| legacy_password_encrypt(&pw, &n, cert, padding(pad)));
            let secret = match enc {
                Ok(Ok(s)) => s,
                Ok(Err(_)) => return json!({"enc": "err", "same": {"legacy": "skip", "token": "skip"}, "variants": [], "algs": {"other": "skip", "unknown": "skip"}}),
                Err(site) => {
                    rec.site = Some(site_sig(&site));
                    return json!({"enc": "panic", "same": {"legacy": "skip", "token": "skip"}, "variants": [], "algs": {"other": "skip", "unknown": "skip"}});
                }
            };
            let (sl, st) = both(&mut rec, Some(&pw), &secret, &n, key, pad, uri);
            let mut vars = Vec::new();
            for v in exp["r"]["variants"].as_array().cloned().unwrap_or_default() {
                let name = gets(&v, "v");
                let nv = variant(name, &n, cls, geti(&v, "len") as usize);
                let (a, b) = both(&mut rec, Some(&pw), &secret, &nv, key, pad, uri);
                vars.push(json!({"v": name, "len": nv.len(), "legacy": a, "token": b}));
            }
            let t1 = token(&secret, gets(exp, "otheruri"));
            let o = rec.outcome(Some(&pw), || decrypt_user_identity_token_password(&t1, &n, key));
            let t2 = token(&secret, "http://example.org/unknown-encryption-algorithm");
            let u = rec.outcome(Some(&pw), || decrypt_user_identity_token_password(&t2, &n, key));
            json!({"enc": "ok", "same": {"legacy": sl, "token": st}, "variants": vars, "algs": {"other": o, "unknown": u}})
        }
        "bytes" => {
            // nonce and plaintext are given byte by byte by the specification; encrypted correctly, then decrypted
            let bytes = |v: &Value| -> Vec<u8> { v.as_array().map(|a| a.iter().map(|x| x.as_u64().unwrap_or(0) as u8).collect()).unwrap_or_default() };
            let n = bytes(&c["nonce"]);
            let plain = bytes(&c["pt"]);
            let secret = ByteString::from(rsa_encrypt(bits, pad, geti(exp, "block") as usize, &plain));
            let a = rec.raw(|| legacy_password_decrypt(&secret, &n, key, padding(pad)));
            let t = token(&secret, uri);
            let b = rec.raw(|| decrypt_user_identity_token_password(&t, &n, key));
            json!({"out": {"legacy": a, "token": b}})
        }
        "craft" => {
            let n = nonce(&c["nonce"]);
            let cls = gets(&c["nonce"], "cls");
            let l = n.len();
            let pwb: Vec<u8> = match gets(c, "pwcls") {
                "empty" => vec![],
                "ascii" => password(&json!({"cls": "ascii", "n": 8})).into_bytes(),
                "nonascii" => password(&json!({"cls": "mixed", "n": 6})).into_bytes(),
                _ => vec![b'a', b'b', 0xE4, 0x80, b'z'], // a cut three byte sequence
            };
            let pn = match gets(c, "nrel") {
                "same" => n.clone(),
                "ext" => variant("ext", &n, cls, l + 1),
                "diff" => variant("flip-last", &n, cls, l),
                "trunc" => variant("trunc", &n, cls, l - 1),
                _ => vec![],
            };
            let mut body = pwb.clone();
            body.extend_from_slice(&pn);
            let bl = body.len() as u32;
            let prefix = gets(c, "prefix");
            let len32 = match prefix {
                "minus1" => bl.wrapping_sub(1),
                "plus1" => bl + 1,
                "zero" => 0,
                "huge" => 0xFFFF_FFFF,
                _ => bl,
            };
            let mut plain = len32.to_le_bytes().to_vec();
            plain.extend_from_slice(&body);
            match prefix {
                "cut0" => plain.truncate(0),
                "cut2" => plain.truncate(2),
                "cut3" => plain.truncate(3),
                _ => {}
            }
            let secret = ByteString::from(rsa_encrypt(bits, pad, geti(exp, "block") as usize, &plain));
            let original = String::from_utf8(pwb).ok();
            let (a, b) = both(&mut rec, original.as_deref(), &secret, &n, key, pad, uri);
            json!({"out": {"legacy": a, "token": b}, "plain_len": plain.len()})
        }
        _ => {
            let k = (bits / 8) as usize;
            let len = match gets(c, "clen") {
                "0" | "null" => 0,
                "1" => 1,
                "k-1" => k - 1,
                "k" => k,
                "k+1" => k + 1,
                "2k-1" => 2 * k - 1,
                "2k" => 2 * k,
                "2k+1" => 2 * k + 1,
                "3k" => 3 * k,
                _ => 777,
            };
            let bytes = match gets(c, "fill") {
                "zero" => vec![0u8; len],
                "ff" => vec![0xffu8; len],
                _ => mint::stream(&format!("c16-arb-{}-{}", bits, pad), len, |_| true),
            };
            let secret = if gets(c, "clen") == "null" { ByteString::null() } else { ByteString::from(bytes) };
            let n = nonce(&json!({"len": 32, "cls": "hi"}));
            let (a, b) = both(&mut rec, None, &secret, &n, key, pad, uri);
            json!({"out": {"legacy": a, "token": b}})
        }
    });
    match rec.site {
        Some(s) => {
            r["fail"] = json!("panic");
            r["site"] = json!(s);
        }
        None => {
            r["fail"] = json!("none");
            r["site"] = json!("");
        }
    }
    out.push(json!({"case": cid, "i": 1, "c": c, "r": r}));
}
