//! Engine `sigdata` (C17): create_signature_data / verify_signature_data.
//!
//! A case names a signing policy, a key size, a nonce length and one mutation class (spec/SignatureData.tla). The
//! signature is created with the real function (signer A over certificate C and nonce N); the mutation class is applied
//! in every concrete way it stands for (byte classes: every byte position of the region, three bit masks each) and the
//! set of outcomes of the real verification is reported.
use crate::mint;
use crate::util::*;
use crate::Obs;
use opcua::crypto::{create_signature_data, verify_signature_data, PrivateKey, X509};
use opcua::types::service_types::SignatureData;
use opcua::types::{ByteString, UAString};
use serde_json::{json, Value};
use std::cell::RefCell;
use std::collections::{BTreeSet, HashMap};

thread_local! {
    static CERTS: RefCell<HashMap<(u32, &'static str), (X509, PrivateKey)>> = RefCell::new(HashMap::new());
}

fn pair(bits: u32, name: &'static str) -> (X509, PrivateKey) {
    CERTS.with(|m| {
        let mut m = m.borrow_mut();
        let e = m.entry((bits, name)).or_insert_with(|| mint::default_cert(bits, name));
        (e.0.clone(), PrivateKey::from_pem(&mint::rsa_pem(bits, name)).unwrap())
    })
}

const MASKS: [u8; 3] = [0x01, 0x80, 0xff];

pub fn run_case(case: &Value, out: &mut Obs) {
    let cid = case.get("case").cloned().unwrap_or(Value::Null);
    let c = &case["c"];
    let bits = geti(c, "bits") as u32;
    let nl = geti(c, "nl") as usize;
    let mutation = gets(c, "mut");
    let pol = mint::policy(gets(c, "pol"));
    let vpol = mint::policy(gets(c, "vpol"));
    let (cert_a, key_a) = pair(bits, "signerA");
    let (cert_c, _) = pair(bits, "server");
    let nonce = mint::stream("c17-nonce", nl, |_| true);
    let cert_c_bytes = cert_c.as_byte_string();

    let mut site: Option<String> = None;
    let mut outcomes: BTreeSet<&'static str> = BTreeSet::new();
    let mut n = 0usize;
    let (mut unparsable, mut absorbed) = (0usize, 0usize);

    // the signature under test
    let signer_key = match mutation {
        "other-signer" => pair(bits, "signerB").1,
        "other-signer-size" => pair(if bits == 1024 { 2048 } else { 1024 }, "signerB").1,
        _ => key_a,
    };
    let created = guard(|| create_signature_data(&signer_key, pol, &cert_c_bytes, &ByteString::from(nonce.clone())));
    let sig = match created {
        Ok(Ok(s)) => s,
        other => {
            let (create, s) = match other {
                Err(s) => ("panic", site_sig(&s)),
                _ => ("err", "create_signature_data".to_string()),
            };
            out.push(json!({"case": cid, "i": 1, "c": c, "r": {"fail": if create == "panic" { "panic" } else { "none" }, "site": s, "create": create,
                            "algok": false, "siglen": 0, "outcomes": [], "n": 0, "skipped": {"unparsable": 0, "absorbed": 0}}}));
            return;
        }
    };
    let algok = sig.algorithm.as_ref() == gets(&case["exp"], "alg");
    let sigbytes: Vec<u8> = sig.signature.value.clone().unwrap_or_default();

    let mut verify = |s: &SignatureData, signing: &X509, contained: &X509, nn: &[u8]| {
        n += 1;
        match guard(|| verify_signature_data(s, vpol, signing, contained, nn)) {
            Ok(st) => {
                outcomes.insert(if st.is_good() { "good" } else { "bad" });
            }
            Err(s) => {
                if site.is_none() {
                    site = Some(site_sig(&s));
                }
                outcomes.insert("panic");
            }
        }
    };
    let with_sig = |b: Option<Vec<u8>>| SignatureData { algorithm: sig.algorithm.clone(), signature: match b { Some(b) => ByteString::from(b), None => ByteString::null() } };

    match mutation {
        "cert-byte" => {
            let der: Vec<u8> = cert_c_bytes.value.clone().unwrap();
            for pos in 0..der.len() {
                for m in MASKS {
                    let mut d = der.clone();
                    d[pos] ^= m;
                    match X509::from_byte_string(&ByteString::from(d)) {
                        Err(_) => unparsable += 1,
                        Ok(x) => {
                            if x.as_byte_string() == cert_c_bytes {
                                absorbed += 1; // re-encodes to the original bytes: not a different certificate
                            } else {
                                verify(&sig, &cert_a, &x, &nonce);
                            }
                        }
                    }
                }
            }
        }
        "cert-other" => {
            let other = mint::mint_cert(&mint::rsa_pem(bits, "server"),
                &mint::CertSpec { cn: "verif server again", uri: "urn:verif:app", dns: &["verifhost"], not_before: "20000101000000Z", not_after: "20991231235959Z", serial: 8 });
            verify(&sig, &cert_a, &other, &nonce);
            verify(&sig, &cert_a, &cert_a, &nonce);
        }
        "nonce-byte" => {
            for pos in 0..nonce.len() {
                for m in MASKS {
                    let mut x = nonce.clone();
                    x[pos] ^= m;
                    verify(&sig, &cert_a, &cert_c, &x);
                }
            }
        }
        "nonce-trunc" => {
            verify(&sig, &cert_a, &cert_c, &nonce[..nl - 1]);
            verify(&sig, &cert_a, &cert_c, &nonce[1..]);
            verify(&sig, &cert_a, &cert_c, &[]);
        }
        "nonce-ext" => {
            let mut x = nonce.clone();
            x.push(0);
            verify(&sig, &cert_a, &cert_c, &x);
            let mut y = vec![0u8];
            y.extend_from_slice(&nonce);
            verify(&sig, &cert_a, &cert_c, &y);
            let mut z = nonce.clone();
            z.extend_from_slice(&nonce);
            z.push(1);
            verify(&sig, &cert_a, &cert_c, &z);
        }
        "nonce-other" => {
            let mut x = mint::stream("c17-other-nonce", nl.max(1), |_| true);
            if nl > 0 && x[0] == nonce[0] {
                x[0] ^= 0x55;
            }
            verify(&sig, &cert_a, &cert_c, &x);
        }
        "sig-byte" => {
            for pos in 0..sigbytes.len() {
                for m in MASKS {
                    let mut x = sigbytes.clone();
                    x[pos] ^= m;
                    verify(&with_sig(Some(x)), &cert_a, &cert_c, &nonce);
                }
            }
        }
        "sig-trunc" => {
            let l = sigbytes.len();
            verify(&with_sig(Some(sigbytes[..l - 1].to_vec())), &cert_a, &cert_c, &nonce);
            verify(&with_sig(Some(sigbytes[1..].to_vec())), &cert_a, &cert_c, &nonce);
            verify(&with_sig(Some(sigbytes[..l / 2].to_vec())), &cert_a, &cert_c, &nonce);
            verify(&with_sig(Some(vec![])), &cert_a, &cert_c, &nonce);
            verify(&with_sig(None), &cert_a, &cert_c, &nonce);
        }
        "sig-ext" => {
            let mut x = sigbytes.clone();
            x.push(0);
            verify(&with_sig(Some(x)), &cert_a, &cert_c, &nonce);
            let mut y = vec![0u8];
            y.extend_from_slice(&sigbytes);
            verify(&with_sig(Some(y)), &cert_a, &cert_c, &nonce);
            let mut z = sigbytes.clone();
            z.extend_from_slice(&sigbytes);
            verify(&with_sig(Some(z)), &cert_a, &cert_c, &nonce);
        }
        "other-signing-cert" => {
            let (cert_b, _) = pair(bits, "signerB");
            verify(&sig, &cert_b, &cert_c, &nonce);
            verify(&sig, &cert_c, &cert_c, &nonce);
        }
        "alg-uri" => {
            for uri in [Some("http://www.w3.org/2000/09/xmldsig#rsa-sha1"), Some("http://opcfoundation.org/UA/security/rsa-pss-sha2-256"), Some("urn:not-an-algorithm"), None] {
                if uri == Some(sig.algorithm.as_ref()) {
                    continue;
                }
                let s = SignatureData { algorithm: match uri { Some(u) => UAString::from(u), None => UAString::null() }, signature: sig.signature.clone() };
                verify(&s, &cert_a, &cert_c, &nonce);
            }
        }
        // "none", "other-signer", "other-signer-size", "verify-policy": one verification of the signature as made
        _ => verify(&sig, &cert_a, &cert_c, &nonce),
    }
    drop(verify);
    let r = json!({"fail": if site.is_some() { "panic" } else { "none" }, "site": site.unwrap_or_default(), "create": "ok", "algok": algok,
                   "siglen": sigbytes.len(), "outcomes": outcomes.into_iter().collect::<Vec<_>>(), "n": n,
                   "skipped": {"unparsable": unparsable, "absorbed": absorbed}});
    out.push(json!({"case": cid, "i": 1, "c": c, "r": r}));
}
