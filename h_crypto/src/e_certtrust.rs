//! Engine `certtrust` (C18): CertificateStore::validate_or_reject_application_instance_cert on a scratch PKI directory.
//!
//! A case gives the initial content of the trusted / rejected directories for the certificate ("absent", "same" = a
//! byte-identical copy, "diff" = a file of the same name holding another certificate), the certificate (policy and key
//! size, validity period) and a history of validations (flags trust-unknown / skip-verify / check-time, expected host
//! name and application URI matching, not matching or not requested). After every validation the status and the
//! directory contents are reported in the same abstract terms.
use crate::mint;
use crate::util::*;
use crate::Obs;
use opcua::crypto::{CertificateStore, X509};
use serde_json::{json, Value};
use std::cell::RefCell;
use std::collections::HashMap;
use std::path::{Path, PathBuf};

thread_local! {
    static CERTS: RefCell<HashMap<(u32, String), X509>> = RefCell::new(HashMap::new());
    static DIR: PathBuf = {
        let d = mint::out_dir().join("h_crypto").join(format!("c18-pki-{}", std::process::id()));
        let _ = std::fs::remove_dir_all(&d);
        std::fs::create_dir_all(&d).expect("scratch dir");
        d
    };
}

/// fixed validity periods (no wall clock in the material; the code under test compares them with Utc::now())
fn cert(bits: u32, time: &str) -> X509 {
    CERTS.with(|m| {
        m.borrow_mut()
            .entry((bits, time.to_string()))
            .or_insert_with(|| {
                let (nb, na) = match time {
                    "expired" => ("20000110120000Z", "20010110120000Z"),
                    "notyet" => ("20980110120000Z", "20991210120000Z"),
                    "decoy" => ("20000111120000Z", "20991211120000Z"),
                    _ => ("20000110120000Z", "20991210120000Z"),
                };
                let cn = format!("verif c18 {} {}", bits, time);
                mint::mint_cert(&mint::rsa_pem(bits, "app"), &mint::CertSpec { cn: &cn, uri: "urn:verif:app", dns: &["verifhost", "verifhost.example.org"], not_before: nb, not_after: na, serial: 18 })
            })
            .clone()
    })
}

fn put(dir: &Path, name: &str, what: &str, same: &[u8], other: &[u8]) {
    let p = dir.join(name);
    match what {
        "same" => std::fs::write(&p, same).expect("write"),
        "diff" => std::fs::write(&p, other).expect("write"),
        _ => {}
    }
}

fn look(dir: &Path, name: &str, same: &[u8]) -> (&'static str, usize) {
    let mut extra = 0;
    if let Ok(rd) = std::fs::read_dir(dir) {
        for e in rd.flatten() {
            if e.file_name().to_string_lossy() != name {
                extra += 1;
            }
        }
    }
    match std::fs::read(dir.join(name)) {
        Ok(b) if b == same => ("same", extra),
        Ok(_) => ("diff", extra),
        Err(_) => ("absent", extra),
    }
}

/// removes the scratch directory of this process (called by main when all cases are done)
pub fn cleanup() {
    let d = mint::out_dir().join("h_crypto").join(format!("c18-pki-{}", std::process::id()));
    if d.exists() {
        let _ = std::fs::remove_dir_all(&d);
    }
}

pub fn run_case(case: &Value, out: &mut Obs) {
    let cid = case.get("case").cloned().unwrap_or(Value::Null);
    let c = &case["c"];
    let bits = geti(&c["cert"], "bits") as u32;
    let pol = mint::policy(gets(&c["cert"], "pol"));
    let x = cert(bits, gets(&c["cert"], "time"));
    let der = x.to_der().unwrap();
    let decoy = cert(bits, "decoy").to_der().unwrap();
    let name = CertificateStore::cert_file_name(&x);
    let pki = DIR.with(|d| d.clone());
    let (tdir, rdir) = (pki.join("trusted"), pki.join("rejected"));
    let _ = std::fs::remove_dir_all(&tdir);
    let _ = std::fs::remove_dir_all(&rdir);
    let mut store = CertificateStore::new(&pki);
    store.ensure_pki_path().expect("pki path");
    put(&tdir, &name, gets(&c["store"], "trusted"), &der, &decoy);
    put(&rdir, &name, gets(&c["store"], "rejected"), &der, &decoy);

    let mut steps = Vec::new();
    let mut fail = ("none".to_string(), String::new());
    for f in c["steps"].as_array().cloned().unwrap_or_default() {
        store.set_trust_unknown_certs(getb(&f, "tu"));
        store.set_skip_verify_certs(getb(&f, "sv"));
        store.set_check_time(getb(&f, "ct"));
        let host = match gets(&f, "host") {
            "match" => Some("verifhost"),
            "mismatch" => Some("otherhost"),
            _ => None,
        };
        let uri = match gets(&f, "uri") {
            "match" => Some("urn:verif:app"),
            "mismatch" => Some("urn:verif:other"),
            _ => None,
        };
        match guard(|| store.validate_or_reject_application_instance_cert(&x, pol, host, uri)) {
            Ok(st) => {
                let (t, e1) = look(&tdir, &name, &der);
                let (r, e2) = look(&rdir, &name, &der);
                steps.push(json!({"status": st.name(), "trusted": t, "rejected": r, "extra": e1 + e2}));
            }
            Err(site) => {
                fail = ("panic".into(), site_sig(&site));
                break;
            }
        }
    }
    out.push(json!({"case": cid, "i": 1, "c": c, "r": {"fail": fail.0, "site": fail.1, "steps": steps}}));
}
