//! Engines `text04` (C04) and `text05` (C05): textual forms of identifiers and relative paths.
//!
//! A case is `{"case": n, "c": <abstract value or string>, ...}` as enumerated by TLC from spec/TextForms.tla.
//! Text and all string payloads are arrays of Unicode code points. Round trip kinds: the harness builds the
//! Rust value, prints it with the real printer, parses the printed text with the real parser and reports the
//! re-parsed value in the same abstract form. Kind `parse`: the string is given to every parser.
use crate::util::*;
use crate::Obs;
use opcua::types::service_types::{RelativePath, RelativePathElement};
use opcua::types::*;
use serde_json::{json, Value};
use std::str::FromStr;

// ---------------------------------------------------------------------------------- abstract <-> concrete
fn cps_to_string(v: &Value) -> String {
    v.as_array()
        .map(|a| {
            a.iter()
                .map(|x| char::from_u32(x.as_u64().unwrap_or(0xFFFD) as u32).unwrap_or('\u{FFFD}'))
                .collect()
        })
        .unwrap_or_default()
}

fn string_to_cps(s: &str) -> Value {
    Value::Array(s.chars().map(|c| json!(c as u32)).collect())
}

fn big(v: &Value) -> u32 {
    (v[0].as_u64().unwrap_or(0) * 65536 + v[1].as_u64().unwrap_or(0)) as u32
}

fn big_out(n: u32) -> Value {
    json!([n / 65536, n % 65536])
}

fn bytes(v: &Value) -> Vec<u8> {
    v.as_array().map(|a| a.iter().map(|x| x.as_u64().unwrap_or(0) as u8).collect()).unwrap_or_default()
}

fn ident(v: &Value) -> Identifier {
    match gets(v, "k") {
        "i" => Identifier::Numeric(big(&v["n"])),
        "s" => Identifier::String(UAString::from(cps_to_string(&v["s"]))),
        "g" => {
            let b = bytes(&v["g"]);
            let mut a = [0u8; 16];
            for (i, x) in b.iter().take(16).enumerate() {
                a[i] = *x;
            }
            Identifier::Guid(Guid::from_bytes(a))
        }
        _ => Identifier::ByteString(ByteString::from(bytes(&v["b"]))),
    }
}

fn ident_out(id: &Identifier) -> Value {
    match id {
        Identifier::Numeric(n) => json!({"k": "i", "n": big_out(*n)}),
        Identifier::String(s) => json!({"k": "s", "s": string_to_cps(s.as_ref())}),
        Identifier::Guid(g) => json!({"k": "g", "g": g.as_bytes().to_vec()}),
        Identifier::ByteString(b) => json!({"k": "b", "b": b.value.clone().unwrap_or_default()}),
    }
}

fn node_id(v: &Value) -> NodeId {
    NodeId { namespace: geti(v, "ns") as u16, identifier: ident(&v["id"]) }
}

fn node_id_out(n: &NodeId) -> Value {
    json!({"ns": n.namespace, "id": ident_out(&n.identifier)})
}

fn expanded(v: &Value) -> ExpandedNodeId {
    ExpandedNodeId {
        node_id: node_id(v),
        namespace_uri: if getb(&v["uri"], "some") { UAString::from(cps_to_string(&v["uri"]["s"])) } else { UAString::null() },
        server_index: big(&v["svr"]),
    }
}

fn expanded_out(x: &ExpandedNodeId) -> Value {
    json!({"ns": x.node_id.namespace, "id": ident_out(&x.node_id.identifier),
           "uri": {"some": !x.namespace_uri.is_null(), "s": string_to_cps(x.namespace_uri.as_ref())},
           "svr": big_out(x.server_index)})
}

fn range(v: &Value) -> NumericRange {
    fn dim(d: &Value) -> NumericRange {
        let a = d.as_array().cloned().unwrap_or_default();
        if a.len() == 1 {
            NumericRange::Index(big(&a[0]))
        } else {
            NumericRange::Range(big(&a[0]), big(&a[1]))
        }
    }
    let dims = v["dims"].as_array().cloned().unwrap_or_default();
    if getb(v, "multi") {
        NumericRange::MultipleRanges(dims.iter().map(dim).collect())
    } else if dims.is_empty() {
        NumericRange::None
    } else {
        dim(&dims[0])
    }
}

fn range_out(r: &NumericRange) -> Value {
    fn dim(r: &NumericRange) -> Value {
        match r {
            NumericRange::Index(a) => json!([big_out(*a)]),
            NumericRange::Range(a, b) => json!([big_out(*a), big_out(*b)]),
            // not a dimension: an empty tuple equals no dimension of the value space
            _ => json!([]),
        }
    }
    match r {
        NumericRange::None => json!({"multi": false, "dims": []}),
        NumericRange::MultipleRanges(v) => json!({"multi": true, "dims": v.iter().map(dim).collect::<Vec<_>>()}),
        x => json!({"multi": false, "dims": [dim(x)]}),
    }
}

fn date_time(v: &Value) -> DateTime {
    DateTime::ymd_hms_nano(
        geti(v, "y") as u16,
        geti(v, "mo") as u16,
        geti(v, "d") as u16,
        geti(v, "h") as u16,
        geti(v, "mi") as u16,
        geti(v, "s") as u16,
        (geti(v, "t") * 100) as u32,
    )
}

fn date_time_out(d: &DateTime) -> Value {
    use chrono::{Datelike, Timelike};
    let c = d.as_chrono();
    json!({"y": c.year(), "mo": c.month(), "d": c.day(), "h": c.hour(), "mi": c.minute(), "s": c.second(),
           "t": c.nanosecond() / 100})
}

fn ref_type(v: &Value) -> NodeId {
    match gets(v, "k") {
        "num" => NodeId::new(geti(v, "ns") as u16, geti(v, "n") as u32),
        _ => NodeId::new(geti(v, "ns") as u16, UAString::from(cps_to_string(&v["s"]))),
    }
}

fn ref_type_out(n: &NodeId) -> Value {
    match &n.identifier {
        Identifier::Numeric(x) if *x <= i32::MAX as u32 => json!({"k": "num", "ns": n.namespace, "n": x, "s": []}),
        Identifier::String(s) => json!({"k": "str", "ns": n.namespace, "n": 0, "s": string_to_cps(s.as_ref())}),
        _ => json!({"k": "other", "ns": n.namespace, "n": 0, "s": []}),
    }
}

fn path(v: &Value) -> RelativePath {
    let els = v
        .as_array()
        .cloned()
        .unwrap_or_default()
        .iter()
        .map(|e| {
            let t = &e["tgt"];
            RelativePathElement {
                reference_type_id: ref_type(&e["rt"]),
                is_inverse: getb(e, "inv"),
                include_subtypes: getb(e, "sub"),
                target_name: if getb(t, "some") {
                    QualifiedName::new(geti(t, "ns") as u16, UAString::from(cps_to_string(&t["name"])))
                } else {
                    QualifiedName::null()
                },
            }
        })
        .collect();
    RelativePath { elements: Some(els) }
}

fn path_out(p: &RelativePath) -> Value {
    let els: Vec<Value> = p
        .elements
        .clone()
        .unwrap_or_default()
        .iter()
        .map(|e| {
            let t = &e.target_name;
            json!({"rt": ref_type_out(&e.reference_type_id), "inv": e.is_inverse, "sub": e.include_subtypes,
                   "tgt": {"some": !t.name.is_null(), "ns": t.namespace_index, "name": string_to_cps(t.name.as_ref())}})
        })
        .collect();
    Value::Array(els)
}

// ---------------------------------------------------------------------------------------- observations
/// panic site without white space (signatures are single words)
fn site_word(site: &str) -> String {
    let mut s = String::new();
    for c in site_sig(site).chars() {
        if c.is_ascii_alphanumeric() || "_/.:()#-".contains(c) {
            s.push(c);
        } else if c == '`' || c == '\'' || c == '"' {
        } else if !s.ends_with('_') {
            s.push('_');
        }
    }
    s
}

fn failed(stage: &str, site: &str, text: &str) -> Value {
    json!({"fail": "panic", "stage": stage, "site": site_word(site), "text": string_to_cps(text),
           "text_s": text.escape_default().to_string(), "ok": false, "v": []})
}

/// print with the real printer, parse with the real parser, re-abstract
fn round_trip<T>(
    build: impl FnOnce() -> T,
    print: impl FnOnce(&T) -> String,
    parse: impl FnOnce(&str) -> Option<T>,
    abs: impl FnOnce(&T) -> Value,
) -> Value {
    let text = match guard(|| {
        let v = build();
        print(&v)
    }) {
        Ok(t) => t,
        Err(site) => return failed("print", &site, ""),
    };
    match guard(|| parse(&text).map(|v| abs(&v))) {
        Err(site) => failed("parse", &site, &text),
        Ok(None) => json!({"fail": "none", "stage": "", "site": "", "text": string_to_cps(&text),
                           "text_s": text.escape_default().to_string(), "ok": false, "v": []}),
        Ok(Some(v)) => json!({"fail": "none", "stage": "", "site": "", "text": string_to_cps(&text),
                              "text_s": text.escape_default().to_string(), "ok": true, "v": v}),
    }
}

fn outcome<T, E>(p: &str, f: impl FnOnce() -> Result<T, E>) -> Value {
    match guard(|| f().is_ok()) {
        Ok(true) => json!({"p": p, "res": "ok", "site": ""}),
        Ok(false) => json!({"p": p, "res": "error", "site": ""}),
        Err(site) => json!({"p": p, "res": "panic", "site": site_word(&site)}),
    }
}

fn parse_all(family: &str, s: &str) -> Value {
    let res = if family == "text04" {
        vec![
            outcome("NodeId::from_str", || NodeId::from_str(s)),
            outcome("ExpandedNodeId::from_str", || ExpandedNodeId::from_str(s)),
            outcome("Identifier::from_str", || Identifier::from_str(s)),
            outcome("Guid::from_str", || Guid::from_str(s)),
            outcome("NumericRange::from_str", || NumericRange::from_str(s)),
            outcome("DateTime::from_str", || DateTime::from_str(s)),
            outcome("DateTime::parse_from_rfc3339", || DateTime::parse_from_rfc3339(s)),
        ]
    } else {
        vec![
            outcome("RelativePath::from_str", || RelativePath::from_str(s, &RelativePathElement::default_node_resolver)),
            outcome("RelativePathElement::from_str", || {
                RelativePathElement::from_str(s, &RelativePathElement::default_node_resolver)
            }),
        ]
    };
    json!({ "res": res })
}

pub fn run_case(family: &str, case: &Value, out: &mut Obs) {
    let cid = case.get("case").cloned().unwrap_or(Value::Null);
    let c = &case["c"];
    let r = match gets(c, "t") {
        "nodeid" => round_trip(|| node_id(&c["nid"]), |v| v.to_string(), |t| NodeId::from_str(t).ok(), node_id_out),
        "expanded" => {
            round_trip(|| expanded(&c["xid"]), |v| v.to_string(), |t| ExpandedNodeId::from_str(t).ok(), expanded_out)
        }
        "guid" => round_trip(
            || match ident(&json!({"k": "g", "g": c["gid"]})) {
                Identifier::Guid(g) => g,
                _ => Guid::null(),
            },
            |v| v.to_string(),
            |t| Guid::from_str(t).ok(),
            |g| json!(g.as_bytes().to_vec()),
        ),
        "range" => round_trip(|| range(&c["rng"]), |v| v.as_string(), |t| NumericRange::from_str(t).ok(), range_out),
        "datetime" => {
            if gets(c, "form") == "rfc3339" {
                round_trip(|| date_time(&c["dt"]), |v| v.to_rfc3339(), |t| DateTime::parse_from_rfc3339(t).ok(), date_time_out)
            } else {
                round_trip(|| date_time(&c["dt"]), |v| v.to_string(), |t| DateTime::from_str(t).ok(), date_time_out)
            }
        }
        "path" => round_trip(
            || path(&c["path"]),
            |v| String::from(v),
            |t| RelativePath::from_str(t, &RelativePathElement::default_node_resolver).ok(),
            path_out,
        ),
        "parse" => parse_all(family, &cps_to_string(&c["str"])),
        _ => json!({"fail": "panic", "stage": "harness", "site": "unknown-kind", "text": [], "text_s": "", "ok": false, "v": []}),
    };
    out.push(json!({"case": cid, "i": 1, "c": c, "r": r}));
}
