------------------------------ MODULE MCServices ------------------------------
(* One TLC state per request of the universe (sequences are made by simulation in GenServicesSeq). *)
EXTENDS Services
VARIABLE c
Init == c \in Universe
Next == UNCHANGED c
Spec == Init /\ [][Next]_c
\* the specified outcome: every request of the universe is answered
DesignOK == ServicesViol([req |-> c, kind |-> "response", fail |-> "none", site |-> "", probe |-> TRUE, ticked |-> TRUE]) = {}
=============================================================================
