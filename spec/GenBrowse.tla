------------------------------ MODULE GenBrowse ------------------------------
(* Emits every complete behaviour as a case; the monitor runs along (invariant C30), so that every generated behaviour of the   *)
(* design is also checked against the property.                                                                              *)
EXTENDS MCBrowse, Json
VARIABLES hist
GInit == MInit /\ hist = <<>>
GNext == MNext /\ hist' = Append(hist, evt')
GSpec == GInit /\ [][GNext]_<<vars, dvars, mon, viol, hist>>
Emit == Done => PrintT(<<"CASE", ToJson([kids |-> cfg, steps |-> hist])>>)
=============================================================================
