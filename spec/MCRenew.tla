------------------------------- MODULE MCRenew -------------------------------
EXTENDS Renew
CONSTANT MaxDepth
VARIABLES mon, viol, depth
MP == INSTANCE RenewProps
MInit == Init /\ mon = MP!MInit /\ viol = {} /\ depth = 0
MNext == /\ depth < MaxDepth /\ depth' = depth + 1 /\ Next
         /\ LET r == MP!Mon14Step(mon, evt' @@ [site |-> ""]) IN mon' = r.g /\ viol' = r.viol
MSpec == MInit /\ [][MNext]_<<vars, mon, viol, depth>>
C14 == viol = {}
MView == <<c, s, c2s, s2c, respq, nSent, nRenew, issued, mon, viol, depth>>
=============================================================================
