-------------------------- MODULE TracePasswordToken --------------------------
EXTENDS PasswordToken, Json, IOUtils
ObsLog == ndJsonDeserialize(IOEnv.OBS)
VARIABLES l, out
T == INSTANCE TraceFn WITH Viol <- PwViol, Prop <- "C16", Obs <- ObsLog
TSpec == T!TSpec
=============================================================================
