---------------------------- MODULE MCCodecNest ----------------------------
(* C02 (structured part): the container grammar of the recursive built-in   *)
(* types as a graph.  A TLC state is a nesting path (root type, sequence of *)
(* edges); TLC enumerates every path up to MaxLen edges, among them every   *)
(* simple cycle.  For each path the specified decoder is run on the bytes   *)
(* of the path; for each cycle also on the cycle repeated around the depth  *)
(* limit.  A second family of states sweeps the first (mask) byte of every  *)
(* type with a mask.                                                         *)
EXTENDS Codec
CONSTANTS MaxLen,       \* longest path (edges)
          NoLock        \* design variation: lock edges that take no depth lock ({} = the design)

Dsn == [Design EXCEPT !.nolock = NoLock]
Edge(id, from, to, lock, pre, suf) == [id |-> id, from |-> from, to |-> to, lock |-> lock, pre |-> pre, suf |-> suf]
\* edge = the bytes that open the child (pre) and the bytes of the parent that follow the child (suf)
Edges == {
  Edge("V>V", "V", "V", "V>V", <<24>>, <<>>),
  Edge("V>[V]", "V", "V", "V>V", <<152>> \o LE32(1), <<>>),
  Edge("V>[[V]]", "V", "V", "V>V", <<216>> \o LE32(1), LE32(2) \o LE32(1) \o LE32(1)),
  Edge("V>DV", "V", "DV", "V>DV", <<23>>, <<>>),
  Edge("V>[DV]", "V", "DV", "V>DV", <<151>> \o LE32(1), <<>>),
  Edge("DV>V", "DV", "V", "", <<1>>, <<>>),
  Edge("DV>V+st", "DV", "V", "", <<3>>, <<0, 0, 7, 128>>),
  Edge("V>DI", "V", "DI", "", <<25>>, <<>>),
  Edge("V>[DI]", "V", "DI", "", <<153>> \o LE32(1), <<>>),
  Edge("DI>DI", "DI", "DI", "DI>DI", <<64>>, <<>>),
  Edge("DI>DI+sym", "DI", "DI", "DI>DI", <<65>> \o LE32(7), <<>>),
  Edge("V>EO", "V", "EO", ">EO", <<22>>, <<>>),
  Edge("V>[EO]", "V", "EO", ">EO", <<150>> \o LE32(1), <<>>) }
Types == {"V", "DV", "DI", "EO"}
TypeName(t) == CASE t = "V" -> "Variant" [] t = "DV" -> "DataValue" [] t = "DI" -> "DiagnosticInfo" [] t = "EO" -> "ExtensionObject"
Term(t) == IF t = "EO" THEN <<0, 0, 0>> ELSE <<0>>
\* a root type embedded in a representative message: bytes before and after the root
MsgOf(t) == CASE t = "V" -> "CallRequest" [] t = "DV" -> "WriteRequest" [] t = "DI" -> "ServiceFault" [] OTHER -> ""
MsgPre(t) == CASE t = "V" -> EncReqHdr(NullStr) \o LE32(1) \o <<0, 0, 0, 0>> \o LE32(1)
               [] t = "DV" -> EncReqHdr(NullStr) \o LE32(1) \o <<0, 0>> \o LE32(13) \o LE32(-1)
               [] t = "DI" -> Zeros(8) \o LE32(1) \o Zeros(4)
MsgSuf(t) == IF t = "DI" THEN LE32(-1) \o <<0, 0, 0>> ELSE <<>>

RECURSIVE Rev(_)
Rev(s) == IF s = <<>> THEN <<>> ELSE Append(Rev(Tail(s)), Head(s))
Pre(p) == Cat([i \in 1..Len(p) |-> p[i].pre])
Suf(p) == Cat(Rev([i \in 1..Len(p) |-> p[i].suf]))
EndType(root, p) == IF p = <<>> THEN root ELSE p[Len(p)].to
Bytes(root, p) == Pre(p) \o Term(EndType(root, p)) \o Suf(p)
Locks(p) == Cardinality({i \in 1..Len(p) : p[i].lock # "" /\ p[i].lock \notin NoLock})
DesignLocks(p) == Cardinality({i \in 1..Len(p) : p[i].lock # ""})
\* how often a type is nested within itself when the path p is walked n times from root
Occ(root, p, n, t) == (IF root = t THEN 1 ELSE 0) + n * Cardinality({i \in 1..Len(p) : p[i].to = t})
Reent(root, p, n) == LET m == CHOOSE x \in {Occ(root, p, n, t) : t \in Types} : \A y \in {Occ(root, p, n, t) : t \in Types} : x >= y
                     IN Max(m - 1, 0)
IsCycle(root, p) == /\ p # <<>> /\ EndType(root, p) = root
                    /\ \A i, j \in 1..Len(p) : i # j => p[i].to # p[j].to

OptSet == {[nm |-> "default", o |-> DefaultOpts], [nm |-> "minimal", o |-> MinimalOpts],
           [nm |-> "depth3", o |-> [DefaultOpts EXCEPT !.depth = 3]]}
OptsJson(x) == [nm |-> x.nm, msg |-> x.o.msg, str |-> x.o.str, bs |-> x.o.bs, arr |-> x.o.arr, depth |-> x.o.depth]

VARIABLE st
vars == <<st>>
Init == \/ \E r \in {"V", "DV", "DI"} : st = [kind |-> "path", root |-> r, path |-> <<>>, ty |-> "", m |-> 0]
        \/ \E ty \in {"Variant", "DataValue", "DiagnosticInfo", "NodeId", "ExpandedNodeId", "LocalizedText", "ExtensionObject"}, m \in 0..255 :
              st = [kind |-> "mask", root |-> "", path |-> <<>>, ty |-> ty, m |-> m]
        \/ \E ty \in {"Hello", "Acknowledge", "Error", "Chunk"} : st = [kind |-> "frame", root |-> "", path |-> <<>>, ty |-> ty, m |-> 0]
Next == /\ st.kind = "path" /\ Len(st.path) < MaxLen
        /\ \E e \in Edges : e.from = EndType(st.root, st.path) /\ st' = [st EXCEPT !.path = Append(@, e)]
Spec == Init /\ [][Next]_vars

-----------------------------------------------------------------------------
Ids(p) == [i \in 1..Len(p) |-> p[i].id]
RECURSIVE Join(_)
Join(s) == IF s = <<>> THEN "" ELSE IF Len(s) = 1 THEN s[1] ELSE s[1] \o " " \o Join(Tail(s))
Name(root, p) == root \o ": " \o Join(Ids(p))
\* what the design decides for the path walked n times under depth limit d: accepted iff the locks held fit
Decide(p, n, d) == IF n * Locks(p) <= d THEN "ok" ELSE "err"

\* model run of the decoder on an explicit byte string
Run(ty, B, o) == Dec(ty, B, o, Dsn).s
RunOK(ty, B, o, locks, reent) ==
  LET s == Run(ty, B, o) IN
  /\ s.hi <= o.depth                                      \* the depth budget is never exceeded
  /\ s.ok <=> locks <= o.depth                             \* accepted exactly when the locks fit
  /\ (reent > o.depth => ~s.ok)                            \* the property: nested deeper than the limit => rejected
  /\ s.pk <= AllocBound(o, Len(B), ElemBytes)
  /\ (s.ok => s.p = Len(B) + 1 /\ s.d = 0)

RepBytes(root, p, n) == Rep(Pre(p), n) \o Term(root) \o Rep(Suf(p), n)
NsAround(d) == {n \in {d - 1, d, d + 1, 2 * d + 1} : n >= 1}
PathOK == st.kind = "path" =>
  /\ \A x \in OptSet : Len(st.path) <= x.o.depth + 2 =>
        RunOK(TypeName(st.root), Bytes(st.root, st.path), x.o, Locks(st.path), Reent(st.root, st.path, 1))
  /\ IsCycle(st.root, st.path) =>
        \A x \in OptSet : \A n \in NsAround(x.o.depth) :
           /\ RunOK(TypeName(st.root), RepBytes(st.root, st.path, n), x.o, n * Locks(st.path), Reent(st.root, st.path, n))
           /\ MsgOf(st.root) # "" =>
                RunOK(MsgOf(st.root), MsgPre(st.root) \o RepBytes(st.root, st.path, n) \o MsgSuf(st.root), x.o,
                      n * Locks(st.path), Reent(st.root, st.path, n))
\* every cycle of the grammar passes an edge on which a depth lock is taken
CycleLocked == (st.kind = "path" /\ IsCycle(st.root, st.path)) => Locks(st.path) >= 1
MaskBytes(m) == <<m>> \o Zeros(40)
\* UA TCP frames (Part 6, 7.1.2): message type, chunk type 'F', message size, body
Url == <<111, 112, 99, 46, 116, 99, 112, 58, 47, 47, 97>>       \* opc.tcp://a
FrameBytes(ty) ==
  CASE ty = "Hello" -> <<72, 69, 76, 70>> \o LE32(32 + Len(Url)) \o LE32(0) \o LE32(8196) \o LE32(8196) \o LE32(0) \o LE32(0) \o EncStr(S(Url))
    [] ty = "Acknowledge" -> <<65, 67, 75, 70>> \o LE32(28) \o LE32(0) \o LE32(8196) \o LE32(8196) \o LE32(0) \o LE32(0)
    [] ty = "Error" -> <<69, 82, 82, 70>> \o LE32(18) \o <<0, 0, 7, 128>> \o EncStr(S(<<110, 111>>))
    [] ty = "Chunk" -> <<77, 83, 71, 70>> \o LE32(28) \o LE32(1) \o LE32(1) \o LE32(1) \o LE32(1) \o <<1, 0, 0, 0>>
MaskOK == st.kind = "mask" => \A x \in OptSet :
            LET s == Run(st.ty, MaskBytes(st.m), x.o) IN s.hi <= x.o.depth /\ s.pk <= AllocBound(x.o, 41, ElemBytes)
DesignOK == PathOK /\ CycleLocked /\ MaskOK
=============================================================================
