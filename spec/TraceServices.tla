----------------------------- MODULE TraceServices -----------------------------
EXTENDS Services, Json, IOUtils
ObsLog == ndJsonDeserialize(IOEnv.OBS)
VARIABLES l, out
T == INSTANCE TraceFn WITH Viol <- ServicesViol, Prop <- "C33", Obs <- ObsLog
TSpec == T!TSpec
=============================================================================
