------------------------------ MODULE GenConfig ------------------------------
EXTENDS MCConfig, Json
Emit == c.lvl = 2 => PrintT(<<"CASE", ToJson([c |-> [kind |-> c.kind, cfg |-> c.cfg, src |-> c.src], exp |-> [valid |-> Valid(c.cfg), ok |-> SpecRtDev(c.cfg).saved]])>>)
=============================================================================
