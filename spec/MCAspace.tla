------------------------------ MODULE MCAspace ------------------------------
EXTENDS AspaceDriver
CONSTANT Mons
VARIABLES mon, viol
MP == INSTANCE AspaceProps
MInit == DInit /\ mon = MP!MInit /\ viol = [c28 |-> {}, c29 |-> {}, c31 |-> {}]
MNext == /\ DNext
         /\ LET r28 == MP!Mon28Step(mon, evt')
                r29 == MP!Mon29Step(mon, evt')
                r31 == MP!Mon31Step(mon, evt')
            IN /\ mon' = r28.g
               /\ viol' = [c28 |-> IF "C28" \in Mons THEN r28.viol ELSE {},
                           c29 |-> IF "C29" \in Mons THEN r29.viol ELSE {},
                           c31 |-> IF "C31" \in Mons THEN r31.viol ELSE {}]
MSpec == MInit /\ [][MNext]_<<vars, dvars, mon, viol>>
C28 == viol.c28 = {}
C29 == viol.c29 = {}
C31 == viol.c31 = {}
MView == <<exist, fwd, by, depth, script, mon, viol>>
=============================================================================
