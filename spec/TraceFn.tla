------------------------------- MODULE TraceFn -------------------------------
(* Generic judge for function-like properties: every observation record is  *)
(* judged on its own by the operator Viol (set of violated clauses).          *)
(* Instantiate with  T == INSTANCE TraceFn WITH Viol <- MyViol, Prop <- "Cxx", Obs <- ObsLog *)
EXTENDS Integers, Sequences, FiniteSets, SequencesExt, TLC, Json, IOUtils

CONSTANTS Viol(_), Prop,
          Obs        \* the deserialised observation log (defined in the root module so that TLC caches it)

VARIABLES l, out

TInit == l = 1 /\ out = <<>>

TNext ==
  \/ /\ l <= Len(Obs)
     /\ LET e == Obs[l]
            s == SetToSeq(Viol(e))
        IN out' = out \o [j \in 1..Len(s) |-> [case |-> e.case, i |-> e.i, prop |-> Prop, clause |-> s[j]]]
     /\ l' = l + 1
  \/ /\ l = Len(Obs) + 1
     /\ ndJsonSerialize(IOEnv.VERDICT, out)
     /\ l' = l + 1
     /\ UNCHANGED out

TSpec == TInit /\ [][TNext]_<<l, out>>
=============================================================================
