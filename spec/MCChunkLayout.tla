--------------------------- MODULE MCChunkLayout ---------------------------
(* one TLC state per (kind, policy, mode, direction, key sizes, chunk size limit, message length); the specified   *)
(* layout must satisfy the property (DesignOK).  Message lengths are placed around the chunk boundaries that the     *)
(* layout itself defines: 1 chunk, B-1, B, B+1, 2B, 2B+1, 3B+7 for the maximal body B of the configuration.          *)
EXTENDS ChunkLayout

Base(kind, pol, mode, dir, sb, rb, cs) ==
  [kind |-> kind, pol |-> pol, mode |-> mode, dir |-> dir, sbits |-> sb, rbits |-> rb, cs |-> cs, len |-> 0, seq0 |-> 0, req |-> 0]
Min(kind, dir) == MinLen[kind \o dir]

\* sequence numbers / request ids: small, and large enough to need all four bytes
Seq0(len) == IF len % 2 = 0 THEN 1 ELSE 16909060
Req(len) == IF len % 3 = 0 THEN 1 ELSE 2130706433

MsgLens(b) ==
  IF b.cs = 0 THEN {Min("msg", b.dir), 300, 9000, 20000}
  ELSE LET B == MaxBody(Cfg(b), b.cs) IN {Min("msg", b.dir), B - 1, B, B + 1, 2 * B, 2 * B + 1, 3 * B + 7}

\* OPN: always one chunk (Part 6: the final flag of an OPN chunk is always F).  Lengths: the smallest request / response, every
\* padding situation around a full plain text block (no padding beyond the size bytes, the largest padding, which needs the
\* second size byte for keys above 2048 bits), and a chunk filled to the limit.
OpnLens(b) ==
  LET g == Cfg(b)
      m == Min("opn", b.dir)
      \* smallest length >= m + 2 whose plain text fills its blocks exactly
      full == IF g.padded THEN m + 2 + ((g.plain - ((SeqHdr + m + 2 + g.sig + g.minpad) % g.plain)) % g.plain) ELSE m + 40
  IN {m, m + 1, m + 32, full - 1, full, full + 1, full + 2}
     \cup (IF b.cs > 0 THEN {MaxBody(g, b.cs) - 1, MaxBody(g, b.cs)} ELSE {4000})

MsgCases ==
  UNION {{[b EXCEPT !.len = l, !.seq0 = Seq0(l), !.req = Req(l)] : l \in MsgLens(b)}
         : b \in {Base("msg", p, m, d, 0, 0, cs) : p \in Policies, m \in Modes, d \in Dirs, cs \in ChunkSizes}}

OpnConfigs ==
  {Base("opn", "None", "None", d, 0, 0, cs) : d \in Dirs, cs \in ChunkSizes}
  \cup UNION {{Base("opn", p, m, d, sb, rb, cs) : m \in {"Sign", "SignAndEncrypt"}, d \in Dirs, cs \in ChunkSizes,
                                                   sb \in KeyBits \cap KeyRange(p), rb \in KeyBits \cap KeyRange(p)}
              : p \in Policies \ {"None"}}
OpnCases == UNION {{[b EXCEPT !.len = l, !.seq0 = Seq0(l), !.req = Req(l)] : l \in OpnLens(b)} : b \in OpnConfigs}

\* PADDING SWEEP of asymmetric chunks: the padding is a function of (body length mod plain text block), so a run of plain + 3
\* consecutive body lengths (step 1) meets every padding size of the scheme, in particular, for receiver keys above 2048
\* bits, the sizes around 256 where the second size byte starts to count.  step > 1 = a sample of the period.
SweepCases ==
  UNION {LET b == Base("opn", w.pol, "SignAndEncrypt", w.dir, w.sbits, w.rbits, 0)
             m == Min("opn", w.dir)
         IN {[b EXCEPT !.len = m + k * w.step, !.seq0 = Seq0(m + k * w.step), !.req = Req(m + k * w.step)]
              : k \in 0..((Cfg(b).plain + 2) \div w.step)}
         : w \in Sweeps}

Cases == MsgCases \cup OpnCases \cup SweepCases

VARIABLE c
Init == c \in Cases
Next == UNCHANGED c
Spec == Init /\ [][Next]_c
DesignOK == DesignHolds(c)
=============================================================================
