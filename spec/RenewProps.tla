------------------------------ MODULE RenewProps ------------------------------
(* L2 monitor for C14 over observation records only:                          *)
(*   Secure(side, m, tok)         a side secured a chunk under its current token *)
(*   Deliver(to, m, tok) -> acc   a chunk reached the other side                 *)
(*   BeginRenew / EndRenew        informational                                  *)
(* seen[to] = highest token of any chunk that side has accepted (or, for the     *)
(* server, issued: it knows a token from the moment it made it).                 *)
EXTENDS Integers, Sequences, FiniteSets, TLC

MInit == [seenS |-> 1, seenC |-> 1, issued |-> {1}, cswitched |-> 1, sswitched |-> 1]

Mon14Step(g, e) ==
  LET g1 == IF e.ev = "Deliver" /\ e.side = "server" /\ e.k = "OPNQ" /\ e.acc
            THEN [g EXCEPT !.issued = @ \cup {1 + CHOOSE t \in @ : \A u \in @ : u <= t}] ELSE g
      tokOK == e.tok \in g1.issued
      v == IF e.fail # "none" THEN {"fail:" \o e.site}
           ELSE IF e.ev # "Deliver" \/ e.k \in {"OPNQ", "OPNR"} THEN {}
           ELSE IF e.k = "FORGED" THEN (IF e.acc THEN {"chunk-under-never-issued-token-accepted:to-" \o e.side} ELSE {})
           ELSE IF e.side = "server"
           THEN (IF tokOK /\ g1.seenS <= e.tok /\ ~e.acc
                 THEN {"valid-message-rejected:to-server:" \o (IF e.tok < g1.sswitched THEN "old-token-after-server-renewed" ELSE "current-token")}
                 ELSE {})
           ELSE (IF tokOK /\ g1.seenC <= e.tok /\ ~e.acc
                 THEN {"valid-message-rejected:to-client:" \o (IF e.tok > g1.cswitched THEN "new-token-before-client-switched"
                                                              ELSE IF e.tok < g1.cswitched THEN "old-token-after-client-switched"
                                                              ELSE "current-token")}
                 ELSE {})
      g2 == [g1 EXCEPT
               !.seenS = IF e.ev = "Deliver" /\ e.side = "server" /\ e.k = "MSG" /\ e.acc /\ e.tok > @ THEN e.tok ELSE @,
               !.seenC = IF e.ev = "Deliver" /\ e.side = "client" /\ e.k = "MSG" /\ e.acc /\ e.tok > @ THEN e.tok ELSE @,
               \* informational: which token each side's code path has switched to (for the clause text only)
               !.cswitched = IF e.ev = "EndRenew" THEN e.tok ELSE @,
               !.sswitched = IF e.ev = "Deliver" /\ e.side = "server" /\ e.k = "OPNQ" /\ e.acc
                             THEN 1 + CHOOSE t \in g.issued : \A u \in g.issued : u <= t ELSE @]
  IN [g |-> g2, viol |-> v]
=============================================================================
