------------------------------ MODULE TraceLike ------------------------------
(* judges the strings accepted by the real like_to_regex + match (direct) and by the real Like operator (eval) *)
EXTENDS Like, Json, IOUtils
ObsLog == ndJsonDeserialize(IOEnv.OBS)
VARIABLES l, out
SeqSet(s) == {s[i] : i \in DOMAIN s}
LikeViol(e) ==
  IF e.r.fail # "none" THEN {"fail:" \o e.r.site}
  ELSE LikeSetViol(e.c.toks, SeqSet(e.r.direct)) \cup LikeSetViol(e.c.toks, SeqSet(e.r.eval))
T == INSTANCE TraceFn WITH Viol <- LikeViol, Prop <- "C39", Obs <- ObsLog
TSpec == T!TSpec
=============================================================================
