---------------------------- MODULE GenJsonCodec ----------------------------
EXTENDS MCJsonCodec, Json
Emit == PrintT(<<"CASE", ToJson([c |-> c, exp |-> [json |-> Enc(c.ty, c.w, TreeDv)]])>>)
=============================================================================
