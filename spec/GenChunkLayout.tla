--------------------------- MODULE GenChunkLayout ---------------------------
EXTENDS MCChunkLayout, Json
Emit == PrintT(<<"CASE", ToJson([c |-> c, exp |-> Layout(c)])>>)
=============================================================================
