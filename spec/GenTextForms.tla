----------------------------- MODULE GenTextForms -----------------------------
EXTENDS MCTextForms, Json
\* exp = the specified text (L1), compared with the real printer's text as drift; a parse case has no printer
Emit == PrintT(<<"CASE", ToJson(IF c.t = "parse" THEN [c |-> c] ELSE [c |-> c, exp |-> Expected(c)])>>)
=============================================================================
