--------------------------- MODULE AttributeDriver ---------------------------
(* Bounded exploration of Attribute.tla. Every behaviour works on the nodes   *)
(* of one kind (`focus', chosen at the start) so that the depth bound is       *)
(* spent on sequences of writes and reads of the same values.                  *)
EXTENDS Attribute
CONSTANTS MaxDepth, FocusKinds, DAccs, DAttrs, DVTs, Calls,
          DPairs, DOdd,      \* index ranges tried on Value: <<lo, hi>> pairs and other strings ("" = none, "2:1", "1,2", "a")
          DRel,              \* ... and these ranges relative to the length of the value the call is applied to (names of RelPair)
          OPairs, OOdd, OVTs \* the index ranges / value classes tried on attributes other than Value
VARIABLES depth, focus
dvars == <<depth, focus>>
DInit == Init /\ depth = 0 /\ focus \in FocusKinds
LenOf(v) == IF v.a \/ v.t \in {"String", "ByteString"} THEN Len(v.v) ELSE 4
RangesFor(attr, acc) ==
  IF attr = "Value" THEN {One(p[1], p[2]) : p \in DPairs} \cup {Odd(x) : x \in DOdd} \cup Rel(DRel, LenOf(Cur(focus, acc)))
  ELSE {One(p[1], p[2]) : p \in OPairs} \cup {Odd(x) : x \in OOdd}
DNext ==
  /\ depth < MaxDepth /\ depth' = depth + 1 /\ UNCHANGED focus
  /\ \E acc \in DAccs, attr \in DAttrs : \E r \in RangesFor(attr, acc) :
       \/ "Write" \in Calls /\ \E vt \in (IF focus = "none" THEN {"same", "null"} ELSE VTs(focus)) \cap (IF attr = "Value" THEN DVTs ELSE OVTs) :
                                   Write(focus, acc, attr, r, vt)
       \/ "Read" \in Calls /\ Read(focus, acc, attr, r)
Done == depth = MaxDepth
=============================================================================
