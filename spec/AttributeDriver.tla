--------------------------- MODULE AttributeDriver ---------------------------
(* Bounded exploration of Attribute.tla. Every behaviour works on the nodes   *)
(* of one kind (`focus', chosen at the start) so that the depth bound is       *)
(* spent on sequences of writes and reads of the same values.                  *)
EXTENDS Attribute
CONSTANTS MaxDepth, FocusKinds, DAccs, DAttrs, DRanges, DVTs, Calls,
          ORanges, OVTs      \* the index ranges / value classes tried on attributes other than Value
VARIABLES depth, focus
dvars == <<depth, focus>>
DInit == Init /\ depth = 0 /\ focus \in FocusKinds
DNext ==
  /\ depth < MaxDepth /\ depth' = depth + 1 /\ UNCHANGED focus
  /\ \E acc \in DAccs, attr \in DAttrs : \E r \in (IF attr = "Value" THEN DRanges ELSE ORanges) :
       \/ "Write" \in Calls /\ \E vt \in (IF focus = "none" THEN {"same", "null"} ELSE VTs(focus)) \cap (IF attr = "Value" THEN DVTs ELSE OVTs) :
                                   Write(focus, acc, attr, r, vt)
       \/ "Read" \in Calls /\ Read(focus, acc, attr, r)
Done == depth = MaxDepth
=============================================================================
