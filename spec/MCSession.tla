------------------------------ MODULE MCSession ------------------------------
(* Session.tla driven by SessionDriver with the L2 monitors of SessionProps attached as ghost state *)
EXTENDS SessionDriver
VARIABLES mon, viol
MP == INSTANCE SessionProps
MInit == DInit /\ mon = [m19 |-> MP!M19Init, m20 |-> MP!M20Init] /\ viol = [c19 |-> {}, c20 |-> {}]
MNext == /\ DNext
         /\ LET r19 == MP!Mon19Step(mon.m19, evt')
                r20 == MP!Mon20Step(mon.m20, evt')
            IN /\ mon' = [m19 |-> r19.g, m20 |-> r20.g]
               /\ viol' = [c19 |-> r19.viol, c20 |-> r20.viol]
MSpec == MInit /\ [][MNext]_<<vars, depth, mon, viol>>
C19 == viol.c19 = {}
C20 == viol.c20 = {}
\* the last event does not influence the future
MView == <<sess, chan, cnt, depth, mon, viol>>
=============================================================================
