--------------------------- MODULE GenKeyDerivation ---------------------------
EXTENDS MCKeyDerivation, Json
Emit == PrintT(<<"CASE", ToJson([c |-> c, exp |-> Expected(c)])>>)
=============================================================================
