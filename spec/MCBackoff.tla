------------------------------ MODULE MCBackoff ------------------------------
(* one TLC state per policy; the specified iterator must satisfy the property *)
EXTENDS Backoff
VARIABLE c
Init == c \in Cases
Next == UNCHANGED c
Spec == Init /\ [][Next]_c
DesignOK == BackoffViol([c |-> c, r |-> ExpSeq(c)]) = {}
=============================================================================
