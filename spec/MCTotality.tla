----------------------------- MODULE MCTotality -----------------------------
(* one TLC state per (shape, chunk kind, receiving role, policy, mode, key sizes); the decision procedure must be total and *)
(* report the named shapes as security errors (DesignOK)                                                                  *)
EXTENDS Totality

Cfg(kind, role, pol, mode, sb, rb) == [kind |-> kind, role |-> role, pol |-> pol, mode |-> mode, sbits |-> sb, rbits |-> rb]

Configs ==
  {Cfg(k, r, "None", "None", 0, 0) : k \in {"opn", "msg", "clo"}, r \in Roles}
  \cup {Cfg(k, r, p, m, 0, 0) : k \in {"msg", "clo"}, r \in Roles, p \in Policies, m \in {"Sign", "SignAndEncrypt"}}
  \cup UNION {{Cfg("opn", r, p, m, kp[1], kp[2]) : r \in Roles, m \in {"Sign", "SignAndEncrypt"},
                                                  kp \in {k \in KeyPairs : k[1] \in KeyRange(p) /\ k[2] \in KeyRange(p)}} : p \in Policies}

\* OPN configurations that exist only for the padding size family (and its baseline, the valid chunk)
PadConfigs ==
  UNION {{Cfg("opn", r, p, m, kp[1], kp[2]) : r \in Roles, m \in {"Sign", "SignAndEncrypt"},
                                              kp \in {k \in PadKeyPairs \ KeyPairs : k[1] \in KeyRange(p) /\ k[2] \in KeyRange(p)}} : p \in Policies}

\* shape parameter: "shorter-than-sig": how many bytes of the chunk are kept after the security header;
\*                  "pad-size": how many body bytes (all with the value of the padding size byte) precede the padding: 0 = a tiny chunk
Keeps(g, s) == CASE s = "shorter-than-sig" -> {0, 3, SymSig(g.pol) - 1} [] s = "pad-size" -> {0, 96} [] OTHER -> {0}
Psz(g, s) == IF s = "pad-size" THEN PadSizes(g) ELSE {""}

CasesOf(G, Sh(_)) ==
  UNION {UNION {{[kind |-> g.kind, role |-> g.role, pol |-> g.pol, mode |-> g.mode, sbits |-> g.sbits, rbits |-> g.rbits,
                  shape |-> s, keep |-> k, psz |-> z, nrand |-> NRand] : k \in Keeps(g, s), z \in Psz(g, s)} : s \in Sh(g)} : g \in G}
PadShapes(g) == {"valid", "pad-size"}
Cases == CasesOf(Configs, Shapes) \cup CasesOf(PadConfigs, PadShapes)

VARIABLE c
Init == c \in Cases
Next == UNCHANGED c
Spec == Init /\ [][Next]_c
DesignOK == DesignHolds(c)
=============================================================================
