----------------------------- MODULE MCTotality -----------------------------
(* one TLC state per (shape, chunk kind, receiving role, policy, mode, key sizes); the decision procedure must be total and *)
(* report the named shapes as security errors (DesignOK)                                                                  *)
EXTENDS Totality

Cfg(kind, role, pol, mode, sb, rb) == [kind |-> kind, role |-> role, pol |-> pol, mode |-> mode, sbits |-> sb, rbits |-> rb]

Configs ==
  {Cfg(k, r, "None", "None", 0, 0) : k \in {"opn", "msg", "clo"}, r \in Roles}
  \cup {Cfg(k, r, p, m, 0, 0) : k \in {"msg", "clo"}, r \in Roles, p \in Policies, m \in {"Sign", "SignAndEncrypt"}}
  \cup UNION {{Cfg("opn", r, p, m, kp[1], kp[2]) : r \in Roles, m \in {"Sign", "SignAndEncrypt"},
                                                  kp \in {k \in KeyPairs : k[1] \in KeyRange(p) /\ k[2] \in KeyRange(p)}} : p \in Policies}

\* how many bytes of the chunk are kept after the security header in the shape "shorter-than-sig"
Keeps(g, s) == IF s = "shorter-than-sig" THEN {0, 3, SymSig(g.pol) - 1} ELSE {0}

Cases == UNION {UNION {{[kind |-> g.kind, role |-> g.role, pol |-> g.pol, mode |-> g.mode, sbits |-> g.sbits, rbits |-> g.rbits,
                         shape |-> s, keep |-> k, nrand |-> NRand] : k \in Keeps(g, s)} : s \in Shapes(g)} : g \in Configs}

VARIABLE c
Init == c \in Cases
Next == UNCHANGED c
Spec == Init /\ [][Next]_c
DesignOK == DesignHolds(c)
=============================================================================
