------------------------------- MODULE MCNum -------------------------------
(* C06: one TLC state per point of the input space (source type, value, target type, implicit / explicit);   *)
(* the specified conversion and cast (Part 4 conversion table with range checks, round half away from zero)  *)
(* must satisfy the property predicate.  One extra state carries the table itself to the harness;   *)
(* seed states only spread the enumeration over the workers.                                                  *)
EXTENDS NumLine
VARIABLE c
\* seed states (one per source type and operation) only spread the enumeration over TLC's workers
Seed(s, o) == [op |-> "seed", src |-> s, p |-> o, enc |-> "", dst |-> ""]
Init == c \in {Seed(s, o) : s \in NumTypes, o \in {"convert", "cast"}} \cup {TableCase}
Next == c.op = "seed" /\ c' \in CasesOf(c.src, c.p)
Spec == Init /\ [][Next]_c

\* the table is well formed: neighbours and nearest points are points of the line, on the correct side
TableOK ==
  /\ \A i \in 1..N : \A j \in 1..N : Line[i].n = Line[j].n => i = j
  /\ \A t \in NumTypes : Lo[t] \in Names /\ Hi[t] \in Names /\ Le(Lo[t], Hi[t])
  /\ \A i \in 1..N : LET a == Line[i] IN
       /\ a.k \in {"int", "lo", "tie", "hi"}
       /\ a.fl \in Names /\ a.ce \in Names
       /\ (a.k = "int" => a.fl = a.n /\ a.ce = a.n)
       /\ (a.k # "int" => PosOf[a.fl] < i /\ i < PosOf[a.ce] /\ At(a.fl).k = "int" /\ At(a.ce).k = "int"
                          /\ \A j \in (PosOf[a.fl] + 1)..(PosOf[a.ce] - 1) : Line[j].k # "int")
       /\ Elems(a.n32) \subseteq Names /\ Elems(a.n64) \subseteq Names
       /\ Len(a.n32) <= 2 /\ Len(a.n64) \in {1, 2}
       /\ (a.e32 <=> a.n32 = <<a.n>>) /\ (a.e64 <=> a.n64 = <<a.n>>) /\ (a.e32 => a.e64)
       /\ \A q \in Elems(a.n32) : At(q).e32
       /\ \A q \in Elems(a.n64) : At(q).e64
       /\ (a.n32 = <<>> <=> ~InRange(a.n, "Float"))

DesignOK == CASE c.op = "seed" -> TRUE [] c.op = "table" -> TableOK [] OTHER -> NumViol(c, NumSpec(c)) = {}
=============================================================================
