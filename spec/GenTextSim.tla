------------------------------ MODULE GenTextSim ------------------------------
(* C05 thorough: long relative paths by TLC simulation; every prefix (4..32 elements) of a random walk over the *)
(* printable one-element paths is a case                                                                         *)
EXTENDS TextForms, Json
CONSTANTS Which, StrMax, NameMax, PathMax, Deep
VARIABLE p
SimElems == {e \in Elems1(Deep, NameMax) : HasName(e.rt)}
SInit == p = <<>>
SNext == Len(p) < 32 /\ p' = Append(p, RandomElement(SimElems))
SSpec == SInit /\ [][SNext]_p
EmitSim == Len(p) >= 4 => PrintT(<<"CASE", ToJson([c |-> [t |-> "path", path |-> p], exp |-> [text |-> PrintPath(p)]])>>)
=============================================================================
