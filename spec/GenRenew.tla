------------------------------- MODULE GenRenew -------------------------------
EXTENDS Renew, Json
CONSTANT MaxDepth
VARIABLES hist, depth
GInit == Init /\ hist = <<>> /\ depth = 0
GNext == depth < MaxDepth /\ depth' = depth + 1 /\ Next /\ hist' = Append(hist, evt')
GSpec == GInit /\ [][GNext]_<<vars, hist, depth>>
Emit == (depth = MaxDepth) => PrintT(<<"CASE", ToJson(hist)>>)
=============================================================================
