--------------------------- MODULE TraceCodecNest ---------------------------
(* C02 judge.  e.c = [kind, name, root, opts (the numbers in force), reent, must];                          *)
(* e.r = [out in ok|more|err|panic, site, peak (bytes allocated above the level before decoding), M (input *)
(* length), elem (largest size_of of an array element)]; a child process that died or hung is reported as   *)
(* a record with ev = "process" and fail in abort|timeout.                                                   *)
EXTENDS Codec, Json, IOUtils
ObsLog == ndJsonDeserialize(IOEnv.OBS)

NestViol(e) ==
  IF "ev" \in DOMAIN e THEN {"process-" \o e.fail}                    \* stack exhaustion, abort, hang
  ELSE LET c == e.c  r == e.r IN
       (IF r.out \notin {"ok", "more", "err"} THEN {"panic:" \o r.site} ELSE {})
       \cup (IF c.must /\ r.out \in {"ok", "more"} THEN {"nested-deeper-than-limit-accepted"} ELSE {})
       \cup (IF r.peak > AllocBound(c.opts, r.M, Max(r.elem, ElemBytes)) THEN {"allocation-exceeds-limits"} ELSE {})

VARIABLES l, out
T == INSTANCE TraceFn WITH Viol <- NestViol, Prop <- "C02", Obs <- ObsLog
TSpec == T!TSpec
=============================================================================
