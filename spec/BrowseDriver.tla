---------------------------- MODULE BrowseDriver ----------------------------
(* Bounded exploration of Browse.tla: which calls are tried at each step.    *)
(*  Mode "chain": one Browse (any arguments) followed by BrowseNext on the    *)
(*                newest continuation point until none remains;               *)
(*  Mode "free" : Warm forced Browses (F, Both, no filter, page 1: each leaves *)
(*                a continuation point open), then any interleaving of the     *)
(*                enabled calls up to MaxDepth steps.                          *)
(*  Mode "random": one behaviour per seed: the call and its arguments are     *)
(*                taken from a pseudo random sequence (a function of the seed) *)
(*  Mode "script": like "free", but step d may only be a call of a kind in    *)
(*                Script[d] (Browse / Next / Modify): reaches deep scenarios    *)
(*                such as Browse, change, Browse, BrowseNext on the OLDER point *)
(* Every behaviour ends with a Probe step.                                     *)
EXTENDS Browse
CONSTANTS Mode, MaxDepth, Warm, KidConfigs, Nodes, Dirs, Filts, Masks, Pages, ModKinds, RefTypes, NextCps, Seeds,
          Script,    \* Mode "script": sequence of sets of call kinds, one per step (MaxDepth = Len(Script))
          Rels       \* the release flags BrowseNext is tried with
VARIABLES depth, phase, cfg, rnd
dvars == <<depth, phase, cfg, rnd>>

DInit == /\ cfg \in KidConfigs
         /\ nodes = 0..Len(cfg)
         /\ cls = [i \in 1..K |-> IF i <= Len(cfg) THEN cfg[i].c ELSE "Object"]
         /\ fwd = <<[t |-> "TD", n |-> FTYPE]>> \o [i \in 1..Len(cfg) |-> [t |-> cfg[i].t, n |-> i]]
         /\ lastMod = 0 /\ cps = <<>> /\ nextCp = 1 /\ nextKid = Len(cfg) + 1
         /\ evt = [ev |-> "Init"]
         /\ depth = 0 /\ phase = "run"
         /\ rnd \in (IF Mode = "random" THEN Seeds ELSE {0})

AnyBrowse == \E nd \in Nodes, d \in Dirs, f \in Filts, m \in Masks, p \in Pages : Browse(nd, d, f, m, p)
\* continuation point numbers worth trying: 0 = never issued, everything issued so far (live, used, released, outdated)
CpChoice == IF -1 \in NextCps THEN 0..(nextCp - 1) ELSE {c \in NextCps : c < nextCp}       \* NextCps = {-1}: all of them
AnyNext == \E c \in CpChoice, r \in Rels : BrowseNext(c, r)
Kids == nodes \ {0}
AnyModify ==
  \/ "AddNode" \in ModKinds /\ \E t \in RefTypes : AddNode(0, t)
  \/ "AddNodeNoParent" \in ModKinds /\ AddNode(MISSING, "OR")
  \/ "AddRef" \in ModKinds /\ \E t \in RefTypes, n \in Kids : AddRef(t, n)
  \/ "DelNode" \in ModKinds /\ \E n \in Kids : DelNode(n)
  \/ "DelNodeMissing" \in ModKinds /\ DelNode(MISSING)
  \/ "DelRef" \in ModKinds /\ \E t \in RefTypes, n \in Kids : DelRef(t, n)

\* pseudo random choice: Lehmer sequence modulo the prime 65537, arguments picked by position in the sorted set
Pick(S, r) == SetToSeq(S)[(r % Cardinality(S)) + 1]
ModOpts == (IF "AddNode" \in ModKinds /\ nextKid <= K THEN {<<"AddNode", t, 0>> : t \in RefTypes} ELSE {})
           \cup (IF "AddNodeNoParent" \in ModKinds /\ nextKid <= K THEN {<<"AddNodeNoParent", "OR", 0>>} ELSE {})
           \cup (IF "AddRef" \in ModKinds THEN {<<"AddRef", t, n>> : t \in RefTypes, n \in Kids} ELSE {})
           \cup (IF "DelNode" \in ModKinds THEN {<<"DelNode", "", n>> : n \in Kids} ELSE {})
           \cup (IF "DelNodeMissing" \in ModKinds THEN {<<"DelNode", "", MISSING>>} ELSE {})
           \cup (IF "DelRef" \in ModKinds THEN {<<"DelRef", t, n>> : t \in RefTypes, n \in Kids} ELSE {})
RandomStep ==
  LET a == rnd % 10
      r == rnd \div 10
  IN IF a >= 8 /\ ModOpts # {}
     THEN LET m == Pick(ModOpts, r)
          IN CASE m[1] = "AddNode" -> AddNode(0, m[2])
               [] m[1] = "AddNodeNoParent" -> AddNode(MISSING, m[2])
               [] m[1] = "AddRef" -> AddRef(m[2], m[3])
               [] m[1] = "DelNode" -> DelNode(m[3])
               [] OTHER -> DelRef(m[2], m[3])
     ELSE IF a >= 4 /\ a <= 7 THEN BrowseNext(Pick(CpChoice, r), (r \div 64) % 4 = 0)
     ELSE Browse(Pick(Nodes, r), Pick(Dirs, r \div 3), Pick(Filts, r \div 9), Pick(Masks, r \div 36), Pick(Pages, r \div 108))

End == IF Mode = "chain" THEN depth > 0 /\ cps = <<>> ELSE depth >= MaxDepth

DNext ==
  /\ phase = "run" /\ UNCHANGED cfg
  /\ rnd' = IF Mode = "random" THEN (rnd * 75 + 74) % 65537 ELSE rnd
  /\ IF End THEN Probe /\ phase' = "done" /\ UNCHANGED depth
     ELSE /\ depth' = depth + 1 /\ phase' = phase
          /\ IF depth < Warm THEN Browse(0, "Both", "none", "All", 1)
             ELSE IF Mode = "chain" THEN (IF depth = 0 THEN AnyBrowse ELSE BrowseNext(cps[Len(cps)].id, FALSE))
             ELSE IF Mode = "random" THEN RandomStep
             ELSE IF Mode = "script" THEN LET ks == Script[depth + 1]
                                          IN ("Browse" \in ks /\ AnyBrowse) \/ ("Next" \in ks /\ AnyNext) \/ ("Modify" \in ks /\ AnyModify)
             ELSE AnyBrowse \/ AnyNext \/ AnyModify
Done == phase = "done"
=============================================================================
