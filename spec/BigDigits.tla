------------------------------ MODULE BigDigits ------------------------------
(***************************************************************************)
(* Exact naturals of any size as little-endian sequences of base-10000      *)
(* digits without leading zeros (zero is <<>>).  Every intermediate value   *)
(* stays far below TLC's 32-bit integer limit.                              *)
(***************************************************************************)
EXTENDS Integers, Sequences

DBase == 10000

RECURSIVE DTrim(_)
DTrim(a) == IF a # <<>> /\ a[Len(a)] = 0 THEN DTrim(SubSeq(a, 1, Len(a) - 1)) ELSE a

RECURSIVE DMulR(_, _, _)
DMulR(a, k, carry) ==
  IF a = <<>> THEN (IF carry = 0 THEN <<>> ELSE <<carry % DBase>> \o DMulR(<<>>, k, carry \div DBase))
  ELSE LET v == a[1] * k + carry IN <<v % DBase>> \o DMulR(Tail(a), k, v \div DBase)
DMul(a, k) == DTrim(DMulR(a, k, 0))          \* 0 <= k <= 100000
DDbl(a) == DMul(a, 2)
DShift(a) == IF a = <<>> THEN <<>> ELSE <<0>> \o a       \* times 10000

RECURSIVE DAddR(_, _, _)
DAddR(a, b, c) ==
  IF a = <<>> /\ b = <<>> THEN (IF c = 0 THEN <<>> ELSE <<c>>)
  ELSE LET x == IF a = <<>> THEN 0 ELSE a[1]
           y == IF b = <<>> THEN 0 ELSE b[1]
           v == x + y + c
       IN <<v % DBase>> \o DAddR(IF a = <<>> THEN <<>> ELSE Tail(a), IF b = <<>> THEN <<>> ELSE Tail(b), v \div DBase)
DAdd(a, b) == DTrim(DAddR(a, b, 0))

RECURSIVE DPredR(_)
DPredR(a) == IF a[1] > 0 THEN <<a[1] - 1>> \o Tail(a) ELSE <<DBase - 1>> \o DPredR(Tail(a))
DPred(a) == DTrim(DPredR(a))                  \* a > 0

\* floor(a / 2), most significant digit first
RECURSIVE DHalfR(_, _)
DHalfR(a, rem) ==
  IF a = <<>> THEN <<>>
  ELSE LET n == Len(a)
           v == rem * DBase + a[n]
       IN DHalfR(SubSeq(a, 1, n - 1), v % 2) \o <<v \div 2>>
DHalf(a) == DTrim(DHalfR(a, 0))

RECURSIVE DLtR(_, _, _)
DLtR(a, b, i) == IF i = 0 THEN FALSE
                 ELSE IF a[i] # b[i] THEN a[i] < b[i] ELSE DLtR(a, b, i - 1)
DLt(a, b) == IF Len(a) # Len(b) THEN Len(a) < Len(b) ELSE DLtR(a, b, Len(a))
DLe(a, b) == a = b \/ DLt(a, b)
DMin(a, b) == IF DLt(b, a) THEN b ELSE a

RECURSIVE DPow2(_)
DPow2(n) == IF n = 0 THEN <<1>> ELSE DDbl(DPow2(n - 1))

DWellFormed(a) == /\ \A i \in 1..Len(a) : a[i] \in 0..(DBase - 1)
                  /\ (a = <<>> \/ a[Len(a)] # 0)
=============================================================================
