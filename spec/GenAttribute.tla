---------------------------- MODULE GenAttribute ----------------------------
(* Emits every complete behaviour as a case; the monitor runs along (invariant C32). *)
EXTENDS MCAttribute, Json
VARIABLES hist
GInit == MInit /\ hist = <<>>
GNext == MNext /\ hist' = Append(hist, evt')
GSpec == GInit /\ [][GNext]_<<vars, dvars, mon, viol, hist>>
Emit == Done => PrintT(<<"CASE", ToJson(hist)>>)
=============================================================================
