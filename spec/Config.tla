------------------------------- MODULE Config -------------------------------
(***************************************************************************)
(* C41  Saved configurations load back unchanged.                           *)
(*                                                                          *)
(* Function-like: the input space is an ABSTRACT configuration of the       *)
(* client (ClientConfig) or the server (ServerConfig).  A field holds       *)
(*   - for a string:  the NAME of a string class out of a table of strings  *)
(*     that matter to a YAML writer / reader (the concrete strings live in  *)
(*     the harness, h_config/src/table.rs), or a literal  Lit(s) = "=" \o s *)
(*     for the strings the code itself compares with (security policy and   *)
(*     mode names, the reserved ANONYMOUS id);                              *)
(*   - for an Option: None or the value;                                    *)
(*   - for a number:  the name of a point of its type (zero, one, typ,      *)
(*     i64max, i64max1, max, ...), TLC integers being 32 bit;               *)
(*   - for a map / set / list: a sequence of entries, inserted in order     *)
(*     (BTreeMap::insert: the last entry with an id wins).                  *)
(*                                                                          *)
(* L1  Valid(cfg): transliteration of ServerConfig::is_valid /              *)
(*     ClientConfig::is_valid (and of the token / endpoint is_valid they    *)
(*     call);  SpecRt(cfg): the specified save / load (the identity on      *)
(*     valid configurations).                                               *)
(* L2  RtViol(e): the property on one observation of the real save / load.  *)
(*                                                                          *)
(* The combinations of field classes are rows of an orthogonal array over   *)
(* Z_P (P prime): column number m of row <<a0, a1, .. ad>> has the residue   *)
(* (a0 + a1 m + .. + ad m^d) % P, which selects the values of the slots of   *)
(* the column.  All rows <<i, j>> cover every pair of values of every two    *)
(* slots (strength 2), rows <<i, j, k>> every triple of different columns.   *)
(***************************************************************************)
EXTENDS Integers, Sequences, FiniteSets, TLC

Lit(s) == "=" \o s
None == "(none)"
Anon == Lit("ANONYMOUS")
Range(s) == {s[k] : k \in DOMAIN s}
SeqMinus(s, x) == SelectSeq(s, LAMBDA y : y # x)

-----------------------------------------------------------------------------
(* String classes.  CoreStr is the list the property text names; AllStr adds *)
(* the rest of the table.                                                    *)
CoreStr == <<"plain", "empty", "colon_space", "lead_space", "trail_space", "int", "float", "yes", "true", "null", "tilde",
             "hash", "squote", "dquote", "newline", "trail_newline", "non_ascii", "long", "url", "dash_space", "brace", "tab",
             "backslash">>
MoreStr == <<"colon_end", "colon_start", "only_space", "neg_int", "exp", "hex", "octal", "leading_zero", "plus_int",
             "underscore_int", "dot_inf", "dot_nan", "no", "on", "true_cap", "false_up", "null_cap", "null_up", "hash_start",
             "both_quotes", "squote_start", "dquote_start", "lead_newline", "only_newline", "two_trail_newlines",
             "newline_lead_space", "newline_trail_space", "crlf", "cr", "tab_start", "cjk", "emoji", "nel", "ls", "bom", "ctrl",
             "nul", "del", "fffe", "dash", "question", "bracket", "comma", "amp", "star", "bang", "pipe", "gt", "percent", "at",
             "backtick", "doc_start", "doc_end", "doc_start_text", "long_words", "long_spaces", "long_lines", "path_unix",
             "merge", "eq", "trail_tab", "newline_colon", "space_newline">>
AllStr == CoreStr \o MoreStr
StrOf(wide) == IF wide THEN AllStr ELSE CoreStr
IsEmptyStr(v) == v = "empty"

(* Security policies and modes as the code spells them (SecurityPolicy::from_str accepts the name and the URI) *)
PolicyNames == <<"None", "Basic128Rsa15", "Basic256", "Basic256Sha256", "Aes128-Sha256-RsaOaep", "Aes256-Sha256-RsaPss">>
PolicyUris == <<"http://opcfoundation.org/UA/SecurityPolicy#None", "http://opcfoundation.org/UA/SecurityPolicy#Basic128Rsa15",
                "http://opcfoundation.org/UA/SecurityPolicy#Basic256", "http://opcfoundation.org/UA/SecurityPolicy#Basic256Sha256",
                "http://opcfoundation.org/UA/SecurityPolicy#Aes128_Sha256_RsaOaep",
                "http://opcfoundation.org/UA/SecurityPolicy#Aes256_Sha256_RsaPss">>
PolicyDom == [k \in 1..12 |-> Lit((PolicyNames \o PolicyUris)[k])]
ModeNames == <<"None", "Sign", "SignAndEncrypt">>
IsPolicy(v) == v \in Range(PolicyDom)
PolicyIsNone(v) == v \in {Lit(PolicyNames[1]), Lit(PolicyUris[1])}
IsMode(v) == v \in {Lit(ModeNames[k]) : k \in 1..3}
ModeIsNone(v) == v = Lit("None")

(* Numbers, by named points of the type *)
Bool == <<FALSE, TRUE>>
U8 == <<"zero", "typ", "max">>
U16 == <<"zero", "typ", "max">>
U32 == <<"zero", "typ", "max">>
USize == <<"zero", "one", "typ", "i64max", "i64max1", "max">>
USizeNZ == <<"one", "typ", "i64max", "i64max1", "max">>
RetryLimit == <<"m1", "zero", "typ", "max">>          \* -1 = forever; below -1 is not valid
F64 == <<"zero", "negzero", "typ", "neg", "tiny", "huge", "intlike", "bigintlike", "inf", "neginf">>
Dur == <<"zero", "typ", "nanos", "max">>
Count03 == <<0, 1, 2, 3>>
Count13 == <<1, 2, 3>>

-----------------------------------------------------------------------------
(* Slots of the two configurations: <<name, domain>>.  The slots are grouped into the columns of the orthogonal array: *)
(* a column holds one slot with a large domain, or several slots with small domains whose product fits into P, the     *)
(* residue r of the column then gives slot number t of the column the value Dom_t[(r \div (Len(Dom_1) .. Len(Dom_t-1)))  *)
(* % Len(Dom_t) + 1]: as r runs through Z_P every combination of the slots of one column occurs, and two slots of       *)
(* different columns meet in every pair of values because their residues do.                                             *)
SrvCols(w) == LET S == StrOf(w)  SN == SeqMinus(S, "empty")  OS == <<None>> \o S  IN <<
  << <<"application_name", S>> >>, << <<"application_uri", S>> >>, << <<"product_uri", S>> >>,
  << <<"certificate_path", OS>> >>, << <<"private_key_path", OS>> >>, << <<"pki_dir", S>> >>,
  << <<"discovery_server_url", OS>> >>, << <<"host", S>> >>, << <<"loc_a", S>> >>, << <<"loc_b", S>> >>,
  << <<"tok1_id", S>> >>, << <<"tok1_user", SN>> >>, << <<"tok1_val", S>> >>,
  << <<"tok2_id", S>> >>, << <<"tok2_user", SN>> >>, << <<"tok2_val", S>> >>,
  << <<"disc_a", S>> >>, << <<"disc_b", S>> >>,
  << <<"ep1_id", S>> >>, << <<"ep1_path", S>> >>, << <<"ep1_policy", PolicyDom>>, <<"ep1_enc", <<"Sign", "SignAndEncrypt">> >> >>,
  << <<"ep1_pwpol", <<None>> \o PolicyDom>>, <<"tok1_kind", <<"pass", "x509">> >> >>,
  << <<"ep2_id", S>> >>, << <<"ep2_path", S>> >>, << <<"ep2_policy", PolicyDom>>, <<"ep2_enc", <<"SignAndEncrypt", "Sign">> >> >>,
  << <<"ep2_pwpol", <<None>> \o PolicyDom>>, <<"tok2_kind", <<"x509", "pass">> >> >>,
  << <<"create_sample_keypair", Bool>>, <<"trust_client_certs", Bool>>, <<"check_time", Bool>>,
     <<"clients_can_modify_address_space", Bool>>, <<"single_threaded_executor", Bool>> >>,
  << <<"hello_timeout", U32>>, <<"port", U16>>, <<"ep1_level", U8>> >>,
  << <<"default_endpoint", <<None, "first", "last">> >>, <<"n_disc", Count13>>, <<"n_endpoints", Count13>> >>,
  << <<"n_locales", Count03>>, <<"n_tokens", Count03>>, <<"tok1_thumb", Bool>> >>,
  << <<"ep1_users", <<"empty", "anon", "tok1", "tok2anon", "all">> >>, <<"max_array_length", USizeNZ>> >>,
  << <<"ep2_users", <<"all", "tok1", "anon", "empty", "tok2anon">> >>, <<"max_string_length", USizeNZ>> >>,
  << <<"max_byte_string_length", USizeNZ>>, <<"max_subscriptions", USize>> >>,
  << <<"max_monitored_items_per_sub", USize>>, <<"max_monitored_item_queue_size", USize>> >>,
  << <<"max_message_size", USize>>, <<"max_chunk_count", USize>> >>,
  << <<"send_buffer_size", USize>>, <<"receive_buffer_size", USize>> >>,
  << <<"min_sampling_interval", F64>> >>, << <<"min_publishing_interval", F64>> >> >>

CliCols(w) == LET S == StrOf(w)  SN == SeqMinus(S, "empty")  OS == <<None>> \o S  IN <<
  << <<"application_name", SN>> >>, << <<"application_uri", SN>> >>, << <<"product_uri", S>> >>,
  << <<"certificate_path", OS>> >>, << <<"private_key_path", OS>> >>, << <<"pki_dir", S>> >>,
  << <<"loc_a", S>> >>, << <<"loc_b", S>> >>,
  << <<"tok1_id", SN>> >>, << <<"tok1_user", SN>> >>, << <<"tok1_val", S>> >>, << <<"tok1_val2", S>> >>,
  << <<"tok2_id", SN>> >>, << <<"tok2_user", SN>> >>, << <<"tok2_val", S>> >>, << <<"tok2_val2", S>> >>,
  << <<"ep1_id", SN>> >>, << <<"ep1_url", S>> >>, << <<"ep1_policy", PolicyDom>>, <<"ep1_mode", <<"None", "Sign", "SignAndEncrypt">> >> >>,
  << <<"ep1_user", <<"anon", "tok1">> \o S>> >>,
  << <<"ep2_id", SN>> >>, << <<"ep2_url", S>> >>, << <<"ep2_policy", PolicyDom>>, <<"ep2_mode", <<"SignAndEncrypt", "None", "Sign">> >> >>,
  << <<"ep2_user", <<"tok1", "anon">> \o S>> >>,
  << <<"session_name", S>> >>,
  << <<"create_sample_keypair", Bool>>, <<"trust_server_certs", Bool>>, <<"verify_server_certs", Bool>>,
     <<"ignore_clock_skew", Bool>>, <<"tok1_kind", <<"pass", "x509">> >> >>,
  << <<"default_endpoint", <<"empty", "first", "last">> >>, <<"session_timeout", U32>>, <<"n_endpoints", Count03>> >>,
  << <<"n_locales", Count03>>, <<"n_tokens", Count03>>, <<"tok2_kind", <<"x509", "pass">> >> >>,
  << <<"session_retry_limit", RetryLimit>>, <<"session_retry_initial", Dur>> >>,
  << <<"session_retry_max", Dur>>, <<"keep_alive_interval", Dur>> >>,
  << <<"request_timeout", Dur>>, <<"publish_timeout", Dur>> >>,
  << <<"min_publish_interval", Dur>>, <<"max_inflight_publish", USize>> >>,
  << <<"max_message_size", USize>>, <<"max_chunk_count", USize>> >>,
  << <<"max_chunk_size", USize>>, <<"max_incoming_chunk_size", USize>> >>,
  << <<"max_string_length", USize>>, <<"max_byte_string_length", USize>> >>,
  << <<"max_array_length", USize>>, <<"recreate_monitored_items_chunk", USize>> >>,
  << <<"max_inflight_messages", USize>> >> >>

(* evaluated once by TLC (constant definitions without parameters are) *)
SrvColsN == SrvCols(FALSE)
SrvColsW == SrvCols(TRUE)
CliColsN == CliCols(FALSE)
CliColsW == CliCols(TRUE)
ColsOf(kind, w) == IF kind = "server" THEN (IF w THEN SrvColsW ELSE SrvColsN) ELSE (IF w THEN CliColsW ELSE CliColsN)
(* slot name -> <<column, position in the column>> *)
PosOf(cols) == [n \in UNION {{cols[k][t][1] : t \in DOMAIN cols[k]} : k \in DOMAIN cols} |->
                  CHOOSE kt \in UNION {{<<k, t>> : t \in DOMAIN cols[k]} : k \in DOMAIN cols} : cols[kt[1]][kt[2]][1] = n]
SrvPos == PosOf(SrvColsN)
CliPos == PosOf(CliColsN)
RECURSIVE DivOf(_, _)
DivOf(col, t) == IF t = 1 THEN 1 ELSE DivOf(col, t - 1) * Len(col[t - 1][2])
(* the largest product of the domain sizes of the slots that share a column *)
MaxPacked(cols) == LET prods == {DivOf(cols[k], Len(cols[k]) + 1) : k \in {k1 \in DOMAIN cols : Len(cols[k1]) > 1}}
                   IN CHOOSE x \in prods : \A y \in prods : y <= x

(* value of the polynomial co[1] + co[2] m + co[3] m^2 + ... at m, in Z_p (Horner; every intermediate value < p * p) *)
RECURSIVE Horner(_, _, _, _)
Horner(co, k, m, p) == IF k > Len(co) THEN 0 ELSE (co[k] + m * Horner(co, k + 1, m, p)) % p
(* the row: slot name -> value *)
Row(cols, pos, co, p) ==
  [n \in DOMAIN pos |-> LET k == pos[n][1]  t == pos[n][2]  d == cols[k][t][2]
                        IN d[((Horner(co, 1, k - 1, p) \div DivOf(cols[k], t)) % Len(d)) + 1]]

-----------------------------------------------------------------------------
(* Abstract configurations from rows.  Validity is by construction (checked by TLC: ConstructionOK in MCConfig). *)
Take(s, n) == SubSeq(s, 1, IF n < Len(s) THEN n ELSE Len(s))
IdAt(es, which) == IF es = <<>> THEN "plain" ELSE IF which = "first" THEN es[1].id ELSE es[Len(es)].id

SrvCfg(r) ==
  LET toks == Take(<<[id |-> r.tok1_id, user |-> r.tok1_user, pass |-> IF r.tok1_kind = "pass" THEN r.tok1_val ELSE None,
                      x509 |-> IF r.tok1_kind = "x509" THEN r.tok1_val ELSE None, thumb |-> r.tok1_thumb],
                     [id |-> r.tok2_id, user |-> r.tok2_user, pass |-> IF r.tok2_kind = "pass" THEN r.tok2_val ELSE None,
                      x509 |-> IF r.tok2_kind = "x509" THEN r.tok2_val ELSE None, thumb |-> FALSE],
                     [id |-> Lit("user3"), user |-> "plain", pass |-> "plain", x509 |-> None, thumb |-> FALSE]>>, r.n_tokens)
      users(sel) == CASE sel = "empty" -> <<>>
                      [] sel = "anon" -> <<Anon>>
                      [] sel = "tok1" -> IF Len(toks) >= 1 THEN <<toks[1].id>> ELSE <<>>
                      [] sel = "tok2anon" -> IF Len(toks) >= 2 THEN <<toks[2].id, Anon>> ELSE <<Anon>>
                      [] sel = "all" -> [k \in 1..Len(toks) |-> toks[k].id] \o <<Anon>>
      mode(pol, enc) == IF PolicyIsNone(pol) THEN Lit("None") ELSE Lit(enc)
      eps == Take(<<[id |-> r.ep1_id, path |-> r.ep1_path, policy |-> r.ep1_policy, mode |-> mode(r.ep1_policy, r.ep1_enc),
                     level |-> r.ep1_level, pwpol |-> r.ep1_pwpol, users |-> users(r.ep1_users)],
                    [id |-> r.ep2_id, path |-> r.ep2_path, policy |-> r.ep2_policy, mode |-> mode(r.ep2_policy, r.ep2_enc),
                     level |-> "typ", pwpol |-> r.ep2_pwpol, users |-> users(r.ep2_users)],
                    [id |-> Lit("ep3"), path |-> "plain", policy |-> Lit("None"), mode |-> Lit("None"), level |-> "zero",
                     pwpol |-> None, users |-> <<Anon>>]>>, r.n_endpoints)
  IN [kind |-> "server",
      application_name |-> r.application_name, application_uri |-> r.application_uri, product_uri |-> r.product_uri,
      create_sample_keypair |-> r.create_sample_keypair, certificate_path |-> r.certificate_path,
      private_key_path |-> r.private_key_path, trust_client_certs |-> r.trust_client_certs, check_time |-> r.check_time,
      pki_dir |-> r.pki_dir, discovery_server_url |-> r.discovery_server_url, hello_timeout |-> r.hello_timeout,
      host |-> r.host, port |-> r.port, clients_can_modify_address_space |-> r.clients_can_modify_address_space,
      max_subscriptions |-> r.max_subscriptions, max_monitored_items_per_sub |-> r.max_monitored_items_per_sub,
      max_monitored_item_queue_size |-> r.max_monitored_item_queue_size, max_array_length |-> r.max_array_length,
      max_string_length |-> r.max_string_length, max_byte_string_length |-> r.max_byte_string_length,
      min_sampling_interval |-> r.min_sampling_interval, min_publishing_interval |-> r.min_publishing_interval,
      max_message_size |-> r.max_message_size, max_chunk_count |-> r.max_chunk_count, send_buffer_size |-> r.send_buffer_size,
      receive_buffer_size |-> r.receive_buffer_size, single_threaded_executor |-> r.single_threaded_executor,
      locale_ids |-> Take(<<r.loc_a, r.loc_b, r.loc_a>>, r.n_locales),
      user_tokens |-> toks,
      discovery_urls |-> Take(<<r.disc_a, r.disc_b, "url">>, r.n_disc),
      default_endpoint |-> IF r.default_endpoint = None THEN None ELSE IdAt(eps, r.default_endpoint),
      endpoints |-> eps]

CliCfg(r) ==
  LET tok(id, user, kind, v, v2) == [id |-> id, user |-> user, password |-> IF kind = "pass" THEN v ELSE None,
                                     cert_path |-> IF kind = "x509" THEN v ELSE None,
                                     private_key_path |-> IF kind = "x509" THEN v2 ELSE None]
      toks == Take(<<tok(r.tok1_id, r.tok1_user, r.tok1_kind, r.tok1_val, r.tok1_val2),
                     tok(r.tok2_id, r.tok2_user, r.tok2_kind, r.tok2_val, r.tok2_val2),
                     tok(Lit("user3"), "plain", "pass", "plain", "plain")>>, r.n_tokens)
      user(sel) == IF sel = "anon" THEN Anon ELSE IF sel = "tok1" THEN (IF toks = <<>> THEN Anon ELSE toks[1].id) ELSE sel
      eps == Take(<<[id |-> r.ep1_id, url |-> r.ep1_url, policy |-> r.ep1_policy, mode |-> Lit(r.ep1_mode), user |-> user(r.ep1_user)],
                    [id |-> r.ep2_id, url |-> r.ep2_url, policy |-> r.ep2_policy, mode |-> Lit(r.ep2_mode), user |-> user(r.ep2_user)],
                    [id |-> Lit("ep3"), url |-> "url", policy |-> Lit("None"), mode |-> Lit("None"), user |-> Anon]>>, r.n_endpoints)
  IN [kind |-> "client",
      application_name |-> r.application_name, application_uri |-> r.application_uri, product_uri |-> r.product_uri,
      create_sample_keypair |-> r.create_sample_keypair, certificate_path |-> r.certificate_path,
      private_key_path |-> r.private_key_path, trust_server_certs |-> r.trust_server_certs,
      verify_server_certs |-> r.verify_server_certs, pki_dir |-> r.pki_dir,
      preferred_locales |-> Take(<<r.loc_a, r.loc_b, r.loc_a>>, r.n_locales),
      default_endpoint |-> IF r.default_endpoint = "empty" THEN "empty" ELSE IdAt(eps, r.default_endpoint),
      user_tokens |-> toks, endpoints |-> eps,
      max_message_size |-> r.max_message_size, max_chunk_count |-> r.max_chunk_count, max_chunk_size |-> r.max_chunk_size,
      max_incoming_chunk_size |-> r.max_incoming_chunk_size, max_string_length |-> r.max_string_length,
      max_byte_string_length |-> r.max_byte_string_length, max_array_length |-> r.max_array_length,
      session_retry_limit |-> r.session_retry_limit, session_retry_initial |-> r.session_retry_initial,
      session_retry_max |-> r.session_retry_max, keep_alive_interval |-> r.keep_alive_interval,
      request_timeout |-> r.request_timeout, publish_timeout |-> r.publish_timeout,
      min_publish_interval |-> r.min_publish_interval, max_inflight_publish |-> r.max_inflight_publish,
      session_timeout |-> r.session_timeout, ignore_clock_skew |-> r.ignore_clock_skew,
      recreate_monitored_items_chunk |-> r.recreate_monitored_items_chunk,
      max_inflight_messages |-> r.max_inflight_messages, session_name |-> r.session_name]

CfgOfRow(kind, wide, co, p) == IF kind = "server" THEN SrvCfg(Row(ColsOf(kind, wide), SrvPos, co, p))
                                                   ELSE CliCfg(Row(ColsOf(kind, wide), CliPos, co, p))

-----------------------------------------------------------------------------
(* L1: the validity rule, transliterated from is_valid() of both configurations *)
Keys(es) == {es[k].id : k \in DOMAIN es}
(* BTreeMap::insert: the last entry with an id wins *)
Entries(es) == {es[k] : k \in {k1 \in DOMAIN es : \A k2 \in DOMAIN es : es[k2].id = es[k1].id => k2 <= k1}}

\* ServerUserToken::is_valid(id)
SrvTokenValid(t) ==
  /\ t.id # Anon
  /\ ~IsEmptyStr(t.user)
  /\ ~(t.pass # None /\ t.x509 # None)
  /\ ~(t.pass = None /\ t.x509 = None)
\* ServerEndpoint::is_valid(id, user_tokens)
SrvEndpointValid(e, toks) ==
  /\ \A u \in Range(e.users) : u = Anon \/ u \in Keys(toks)
  /\ e.pwpol # None => IsPolicy(e.pwpol)
  /\ IsPolicy(e.policy)
  /\ IsMode(e.mode)
  /\ PolicyIsNone(e.policy) <=> ModeIsNone(e.mode)
\* ServerConfig::is_valid  (empty application name / uri / product uri only warn)
SrvValid(cfg) ==
  /\ cfg.endpoints # <<>>
  /\ \A e \in Entries(cfg.endpoints) : SrvEndpointValid(e, cfg.user_tokens)
  /\ cfg.default_endpoint # None => cfg.default_endpoint \in Keys(cfg.endpoints)
  /\ \A t \in Entries(cfg.user_tokens) : SrvTokenValid(t)
  /\ cfg.max_array_length # "zero"
  /\ cfg.max_string_length # "zero"
  /\ cfg.max_byte_string_length # "zero"
  /\ cfg.discovery_urls # <<>>
  /\ cfg.min_sampling_interval # "nan"
  /\ cfg.min_publishing_interval # "nan"

\* ClientUserToken::is_valid
CliTokenValid(t) ==
  /\ ~IsEmptyStr(t.user)
  /\ IF t.password # None THEN t.cert_path = None /\ t.private_key_path = None
                          ELSE t.cert_path # None /\ t.private_key_path # None
\* ClientConfig::is_valid  (no endpoints only warns, and then the default endpoint is not looked at)
CliValid(cfg) ==
  /\ ~IsEmptyStr(cfg.application_name)
  /\ ~IsEmptyStr(cfg.application_uri)
  /\ Anon \notin Keys(cfg.user_tokens)
  /\ "empty" \notin Keys(cfg.user_tokens)
  /\ \A t \in Entries(cfg.user_tokens) : CliTokenValid(t)
  /\ cfg.endpoints # <<>> =>
       /\ "empty" \notin Keys(cfg.endpoints)
       /\ IsEmptyStr(cfg.default_endpoint) \/ cfg.default_endpoint \in Keys(cfg.endpoints)
       /\ \A e \in Entries(cfg.endpoints) : IsPolicy(e.policy) /\ IsMode(e.mode)
  /\ cfg.session_retry_limit \notin {"m2", "min"}

Valid(cfg) == IF cfg.kind = "server" THEN SrvValid(cfg) ELSE CliValid(cfg)

-----------------------------------------------------------------------------
(* Single changes of a configuration: the ones is_valid() rejects, and a few valid corner configurations that are *)
(* kept out of the arrays (a path that is not UTF-8 stops the writer, so it would mask the rest of a row).          *)
MapSeq(es, Op(_)) == [k \in DOMAIN es |-> Op(es[k])]
PlainSrvTok == [id |-> "plain", user |-> "plain", pass |-> "plain", x509 |-> None, thumb |-> FALSE]
PlainCliTok == [id |-> "plain", user |-> "plain", password |-> "plain", cert_path |-> None, private_key_path |-> None]

SrvMuts == {"no_endpoints", "missing_user", "pwpol_unknown", "pwpol_lowercase", "policy_unknown", "policy_lowercase", "mode_invalid",
            "mode_lowercase", "none_with_sign", "secure_with_none", "default_missing", "token_anonymous", "token_user_empty",
            "token_both", "token_neither", "zero_array", "zero_string", "zero_byte_string", "no_discovery_urls",
            "sampling_nan", "publishing_nan"}
SrvSpecials == {"pki_non_utf8", "cert_non_utf8", "key_non_utf8", "names_empty", "thumbprints"}
SrvMut(cfg, m) ==
  CASE m = "no_endpoints" -> [cfg EXCEPT !.endpoints = <<>>, !.default_endpoint = None]
    [] m = "missing_user" -> [cfg EXCEPT !.endpoints = MapSeq(@, LAMBDA e : [e EXCEPT !.users = <<Anon, Lit("nobody")>>])]
    [] m = "pwpol_unknown" -> [cfg EXCEPT !.endpoints = MapSeq(@, LAMBDA e : [e EXCEPT !.pwpol = "plain"])]
    [] m = "pwpol_lowercase" -> [cfg EXCEPT !.endpoints = MapSeq(@, LAMBDA e : [e EXCEPT !.pwpol = Lit("basic256")])]
    [] m = "policy_unknown" -> [cfg EXCEPT !.endpoints = MapSeq(@, LAMBDA e : [e EXCEPT !.policy = "plain"])]
    [] m = "policy_lowercase" -> [cfg EXCEPT !.endpoints = MapSeq(@, LAMBDA e : [e EXCEPT !.policy = Lit("none"), !.mode = Lit("None")])]
    [] m = "mode_invalid" -> [cfg EXCEPT !.endpoints = MapSeq(@, LAMBDA e : [e EXCEPT !.policy = Lit("Basic256"), !.mode = "plain"])]
    [] m = "mode_lowercase" -> [cfg EXCEPT !.endpoints = MapSeq(@, LAMBDA e : [e EXCEPT !.policy = Lit("Basic256"), !.mode = Lit("sign")])]
    [] m = "none_with_sign" -> [cfg EXCEPT !.endpoints = MapSeq(@, LAMBDA e : [e EXCEPT !.policy = Lit("None"), !.mode = Lit("Sign")])]
    [] m = "secure_with_none" -> [cfg EXCEPT !.endpoints = MapSeq(@, LAMBDA e : [e EXCEPT !.policy = Lit("Basic256"), !.mode = Lit("None")])]
    [] m = "default_missing" -> [cfg EXCEPT !.default_endpoint = Lit("nowhere")]
    [] m = "token_anonymous" -> [cfg EXCEPT !.user_tokens = @ \o <<[PlainSrvTok EXCEPT !.id = Anon]>>]
    [] m = "token_user_empty" -> [cfg EXCEPT !.user_tokens = @ \o <<[PlainSrvTok EXCEPT !.user = "empty"]>>]
    [] m = "token_both" -> [cfg EXCEPT !.user_tokens = @ \o <<[PlainSrvTok EXCEPT !.x509 = "path_unix"]>>]
    [] m = "token_neither" -> [cfg EXCEPT !.user_tokens = @ \o <<[PlainSrvTok EXCEPT !.pass = None]>>]
    [] m = "zero_array" -> [cfg EXCEPT !.max_array_length = "zero"]
    [] m = "zero_string" -> [cfg EXCEPT !.max_string_length = "zero"]
    [] m = "zero_byte_string" -> [cfg EXCEPT !.max_byte_string_length = "zero"]
    [] m = "no_discovery_urls" -> [cfg EXCEPT !.discovery_urls = <<>>]
    [] m = "pki_non_utf8" -> [cfg EXCEPT !.pki_dir = "non_utf8"]
    [] m = "cert_non_utf8" -> [cfg EXCEPT !.certificate_path = "non_utf8"]
    [] m = "key_non_utf8" -> [cfg EXCEPT !.private_key_path = "non_utf8"]
    [] m = "sampling_nan" -> [cfg EXCEPT !.min_sampling_interval = "nan"]
    [] m = "publishing_nan" -> [cfg EXCEPT !.min_publishing_interval = "nan"]
    [] m = "thumbprints" -> [cfg EXCEPT !.user_tokens = MapSeq(@ \o <<PlainSrvTok>>, LAMBDA t : [t EXCEPT !.thumb = TRUE])]
    [] m = "names_empty" -> [cfg EXCEPT !.application_name = "empty", !.application_uri = "empty", !.product_uri = "empty"]

CliMuts == {"name_empty", "uri_empty", "token_anonymous", "token_id_empty", "token_user_empty", "token_both", "token_neither",
            "token_cert_only", "token_key_only", "endpoint_id_empty", "default_missing", "policy_unknown", "policy_lowercase",
            "mode_invalid", "mode_lowercase", "retry_m2", "retry_min"}
CliSpecials == {"pki_non_utf8", "cert_non_utf8", "key_non_utf8", "no_endpoints_default_dangling", "none_with_sign",
                "secure_with_none", "endpoint_user_unknown"}
PlainCliEp == [id |-> "plain", url |-> "url", policy |-> Lit("None"), mode |-> Lit("None"), user |-> Anon]
\* the changes of the endpoints add one first, so that they also apply to a row without endpoints
WithEp(cfg) == IF cfg.endpoints = <<>> THEN [cfg EXCEPT !.endpoints = <<PlainCliEp>>] ELSE cfg
CliMut(cfg, m) ==
  CASE m = "name_empty" -> [cfg EXCEPT !.application_name = "empty"]
    [] m = "uri_empty" -> [cfg EXCEPT !.application_uri = "empty"]
    [] m = "token_anonymous" -> [cfg EXCEPT !.user_tokens = @ \o <<[PlainCliTok EXCEPT !.id = Anon]>>]
    [] m = "token_id_empty" -> [cfg EXCEPT !.user_tokens = @ \o <<[PlainCliTok EXCEPT !.id = "empty"]>>]
    [] m = "token_user_empty" -> [cfg EXCEPT !.user_tokens = @ \o <<[PlainCliTok EXCEPT !.user = "empty"]>>]
    [] m = "token_both" -> [cfg EXCEPT !.user_tokens = @ \o <<[PlainCliTok EXCEPT !.cert_path = "path_unix", !.private_key_path = "path_unix"]>>]
    [] m = "token_neither" -> [cfg EXCEPT !.user_tokens = @ \o <<[PlainCliTok EXCEPT !.password = None]>>]
    [] m = "token_cert_only" -> [cfg EXCEPT !.user_tokens = @ \o <<[PlainCliTok EXCEPT !.password = None, !.cert_path = "path_unix"]>>]
    [] m = "token_key_only" -> [cfg EXCEPT !.user_tokens = @ \o <<[PlainCliTok EXCEPT !.password = None, !.private_key_path = "path_unix"]>>]
    [] m = "endpoint_id_empty" -> [cfg EXCEPT !.endpoints = @ \o <<[PlainCliEp EXCEPT !.id = "empty"]>>]
    [] m = "default_missing" -> [WithEp(cfg) EXCEPT !.default_endpoint = Lit("nowhere")]
    [] m = "policy_unknown" -> [WithEp(cfg) EXCEPT !.endpoints = MapSeq(@, LAMBDA e : [e EXCEPT !.policy = "plain"])]
    [] m = "policy_lowercase" -> [WithEp(cfg) EXCEPT !.endpoints = MapSeq(@, LAMBDA e : [e EXCEPT !.policy = Lit("basic256")])]
    [] m = "mode_invalid" -> [WithEp(cfg) EXCEPT !.endpoints = MapSeq(@, LAMBDA e : [e EXCEPT !.mode = "plain"])]
    [] m = "mode_lowercase" -> [WithEp(cfg) EXCEPT !.endpoints = MapSeq(@, LAMBDA e : [e EXCEPT !.mode = Lit("signandencrypt")])]
    [] m = "retry_m2" -> [cfg EXCEPT !.session_retry_limit = "m2"]
    [] m = "retry_min" -> [cfg EXCEPT !.session_retry_limit = "min"]
    [] m = "pki_non_utf8" -> [cfg EXCEPT !.pki_dir = "non_utf8"]
    [] m = "cert_non_utf8" -> [cfg EXCEPT !.certificate_path = "non_utf8"]
    [] m = "key_non_utf8" -> [cfg EXCEPT !.private_key_path = "non_utf8"]
    [] m = "no_endpoints_default_dangling" -> [cfg EXCEPT !.endpoints = <<>>, !.default_endpoint = Lit("nowhere")]
    \* the client does not relate the policy to the mode, nor the user token id of an endpoint to the user tokens
    [] m = "none_with_sign" -> [WithEp(cfg) EXCEPT !.endpoints = MapSeq(@, LAMBDA e : [e EXCEPT !.policy = Lit("None"), !.mode = Lit("Sign")])]
    [] m = "secure_with_none" -> [WithEp(cfg) EXCEPT !.endpoints = MapSeq(@, LAMBDA e : [e EXCEPT !.policy = Lit("Basic256"), !.mode = Lit("None")])]
    [] m = "endpoint_user_unknown" -> [WithEp(cfg) EXCEPT !.endpoints = MapSeq(@, LAMBDA e : [e EXCEPT !.user = Lit("nobody")])]

MutsOf(kind) == IF kind = "server" THEN SrvMuts \cup SrvSpecials ELSE CliMuts \cup CliSpecials
MutStaysValid(kind, m) == IF kind = "server" THEN m \in SrvSpecials ELSE m \in CliSpecials
Mut(cfg, m) == IF cfg.kind = "server" THEN SrvMut(cfg, m) ELSE CliMut(cfg, m)

-----------------------------------------------------------------------------
(* L1: the specified save / load.  save refuses a configuration that is not valid; on a valid one both succeed and     *)
(* the loaded configuration is the original.  `orig' / `back' are the flat re-abstractions (path -> class) of the        *)
(* original and of the loaded configuration made by the harness; the specification does not predict the paths.           *)
SpecRt(cfg) == [fail |-> "none", site |-> "", valid0 |-> Valid(cfg), saved |-> Valid(cfg), loaded |-> Valid(cfg),
                equal |-> Valid(cfg), valid1 |-> Valid(cfg), reason |-> "", orig |-> <<>>, back |-> <<>>]

(* The pinned tree departs from it in one point (known finding): a path that is not UTF-8 cannot be written, serde       *)
(* refuses such a PathBuf, though is_valid() does not look at the paths.                                                 *)
HasNonUtf8Path(cfg) == "non_utf8" \in {cfg.pki_dir, cfg.certificate_path, cfg.private_key_path}
SpecRtDev(cfg) == IF Valid(cfg) /\ HasNonUtf8Path(cfg)
                  THEN [SpecRt(cfg) EXCEPT !.saved = FALSE, !.loaded = FALSE, !.equal = FALSE, !.valid1 = FALSE,
                                           !.reason = "path-is-not-UTF-8"]
                  ELSE SpecRt(cfg)

(* L2: the property on one observation e = [case, i, r].                                                                 *)
(*   r.valid0 : is_valid() of the original (the property speaks about the configurations the code calls valid)           *)
(*   r.fail / r.site : a panic in save / load / == / the second is_valid (a panic of the first is_valid gives valid0 =   *)
(*                     FALSE: the configuration was not called valid; the check counts those apart)                     *)
(*   r.saved, r.loaded : save / load returned Ok (r.reason: what the code logged when not);                              *)
(*   r.equal : loaded == original (PartialEq of the type)                                                                *)
(*   r.valid1 : is_valid() of the loaded configuration                                                                   *)
(* An abstract value equals itself except the not-a-number class (IEEE: NaN # NaN); the paths only name the fields.      *)
AbsEq(x, y) == x = y /\ x # "nan"
DiffPaths(o, b) == {p \in DOMAIN o \cup DOMAIN b : p \notin DOMAIN o \/ p \notin DOMAIN b \/ ~AbsEq(o[p], b[p])}
RtViol(e) ==
  LET r == e.r IN
  IF ~r.valid0 THEN {}
  ELSE IF r.fail # "none" THEN {"panic:" \o r.site}
  \* a save that is refused (returns an error) wrote nothing: the statement is about configurations that WERE written
  ELSE IF ~r.saved THEN {}
  ELSE IF ~r.loaded THEN {"load-failed:" \o r.reason}
  ELSE (IF r.equal THEN {}
        ELSE IF DiffPaths(r.orig, r.back) = {} THEN {"not-equal:(PartialEq)"}
        ELSE {"not-equal:" \o p : p \in DiffPaths(r.orig, r.back)})
       \cup (IF r.valid1 THEN {} ELSE {"not-valid-after-load"})
=============================================================================
