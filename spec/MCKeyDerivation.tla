--------------------------- MODULE MCKeyDerivation ---------------------------
(* one TLC state per (policy, client nonce, server nonce); the specified derivation must satisfy the property *)
EXTENDS KeyDerivation
VARIABLE c
Init == c \in Cases
Next == UNCHANGED c
Spec == Init /\ [][Next]_c
DesignOK == Holds(c)
\* the exchange sequences only (used to show that the deviation DevAppendLocalNonce violates DesignOK)
InitSeq == c \in SeqCases
SpecSeq == InitSeq /\ [][Next]_c
=============================================================================
