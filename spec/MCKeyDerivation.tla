--------------------------- MODULE MCKeyDerivation ---------------------------
(* one TLC state per (policy, client nonce, server nonce); the specified derivation must satisfy the property *)
EXTENDS KeyDerivation
VARIABLE c
Init == c \in Cases
Next == UNCHANGED c
Spec == Init /\ [][Next]_c
DesignOK == DesignHolds(c)
=============================================================================
