---------------------------- MODULE Subscription ----------------------------
(***************************************************************************)
(* L1, implementation-shaped specification of the server side              *)
(* subscriptions of ONE session of locka99/opcua:                          *)
(*   server/subscriptions/{subscriptions,subscription,monitored_item}.rs   *)
(*   server/services/{subscription,monitored_item}.rs                      *)
(*                                                                         *)
(* One action per call made under the session write lock.  Every action    *)
(* produces the observation record (`evt') that the conformance harness    *)
(* produces for the same call on the real code, so that one set of         *)
(* monitors (SubsProps.tla) judges both the specification and the          *)
(* implementation.                                                         *)
(*                                                                         *)
(* Dev* constants switch on departures of the pinned tree from the         *)
(* corrected design (kept so that TLC can exhibit the counterexample that  *)
(* each repair removes).                                                   *)
(***************************************************************************)
EXTENDS Integers, Sequences, FiniteSets, SequencesExt, TLC

CONSTANTS
  SubIds,            \* model subscription ids (small naturals)
  ItemIds,           \* model monitored item ids, per subscription
  Nodes,             \* variable nodes
  Vals,              \* values a node can take (small naturals)
  ReqTimeout,        \* publish request timeout in clock units
  DevKeepAlive15,    \* row 15 guard tests notifications_available instead of its negation
  DevNoLtReset,      \* lifetime counter not reset while publish requests are being served
  DevDropOnNone,     \* collected notification discarded when the action is None
  DevPrioAsc,        \* lowest priority served first
  DevExpirePanic,    \* row 27 with a freshly collected notification panics
  DevNegPanic,       \* a clock that moves backwards / a request timestamp in the future panics
  DevShrinkPanic     \* shrinking a monitored item queue that holds more entries than the new size panics

NoVal == -1

VARIABLES
  subs,      \* function: existing subscription id -> subscription record
  reqs,      \* queue of publish requests, oldest first: [id, ts, hint, res]
  retx,      \* retransmission queue: set of [sub, seq, msg]
  respq,     \* publish_response_queue: responses made and not yet taken by the timer task
  nodeVal,   \* node -> value
  now,       \* clock, integer units (may move backwards)
  evt        \* observation record of the last action

vars == <<subs, reqs, retx, respq, nodeVal, now, evt>>

-----------------------------------------------------------------------------
(* Monitored item (monitored_item.rs)                                      *)

\* enqueue_notification_message
Enq(it, v) ==
  LET full == Len(it.q) = it.qsize
      q0   == IF ~full THEN it.q ELSE IF it.dold THEN Tail(it.q) ELSE Front(it.q)
      ovf  == full /\ it.qsize > 1
  IN [it EXCEPT !.q = Append(q0, <<v, IF ovf THEN 1 ELSE 0>>)]

\* check_value / check_for_data_change with no filter
CheckValue(it, resend, t) ==
  LET cur == nodeVal[it.node]
      chg == resend \/ it.last = NoVal \/ cur # it.last
      it1 == [it EXCEPT !.lastS = t]
  IN [it |-> IF chg THEN [Enq(it1, cur) EXCEPT !.last = cur] ELSE it1, chg |-> chg]

\* MonitoredItem::tick -> "report" | "changed" | "none"
\* A requested sampling interval of 0 is revised to the server minimum (0.1 clock units): with integer
\* clocks the item samples when at least one unit has passed -- or when the clock moved backwards.
ItemTick(it, elapsed, resend, t) ==
  IF it.mode = "Disabled" THEN [it |-> it, res |-> "none"]
  ELSE LET need  == IF it.samp = 0 THEN 1 ELSE it.samp
           check == resend \/ (it.samp < 0 /\ elapsed) \/ (it.samp >= 0 /\ (t - it.lastS >= need \/ t < it.lastS)) IN
       IF ~check THEN [it |-> it, res |-> "none"]
       ELSE LET first == it.last = NoVal
                cv == CheckValue(it, resend, t)
                changed == first \/ cv.chg \/ cv.it.q # <<>>
            IN [it |-> cv.it,
                res |-> IF ~changed THEN "none"
                        ELSE IF it.mode = "Reporting" THEN "report" ELSE "changed"]

\* tick_monitored_items: returns the items afterwards and the collected values
\* vals = sequence (ordered by item id) of <<item, <<<<v, ovf>>, ...>>>>
RECURSIVE TickItemsRec(_, _, _, _, _, _)
TickItemsRec(items, order, elapsed, resend, acc, t) ==
  IF order = <<>> THEN [items |-> items, vals |-> acc]
  ELSE LET i == Head(order)
           r == ItemTick(items[i], elapsed, resend, t)
           take == r.res = "report" /\ elapsed /\ r.it.q # <<>>
           it2 == IF take THEN [r.it EXCEPT !.q = <<>>] ELSE r.it
           acc2 == IF take THEN Append(acc, <<i, r.it.q>>) ELSE acc
       IN TickItemsRec([items EXCEPT ![i] = it2], Tail(order), elapsed, resend, acc2, t)

TickItems(items, elapsed, resend, t) ==
  TickItemsRec(items, SetToSortSeq(DOMAIN items, <), elapsed, resend, <<>>, t)

-----------------------------------------------------------------------------
(* Subscription::update_state -- OPC UA Part 4, 5.13.1.2, rows in code order *)

Update(s0, reason, p) ==
  LET en == s0.en
      s == s0
  IN
  IF s.st \in {"Normal", "Late", "KeepAlive"} /\ s.lt = 1
  THEN [s |-> [s EXCEPT !.st = "Closed"], act |-> "Expired", row |-> 27]
  ELSE
  CASE s.st = "Creating" ->
         [s |-> [s EXCEPT !.st = "Normal", !.first = FALSE], act |-> "Created", row |-> 3]
    [] s.st = "Normal" ->
         IF reason = "recv" /\ (~en \/ (en /\ ~p.more))
         THEN [s |-> s, act |-> "None", row |-> 4]
         ELSE IF reason = "recv" /\ en /\ p.more
         THEN [s |-> [s EXCEPT !.lt = s.maxLT, !.first = TRUE], act |-> "Notifs", row |-> 5]
         ELSE IF p.expired /\ p.queued /\ en /\ p.avail
         THEN [s |-> [s EXCEPT !.lt = s.maxLT - 1, !.first = TRUE], act |-> "Notifs", row |-> 6]
         ELSE IF p.expired /\ p.queued /\ ~s.first /\ (~en \/ (en /\ ~p.avail))
         THEN [s |-> [s EXCEPT !.lt = s.maxLT - 1, !.first = TRUE], act |-> "KeepAlive", row |-> 7]
         ELSE IF p.expired /\ ~p.queued /\ (~s.first \/ (en /\ p.avail))
         THEN [s |-> [s EXCEPT !.lt = s.lt - 1, !.st = "Late"], act |-> "None", row |-> 8]
         ELSE IF p.expired /\ s.first /\ (~en \/ (en /\ ~p.avail))
         THEN [s |-> [s EXCEPT !.lt = s.lt - 1, !.ka = s.maxKA, !.st = "KeepAlive"], act |-> "None", row |-> 9]
         ELSE [s |-> s, act |-> "None", row |-> 0]
    [] s.st = "Late" ->
         IF reason = "recv" /\ en /\ (p.avail \/ p.more)
         THEN [s |-> [s EXCEPT !.lt = s.maxLT, !.st = "Normal", !.first = TRUE], act |-> "Notifs", row |-> 10]
         ELSE IF reason = "recv" /\ (~en \/ (en /\ ~p.avail /\ ~p.more))
         THEN [s |-> [s EXCEPT !.lt = s.maxLT, !.st = "KeepAlive", !.first = TRUE], act |-> "KeepAlive", row |-> 11]
         ELSE IF p.expired
         THEN [s |-> [s EXCEPT !.lt = s.lt - 1], act |-> "None", row |-> 12]
         ELSE [s |-> s, act |-> "None", row |-> 0]
    [] s.st = "KeepAlive" ->
         IF reason = "recv"
         THEN [s |-> s, act |-> "None", row |-> 13]
         ELSE IF p.expired /\ en /\ p.avail /\ p.queued
         THEN [s |-> [s EXCEPT !.first = TRUE, !.st = "Normal"], act |-> "Notifs", row |-> 14]
         ELSE IF p.expired /\ p.queued /\ s.ka = 1 /\
                 (IF DevKeepAlive15 THEN (~en \/ (en /\ p.avail)) ELSE (~en \/ (en /\ ~p.avail)))
         THEN [s |-> [s EXCEPT !.lt = s.lt - 1, !.ka = s.maxKA], act |-> "KeepAlive", row |-> 15]
         ELSE IF p.expired /\ s.ka > 1 /\ (~en \/ (en /\ ~p.avail))
         THEN [s |-> [s EXCEPT !.lt = s.lt - 1, !.ka = s.ka - 1], act |-> "None", row |-> 16]
         ELSE IF p.expired /\ ~p.queued /\ (s.ka = 1 \/ (s.ka > 1 /\ en /\ p.avail))
         THEN [s |-> [s EXCEPT !.lt = s.lt - 1, !.st = "Late"], act |-> "None", row |-> 17]
         ELSE [s |-> s, act |-> "None", row |-> 0]
    [] OTHER -> [s |-> s, act |-> "None", row |-> 0]

\* Subscription::tick (tick_monitored_items -> update_state -> handle_state_result).
\* Returns [s, fail] ; fail = TRUE models a panic of the real code.
SubTick(s, reason, queued, t) ==
  LET isTimer == reason = "timer"
      elapsed == isTimer /\ (s.st = "Creating" \/ t - s.lastEl >= s.itv)
      \* test_and_set_publishing_interval_elapsed: a clock that moved backwards re-anchors the interval
      neg     == isTimer /\ s.st # "Creating" /\ t < s.lastEl
      lastEl1 == IF isTimer /\ s.st # "Creating" /\ (t - s.lastEl >= s.itv \/ neg) THEN t ELSE s.lastEl
      ti  == IF s.st \in {"Closed", "Creating"} THEN [items |-> s.items, vals |-> <<>>]
             ELSE TickItems(s.items, elapsed, s.resend, t)
      hasN == ti.vals # <<>>
      notif == [k |-> "DATA", seq |-> s.seq, vals |-> ti.vals]
      seq1 == IF hasN THEN s.seq + 1 ELSE s.seq
      p   == [avail |-> (s.notifs # <<>>) \/ hasN, more |-> Len(s.notifs) > 1,
              queued |-> queued, expired |-> elapsed]
      \* the lifetime counter counts consecutive publishing cycles with NO publish request queued:
      \* a queued request restarts it (Subscription::tick, before update_state)
      lt1 == IF ~DevNoLtReset /\ queued THEN s.maxLT ELSE s.lt
      s0  == [s EXCEPT !.items = ti.items, !.resend = FALSE, !.lastEl = lastEl1, !.seq = seq1, !.lt = lt1]
      r   == IF p.avail \/ elapsed \/ queued THEN Update(s0, reason, p)
             ELSE [s |-> s0, act |-> "None", row |-> 0]
      u   == r.s
  IN
  IF neg /\ DevNegPanic THEN [s |-> s, fail |-> TRUE] ELSE
  CASE r.act = "None" ->
         IF hasN /\ (DevDropOnNone \/ ~u.en)
         THEN [s |-> [u EXCEPT !.seq = notif.seq], fail |-> FALSE]              \* discarded, number re-used
         ELSE IF hasN THEN [s |-> [u EXCEPT !.notifs = Append(@, notif)], fail |-> FALSE]
         ELSE [s |-> u, fail |-> FALSE]
    [] r.act = "KeepAlive" ->
         LET sq == IF hasN THEN notif.seq ELSE u.seq
         IN [s |-> [u EXCEPT !.notifs = Append(@, [k |-> "KA", seq |-> sq, vals |-> <<>>]), !.seq = sq + 1],
             fail |-> FALSE]
    [] r.act = "Notifs" ->
         [s |-> IF hasN THEN [u EXCEPT !.notifs = Append(@, notif)] ELSE u, fail |-> FALSE]
    [] r.act = "Created" -> [s |-> u, fail |-> FALSE]
    [] r.act = "Expired" ->
         IF hasN /\ DevExpirePanic THEN [s |-> u, fail |-> TRUE]
         ELSE LET sq == IF hasN THEN notif.seq ELSE u.seq
              IN [s |-> [u EXCEPT !.items = <<>>,
                                  !.notifs = Append(@, [k |-> "STATUS", seq |-> sq, vals |-> <<>>]),
                                  !.seq = sq + 1],
                  fail |-> FALSE]

-----------------------------------------------------------------------------
(* Subscriptions::tick                                                     *)

PrioOrder(ss) ==
  SetToSortSeq(DOMAIN ss,
     LAMBDA a, b : IF ss[a].prio = ss[b].prio THEN a < b
                   ELSE IF DevPrioAsc THEN ss[a].prio < ss[b].prio ELSE ss[a].prio > ss[b].prio)

\* the world threaded through one Subscriptions::tick
\* w = [subs, reqs, tx (seq of [sub, req, msg]), fail]
RECURSIVE PairLoop(_, _, _, _)
PairLoop(s, rq, tx, id) ==
  IF rq # <<>> /\ s.notifs # <<>>
  THEN PairLoop([s EXCEPT !.notifs = Tail(@)], Tail(rq),
                Append(tx, [sub |-> id, req |-> Head(rq), msg |-> Head(s.notifs)]), id)
  ELSE [s |-> s, reqs |-> rq, tx |-> tx]

RECURSIVE TickSubs(_, _, _, _)
TickSubs(w, order, reason, t) ==
  IF order = <<>> \/ w.fail THEN w
  ELSE LET id == Head(order)
           r  == SubTick(w.subs[id], reason, w.reqs # <<>>, t)
           pl == PairLoop(r.s, w.reqs, w.tx, id)
           remove == pl.s.st = "Closed" /\ pl.s.notifs = <<>>
           subs2 == IF remove THEN [x \in DOMAIN w.subs \ {id} |-> w.subs[x]]
                    ELSE [w.subs EXCEPT ![id] = pl.s]
       IN IF r.fail THEN [w EXCEPT !.fail = TRUE]
          ELSE TickSubs([subs |-> subs2, reqs |-> pl.reqs, tx |-> pl.tx, fail |-> FALSE],
                        Tail(order), reason, t)

SeqsOf(rt, sub) == SetToSortSeq({e.seq : e \in {x \in rt : x.sub = sub}}, <)

\* transmission queue -> publish responses (oldest first) + retransmission queue
RECURSIVE Drain(_, _, _)
Drain(tx, rt, acc) ==
  IF tx = <<>> THEN [retx |-> rt, out |-> acc]
  ELSE LET e == Head(tx)
           more == \E j \in 2..Len(tx) : tx[j].sub = e.sub
           avail == SeqsOf(rt, e.sub)
           rt2 == {x \in rt : ~(x.sub = e.sub /\ x.seq = e.msg.seq)} \cup {[sub |-> e.sub, seq |-> e.msg.seq, msg |-> e.msg]}
           resp == [req |-> e.req.id, k |-> e.msg.k, sub |-> e.sub, seq |-> e.msg.seq,
                    vals |-> e.msg.vals, more |-> more, avail |-> avail, res |-> e.req.res, code |-> "Good"]
       IN Drain(Tail(tx), rt2, Append(acc, resp))

\* remove_old_unacknowledged_notifications
Evict(rt, ss) ==
  LET live == {x \in rt : x.sub \in DOMAIN ss}
      cap  == Cardinality(DOMAIN ss) * 4
      ord  == SetToSortSeq(live, LAMBDA a, b : a.sub < b.sub \/ (a.sub = b.sub /\ a.seq < b.seq))
      n    == Len(ord)
  IN IF n > cap THEN {ord[i] : i \in (n - cap + 1)..n} ELSE live

\* Subscriptions::tick : returns [subs, reqs, retx, out, fail]
SubsTick(ss, rq, rt, reason, t) ==
  LET w == TickSubs([subs |-> ss, reqs |-> rq, tx |-> <<>>, fail |-> FALSE], PrioOrder(ss), reason, t)
      d == Drain(w.tx, rt, <<>>)
  IN [subs |-> w.subs, reqs |-> w.reqs, retx |-> Evict(d.retx, w.subs), out |-> d.out, fail |-> w.fail]

-----------------------------------------------------------------------------
(* Projection of the state -- what the harness reads back from the real code *)

ProjItem(i, it) == [id |-> i, q |-> it.q, last |-> it.last, qsize |-> it.qsize]
ProjSub(i, s) == [id |-> i, st |-> s.st, ka |-> s.ka, lt |-> s.lt, first |-> s.first, en |-> s.en,
                  nq |-> Len(s.notifs), seq |-> s.seq,
                  items |-> LET o == SetToSortSeq(DOMAIN s.items, <) IN [j \in 1..Len(o) |-> ProjItem(o[j], s.items[o[j]])]]
Proj(ss, rq, rt, rp) ==
  [subs |-> LET o == SetToSortSeq(DOMAIN ss, <) IN [j \in 1..Len(o) |-> ProjSub(o[j], ss[o[j]])],
   reqs |-> [i \in 1..Len(rq) |-> rq[i].id],
   nresp |-> Len(rp),
   retx |-> SetToSortSeq({<<x.sub, x.seq>> : x \in rt},
                         LAMBDA a, b : a[1] < b[1] \/ (a[1] = b[1] /\ a[2] < b[2]))]

-----------------------------------------------------------------------------
(* Actions                                                                 *)

P == Proj(subs', reqs', retx', respq')

Init ==
  /\ subs = <<>>
  /\ reqs = <<>>
  /\ retx = {}
  /\ respq = <<>>
  /\ nodeVal = [n \in Nodes |-> 0]
  /\ now = 0
  /\ evt = [ev |-> "Init"]

Fault(id, code) == [req |-> id, k |-> "FAULT", sub |-> 0, seq |-> 0, vals |-> <<>>, more |-> FALSE,
                    avail |-> <<>>, res |-> <<>>, code |-> code]

\* CreateSubscription (values already revised; C23 covers the revision)
CreateSub(id, ka, lt, en, prio, itv) ==
  /\ id \notin DOMAIN subs
  /\ subs' = [x \in DOMAIN subs \cup {id} |->
               IF x = id THEN [st |-> "Creating", en |-> en, ka |-> ka, lt |-> lt, maxKA |-> ka, maxLT |-> lt,
                               first |-> FALSE, seq |-> 1, prio |-> prio, itv |-> itv, lastEl |-> now,
                               resend |-> FALSE, notifs |-> <<>>, items |-> <<>>]
               ELSE subs[x]]
  /\ UNCHANGED <<reqs, retx, respq, nodeVal, now>>
  /\ evt' = [ev |-> "CreateSub", sub |-> id, ka |-> ka, lt |-> lt, en |-> en, prio |-> prio, itv |-> itv,
             fail |-> "none", pre |-> <<>>, out |-> <<>>, st |-> P]

DeleteSub(id) ==
  /\ id \in DOMAIN subs
  /\ subs' = [x \in DOMAIN subs \ {id} |-> subs[x]]
  /\ UNCHANGED <<reqs, retx, respq, nodeVal, now>>
  /\ evt' = [ev |-> "DeleteSub", sub |-> id, fail |-> "none", pre |-> <<>>, out |-> <<>>, st |-> P]

SetPublishingMode(id, en) ==
  /\ id \in DOMAIN subs
  /\ subs' = [subs EXCEPT ![id].en = en, ![id].lt = subs[id].maxLT]
  /\ UNCHANGED <<reqs, retx, respq, nodeVal, now>>
  /\ evt' = [ev |-> "SetPubMode", sub |-> id, en |-> en, fail |-> "none", pre |-> <<>>, out |-> <<>>, st |-> P]

\* ModifySubscription (values already revised): interval, counts and priority change; the lifetime and the keep-alive
\* counter restart from the new maxima (SubscriptionService::modify_subscription)
ModifySub(id, ka, lt, prio, itv) ==
  /\ id \in DOMAIN subs
  /\ subs' = [subs EXCEPT ![id].maxKA = ka, ![id].maxLT = lt, ![id].prio = prio, ![id].itv = itv, ![id].ka = ka, ![id].lt = lt]
  /\ UNCHANGED <<reqs, retx, respq, nodeVal, now>>
  /\ evt' = [ev |-> "ModifySub", sub |-> id, ka |-> ka, lt |-> lt, prio |-> prio, itv |-> itv,
             fail |-> "none", pre |-> <<>>, out |-> <<>>, st |-> P]

\* CreateMonitoredItems, one item, value attribute, no filter
CreateItem(id, i, n, qsize, dold, mode, samp) ==
  /\ id \in DOMAIN subs
  /\ i \notin DOMAIN subs[id].items
  /\ LET it == [node |-> n, mode |-> mode, samp |-> samp, qsize |-> qsize, dold |-> dold,
                q |-> <<>>, last |-> NoVal, lastS |-> now]
         its == [x \in DOMAIN subs[id].items \cup {i} |-> IF x = i THEN it ELSE subs[id].items[x]]
     IN subs' = [subs EXCEPT ![id].items = its, ![id].lt = subs[id].maxLT]
  /\ UNCHANGED <<reqs, retx, respq, nodeVal, now>>
  /\ evt' = [ev |-> "CreateItem", sub |-> id, item |-> i, node |-> n, qsize |-> qsize, dold |-> dold,
             mode |-> mode, samp |-> samp, fail |-> "none", pre |-> <<>>, out |-> <<>>, st |-> P]

DeleteItem(id, i) ==
  /\ id \in DOMAIN subs
  /\ i \in DOMAIN subs[id].items
  /\ subs' = [subs EXCEPT ![id].items = [x \in DOMAIN subs[id].items \ {i} |-> subs[id].items[x]],
                          ![id].lt = subs[id].maxLT]
  /\ UNCHANGED <<reqs, retx, respq, nodeVal, now>>
  /\ evt' = [ev |-> "DeleteItem", sub |-> id, item |-> i, fail |-> "none", pre |-> <<>>, out |-> <<>>, st |-> P]

\* ModifyMonitoredItems: queue size and discard policy (same sampling interval, no filter).
\* Shrinking keeps the most recent entries that fit.
ModifyItem(id, i, qsize, dold) ==
  /\ id \in DOMAIN subs
  /\ i \in DOMAIN subs[id].items
  /\ LET it == subs[id].items[i]
         n  == Len(it.q)
         bad == DevShrinkPanic /\ n > qsize
         q2 == IF n > qsize THEN SubSeq(it.q, n - qsize + 1, n) ELSE it.q
     IN /\ subs' = IF bad THEN [subs EXCEPT ![id].lt = subs[id].maxLT]
                   ELSE [subs EXCEPT ![id].items[i] = [it EXCEPT !.qsize = qsize, !.dold = dold, !.q = q2],
                                     ![id].lt = subs[id].maxLT]
        /\ UNCHANGED <<reqs, retx, respq, nodeVal, now>>
        /\ evt' = [ev |-> "ModifyItem", sub |-> id, item |-> i, qsize |-> qsize, dold |-> dold,
                   fail |-> IF bad THEN "panic" ELSE "none", pre |-> <<>>, out |-> <<>>, st |-> P]

\* SetMonitoringMode, one item (Subscription::set_monitoring_mode: only the mode changes, the queue stays)
SetMode(id, i, mode) ==
  /\ id \in DOMAIN subs
  /\ i \in DOMAIN subs[id].items
  /\ subs' = [subs EXCEPT ![id].items[i].mode = mode]
  /\ UNCHANGED <<reqs, retx, respq, nodeVal, now>>
  /\ evt' = [ev |-> "SetMode", sub |-> id, item |-> i, mode |-> mode, fail |-> "none", pre |-> <<>>, out |-> <<>>, st |-> P]

\* a value written into the address space (by the server application or a Write service)
Write(n, v) ==
  /\ nodeVal' = [nodeVal EXCEPT ![n] = v]
  /\ UNCHANGED <<subs, reqs, retx, respq, now>>
  /\ evt' = [ev |-> "Write", node |-> n, v |-> v, fail |-> "none", pre |-> <<>>, out |-> <<>>, st |-> P]

\* process_subscription_acknowledgements
AckResults(acks, rt, ss) ==
  [j \in 1..Len(acks) |->
     IF acks[j][1] \notin DOMAIN ss THEN "BadSubscriptionIdInvalid"
     ELSE IF (\E x \in rt : x.sub = acks[j][1] /\ x.seq = acks[j][2])
             /\ ~(\E k \in 1..(j-1) : acks[k] = acks[j])          \* an earlier duplicate already removed it
          THEN "Good" ELSE "BadSequenceNumberUnknown"]
AckRemove(acks, rt, ss) ==
  {x \in rt : ~(\E j \in 1..Len(acks) : acks[j][1] \in DOMAIN ss /\ acks[j][1] = x.sub /\ acks[j][2] = x.seq)}

\* SubscriptionService::async_publish -> Subscriptions::enqueue_publish_request at clock `now'
\* ts = request header timestamp (clock units), hint = timeout hint (0 = none)
Publish(id, acks, ts, hint) ==
  LET base == [ev |-> "Pub", req |-> id, acks |-> acks, ts |-> ts, hint |-> hint, pre |-> <<>>]
      same == /\ UNCHANGED <<subs, reqs, retx, respq, nodeVal, now>>
  IN
  IF DOMAIN subs = {}
  THEN /\ same
       /\ evt' = base @@ [fail |-> "none", out |-> <<Fault(id, "BadNoSubscription")>>, st |-> P]
  ELSE
  LET max == 2 * Cardinality(DOMAIN subs)
      pre == IF Len(reqs) >= max THEN SubsTick(subs, reqs, retx, "recv", now)
             ELSE [subs |-> subs, reqs |-> reqs, retx |-> retx, out |-> <<>>, fail |-> FALSE]
  IN
  IF pre.fail
  THEN /\ same /\ evt' = base @@ [fail |-> "panic", out |-> <<>>, st |-> P]
  ELSE IF Len(pre.reqs) >= max          \* NB the limit is computed before the pre-tick in the code
  THEN /\ subs' = pre.subs /\ reqs' = pre.reqs /\ retx' = pre.retx /\ respq' = respq \o pre.out
       /\ UNCHANGED <<nodeVal, now>>
       /\ evt' = base @@ [fail |-> "none", out |-> <<Fault(id, "BadTooManyPublishRequests")>>, st |-> P]
  ELSE
  LET res == AckResults(acks, pre.retx, pre.subs)
      rt1 == AckRemove(acks, pre.retx, pre.subs)
      rq1 == Append(pre.reqs, [id |-> id, ts |-> ts, hint |-> hint, res |-> res])
      r   == SubsTick(pre.subs, rq1, rt1, "recv", now)
  IN IF r.fail
     THEN /\ same /\ evt' = base @@ [fail |-> "panic", out |-> <<>>, st |-> P]
     ELSE /\ subs' = r.subs /\ reqs' = r.reqs /\ retx' = r.retx /\ respq' = respq \o pre.out \o r.out
          /\ UNCHANGED <<nodeVal, now>>
          /\ evt' = base @@ [fail |-> "none", out |-> <<>>, st |-> P]

\* expire_stale_publish_requests
Timeout(r) == IF r.hint > 0 /\ r.hint < ReqTimeout THEN r.hint ELSE ReqTimeout
Expired(r, t) == t - r.ts > Timeout(r)

\* one iteration of the subscription timer task at clock t:
\* (take what earlier calls queued) ; expire_stale_publish_requests ; tick ; take_publish_responses
TimerTick(t) ==
  LET stale == SelectSeq(reqs, LAMBDA r : Expired(r, t))
      rq0   == SelectSeq(reqs, LAMBDA r : ~Expired(r, t))
      \* retain() walks the deque newest request first and push_front()s each expired response,
      \* so the responses come out oldest request first
      touts == [j \in 1..Len(stale) |-> Fault(stale[j].id, "BadTimeout")]
      r == SubsTick(subs, rq0, retx, "timer", t)
      base == [ev |-> "Tick", t |-> t, pre |-> respq]
  IN /\ now' = t
     /\ respq' = <<>>
     /\ IF r.fail \/ (DevNegPanic /\ \E j \in 1..Len(reqs) : t < reqs[j].ts)
        THEN /\ UNCHANGED <<subs, reqs, retx, nodeVal>>
             /\ evt' = base @@ [fail |-> "panic", out |-> <<>>, st |-> P]
        ELSE /\ subs' = r.subs /\ reqs' = r.reqs /\ retx' = r.retx
             /\ UNCHANGED nodeVal
             /\ evt' = base @@ [fail |-> "none", out |-> touts \o r.out, st |-> P]

\* RepublishRequest
Republish(id, sq) ==
  LET hit == {x \in retx : x.sub = id /\ x.seq = sq}
      code == IF id \notin DOMAIN subs THEN "BadSubscriptionIdInvalid"
              ELSE IF hit = {} THEN "BadMessageNotAvailable" ELSE "Good"
      m == IF code # "Good" THEN [k |-> "FAULT", seq |-> 0, vals |-> <<>>] ELSE (CHOOSE x \in hit : TRUE).msg
  IN /\ subs' = IF code = "Good" THEN [subs EXCEPT ![id].lt = subs[id].maxLT] ELSE subs
     /\ UNCHANGED <<reqs, retx, respq, nodeVal, now>>
     /\ evt' = [ev |-> "Republish", sub |-> id, seq |-> sq, fail |-> "none", pre |-> <<>>,
                out |-> <<[req |-> 0, k |-> m.k, sub |-> IF code = "Good" THEN id ELSE 0, seq |-> m.seq,
                           vals |-> m.vals, more |-> FALSE, avail |-> <<>>, res |-> <<>>, code |-> code]>>,
                st |-> P]

=============================================================================
