---------------------------- MODULE SessionDriver ----------------------------
(* Bounded nondeterministic driver of Session.tla shared by MCSession and GenSession *)
EXTENDS Session
CONSTANTS Acts,       \* subset of {"Create","Activate","Close","Service","Discovery","ChannelChange","Tick"}
          ActKinds,   \* identity token kinds used by ActivateSession, subset of {"anon","user","userenc","x509"}
          SvcKinds,   \* subset of {"Read","Browse","Write","CreateSub"}
          Creds,      \* subset of {"good","bad"}
          ExtraToks,  \* subset of {Forged, Null}
          Timeouts,   \* session timeouts CreateSession may ask for, subset of {0, 2} (0 = never)
          Dts,        \* time steps, subset of {1, 2, 3}
          Warm,       \* TRUE: every history starts with CreateSession (timeout 2) and a successful anonymous ActivateSession on connection 1
          MaxDepth
VARIABLES depth
DInit == Init /\ depth = 0

\* tokens a client can present: those handed out so far (open or closed = stale), a forged one, the null one
Known == {s \in Slots : sess[s].state # "free"}
Toks == Known \cup ExtraToks
Gens(t, kind) == IF kind \in NonceKinds /\ t \in Slots THEN 0..sess[t].gen ELSE {0}

DNext ==
  /\ depth < MaxDepth /\ depth' = depth + 1
  /\ IF Warm /\ depth < 2 THEN (IF depth = 0 THEN CreateSession(1, 2) ELSE ActivateSession(1, 1, "anon", "good", 0)) ELSE
     \/ "Create" \in Acts /\ \E c \in Conns, tm \in Timeouts : CreateSession(c, tm)
     \/ "Activate" \in Acts /\ \E c \in Conns, t \in Toks, k \in ActKinds, cr \in Creds : \E g \in Gens(t, k) :
          ActivateSession(c, t, k, cr, g)
     \/ "Close" \in Acts /\ \E c \in Conns, t \in Toks, d \in BOOLEAN : CloseSession(c, t, d)
     \/ "Service" \in Acts /\ \E c \in Conns, k \in SvcKinds, t \in Toks : Service(c, k, t)
     \/ "Discovery" \in Acts /\ \E c \in Conns, k \in {"GetEndpoints", "FindServers"} : Discovery(c, k)
     \/ "ChannelChange" \in Acts /\ \E c \in Conns : ChannelChange(c)
     \/ "Tick" \in Acts /\ \E d \in Dts : Tick(d)
Done == depth = MaxDepth
=============================================================================
