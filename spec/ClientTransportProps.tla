------------------------ MODULE ClientTransportProps ------------------------
(***************************************************************************)
(* L2 monitor of C35 "Every client request completes exactly once", over    *)
(* OBSERVATION RECORDS only (the records ClientTransport.tla produces as    *)
(* evt' and the harness produces from the real TransportState / Request).   *)
(*                                                                          *)
(* Record fields used:                                                      *)
(*   ev    "Submit" | "Poll" | "Expire" | "Chunk" | "Close"                 *)
(*   r cb h cls  Submit: request number, expects a response, request handle, *)
(*            timeout class ("short": its deadline is before that of every   *)
(*            "long" request; within a class deadlines follow submission)    *)
(*   took id  Poll: the request taken from the queue and the request id it  *)
(*            was sent with (0 = none)                                      *)
(*   armed    Poll: the request id for whose deadline the transport's timer *)
(*            is armed when the deadline check is over (0 = not armed)      *)
(*   id kind h hit  Chunk: request id the chunk carries, "inter" | "final" | *)
(*            "abort", request handle inside the response it belongs to;    *)
(*            Expire: the request id whose deadline passed, hit = it was    *)
(*            pending                                                       *)
(*   closed   "none" or the status the transport closed with in this step   *)
(*   out      the requests whose result became available in this step:      *)
(*            [r, k, h]  k = "resp" (h = handle in the response), "sent"    *)
(*            (a request without response was queued) or a status name      *)
(*                                                                          *)
(* Mon35Step(g, e) returns the new ghost state and the set of violated       *)
(* clauses.                                                                 *)
(***************************************************************************)
EXTENDS Integers, Sequences, FiniteSets, TLC

M35Init == [sub |-> <<>>,      \* r -> [cb, h] for submitted requests
            idr |-> <<>>,      \* request id -> r
            exp |-> {},        \* request ids whose deadline has passed
            done |-> <<>>,     \* r -> number of results delivered
            closed |-> "none"] \* status of the close seen

ReqStatus(s) == IF s = "Good" THEN "BadConnectionClosed" ELSE s

Mon35Step(g, e) ==
  LET sub1 == IF e.ev = "Submit" THEN [x \in DOMAIN g.sub \cup {e.r} |-> IF x = e.r THEN [cb |-> e.cb, h |-> e.h, cls |-> e.cls] ELSE g.sub[x]]
              ELSE g.sub
      idr1 == IF e.ev = "Poll" /\ e.took # 0 THEN [x \in DOMAIN g.idr \cup {e.id} |-> IF x = e.id THEN e.took ELSE g.idr[x]]
              ELSE g.idr
      exp1 == IF e.ev = "Expire" /\ e.hit THEN g.exp \cup {e.id} ELSE g.exp
      closedBefore == g.closed # "none"
      closed1 == IF closedBefore THEN g.closed ELSE e.closed
      closedNow == closed1 # "none"
      \* the request a chunk is addressed to (0 = nobody)
      target == IF e.ev = "Chunk" /\ e.id \in DOMAIN idr1 THEN idr1[e.id] ELSE 0
      idsOf(r) == {id \in DOMAIN idr1 : idr1[id] = r}
      want == {r \in DOMAIN sub1 : sub1[r].cb}                      \* requests with a receiver
      outs == {j \in 1..Len(e.out) : e.out[j].r \in want}
      cnt(r) == Cardinality({j \in outs : e.out[j].r = r})
      before(r) == IF r \in DOMAIN g.done THEN g.done[r] ELSE 0
      done1 == [r \in want |-> before(r) + cnt(r)]
      vres(o) ==
        IF o.k = "resp"
        THEN (IF o.h # sub1[o.r].h THEN {"response-of-another-request"} ELSE {})
             \cup (IF ~(e.ev = "Chunk" /\ e.kind = "final" /\ target = o.r) THEN {"response-without-its-final-chunk"} ELSE {})
        ELSE IF o.k = "BadTimeout" /\ idsOf(o.r) \cap exp1 # {} THEN {}
        ELSE IF o.k = "BadCommunicationError" /\ e.ev = "Chunk" /\ e.kind = "abort" /\ target = o.r THEN {}
        ELSE IF o.k = "BadEncodingLimitsExceeded" /\ e.ev = "Chunk" /\ e.kind = "inter" /\ target = o.r THEN {}
        ELSE IF closedNow /\ o.k \in {"BadConnectionClosed", ReqStatus(closed1)} THEN {}
        ELSE IF o.k = "BadTimeout" THEN {"timeout-before-deadline"}
        ELSE IF o.k = "BadConnectionClosed" THEN {"closed-status-without-close"}
        ELSE {"unexpected-result"}
      v1 == UNION {vres(e.out[j]) : j \in outs}
      v2 == IF \E r \in want : done1[r] > 1 THEN {"completed-twice"} ELSE {}
      \* a deadline check with an expired pending request times it out
      v3 == IF e.ev = "Poll" /\ ~closedBefore
               /\ \E id \in g.exp : id \in DOMAIN g.idr /\ g.idr[id] \in want /\ before(g.idr[id]) = 0 /\ cnt(g.idr[id]) = 0
            THEN {"expired-request-not-timed-out"} ELSE {}
      \* the final (or aborting) chunk of the response to a pending request completes that request
      v4 == IF e.ev = "Chunk" /\ e.kind \in {"final", "abort"} /\ ~closedBefore
               /\ target \in want /\ before(target) = 0 /\ cnt(target) = 0
            THEN {"response-not-delivered"} ELSE {}
      \* "with BadTimeout when its deadline passes first": the transport acts only when it is woken, so after a
      \* deadline check its timer has to be armed for the earliest deadline among the requests still pending
      waiting == {id \in DOMAIN idr1 : idr1[id] \in want /\ done1[idr1[id]] = 0 /\ id \notin exp1}
      dlOf(id) == <<IF sub1[idr1[id]].cls = "short" THEN 0 ELSE 1, idr1[id]>>
      dlLe(a, b) == a[1] < b[1] \/ (a[1] = b[1] /\ a[2] <= b[2])
      v6 == IF e.ev = "Poll" /\ ~closedNow /\ waiting # {}
               /\ ~(e.armed \in waiting /\ \A x \in waiting : dlLe(dlOf(e.armed), dlOf(x)))
            THEN {"timer-armed-after-an-earlier-deadline"} ELSE {}
      \* once the transport has closed nothing is left pending
      v5 == IF closedNow /\ \E r \in want : done1[r] = 0 THEN {"pending-after-close"} ELSE {}
  IN [g |-> [sub |-> sub1, idr |-> idr1, exp |-> exp1, done |-> done1, closed |-> closed1],
      viol |-> v1 \cup v2 \cup v3 \cup v4 \cup v5 \cup v6]
=============================================================================
