------------------------------ MODULE MCTextInj ------------------------------
(* C04 / C05 design obligation on the specified printers (L1), evaluated once: every printer is injective on  *)
(* its value space, i.e. a parser with Parse(Print(v)) = v exists for the canonical forms.                     *)
EXTENDS TextForms
CONSTANTS Which, StrMax, NameMax, PathMax, Deep
VARIABLE c
IInit == c = "design"
INext == UNCHANGED c
ISpec == IInit /\ [][INext]_c
PrintersInjective == c = "design" => IF Which = "C04" THEN PrintersInjective04(Deep) ELSE PrintersInjective05(Deep, NameMax, PathMax)
=============================================================================
