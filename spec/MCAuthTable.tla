----------------------------- MODULE MCAuthTable -----------------------------
(* one TLC state per point of the table; the specified decision must satisfy the property *)
EXTENDS AuthTable
VARIABLE c
Init == c \in Cases
Next == UNCHANGED c
Spec == Init /\ [][Next]_c
DesignOK == AuthOK(c, Auth(c)) = {}
=============================================================================
