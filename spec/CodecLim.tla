------------------------------ MODULE CodecLim ------------------------------
(* C03: the limit rule as a decision table.  A case = a length-carrying      *)
(* construct x the position it is nested at x the declared length l x the    *)
(* limit L x the values of the other limits.  `words' lists every length     *)
(* word on the way (kind, declared length); the case must be accepted iff    *)
(* every word satisfies LenOK under the options.  For cases small enough to  *)
(* be written out, TLC runs the specified decoder on the bytes and checks    *)
(* that it decides exactly like the table.                                   *)
EXTENDS Codec

Seg(n, b) == [n |-> n, b |-> b]
W(k, l) == [k |-> k, l |-> l]
Cons == {"str", "bs", "arr", "varr", "vmd", "vdims"}
Poss == {"top", "array", "variant", "datavalue", "eobody", "request"}
KindOf(con) == CASE con = "str" -> "str" [] con = "bs" -> "bs" [] OTHER -> "arr"
Allowed(con, pos) == ~(con = "arr" /\ pos \in {"array", "variant", "datavalue"})
LimitVals(con) == {0, 1, 5, LimitOf(DefaultOpts, KindOf(con))}
LenVals(L) == {L - 1, L, L + 1, -1, -2, 0, I32Max}
\* only lengths up to this are written out with their content (everything above a limit is rejected at the length word)
Content(l) == IF l >= 0 /\ l <= 70000 THEN l ELSE 0
Big(l) == l > 70000

\* element of a generic array at a position
ArrElem(pos) == CASE pos = "top" -> LE32(0)                                        \* Int32
                  [] pos = "eobody" -> <<0, 0, 0, 0, 0>>                           \* MonitoredItemNotification: handle, empty DataValue
                  [] pos = "request" -> <<0, 0>> \o LE32(13) \o LE32(-1) \o <<0>>  \* WriteValue
                  [] OTHER -> <<0>>
\* the construct itself: [segs, words]
Unit(con, pos, l) ==
  CASE con = "str" -> [segs |-> <<Seg(1, LE32(l)), Seg(Content(l), <<97>>)>>, words |-> <<W("str", l)>>]
    [] con = "bs" -> [segs |-> <<Seg(1, LE32(l)), Seg(Content(l), <<7>>)>>, words |-> <<W("bs", l)>>]
    [] con = "arr" -> [segs |-> <<Seg(1, LE32(l)), Seg(Content(l), ArrElem(pos))>>, words |-> <<W("arr", l)>>]
    [] con = "varr" -> [segs |-> <<Seg(1, <<131>> \o LE32(l)), Seg(Content(l), <<7>>)>>, words |-> <<W("arr", l)>>]
    \* multi-dimensional: l elements in one dimension of l (an array without elements: dimensions <<0>> resp. none)
    [] con = "vmd" -> [segs |-> <<Seg(1, <<195>> \o LE32(l)), Seg(Content(l), <<7>>),
                                  Seg(1, IF l >= 0 THEN LE32(1) \o LE32(l) ELSE LE32(0))>>,
                       words |-> <<W("arr", l), W("arr", IF l >= 0 THEN 1 ELSE 0)>>]
    \* one element, l dimensions of 1
    [] con = "vdims" -> [segs |-> <<Seg(1, <<195>> \o LE32(1) \o <<7>> \o LE32(l)), Seg(Content(l), LE32(1))>>,
                         words |-> <<W("arr", 1), W("arr", l)>>]
RECURSIVE SegLen(_)
SegLen(ss) == IF ss = <<>> THEN 0 ELSE Head(ss).n * Len(Head(ss).b) + SegLen(Tail(ss))
IsVar(con) == con \in {"varr", "vmd", "vdims"}
VarTag(con) == CASE con = "str" -> <<12>> [] con = "bs" -> <<15>> [] OTHER -> <<24>>   \* scalar String / ByteString / nested Variant
EoId == <<1, 0, 44, 1>>
\* [root, pre, post, words] around the unit u
Around(con, pos, u) ==
  CASE pos = "top" -> [root |-> CASE con = "str" -> "String" [] con = "bs" -> "ByteString" [] con = "arr" -> "ArrInt32" [] OTHER -> "Variant",
                       pre |-> <<>>, post |-> <<>>, words |-> <<>>]
    [] pos = "array" -> [root |-> CASE con = "str" -> "ArrString" [] con = "bs" -> "ArrByteString" [] OTHER -> "ArrVariant",
                         pre |-> <<Seg(1, LE32(1))>>, post |-> <<>>, words |-> <<W("arr", 1)>>]
    [] pos = "variant" -> [root |-> "Variant", pre |-> <<Seg(1, VarTag(con))>>, post |-> <<>>, words |-> <<>>]
    [] pos = "datavalue" -> [root |-> "DataValue", pre |-> <<Seg(1, <<1>> \o (IF IsVar(con) THEN <<>> ELSE VarTag(con)))>>, post |-> <<>>, words |-> <<>>]
    [] pos = "eobody" ->
         LET tail == IF con = "arr" THEN LE32(-1) ELSE <<>>
             n == SegLen(u.segs) + Len(tail)
         IN [root |-> CASE con = "str" -> "EoString" [] con = "bs" -> "EoByteString" [] con = "arr" -> "EoDataChange" [] OTHER -> "EoVariant",
             pre |-> <<Seg(1, EoId \o <<1>> \o LE32(n))>>, post |-> <<Seg(1, tail)>>, words |-> <<W("bs", n)>>]
    [] pos = "request" ->
         CASE con = "str" -> [root |-> "WriteRequest", pre |-> <<Seg(1, EncReqHdr(NullStr) \o LE32(1) \o <<0, 0>> \o LE32(13))>>,
                              post |-> <<Seg(1, <<0>>)>>, words |-> <<W("arr", 1)>>]
           [] con = "bs" -> [root |-> "BrowseNextRequest", pre |-> <<Seg(1, EncReqHdr(NullStr) \o <<0>> \o LE32(1))>>, post |-> <<>>,
                             words |-> <<W("arr", 1)>>]
           [] con = "arr" -> [root |-> "WriteRequest", pre |-> <<Seg(1, EncReqHdr(NullStr))>>, post |-> <<>>, words |-> <<>>]
           [] OTHER -> [root |-> "CallRequest", pre |-> <<Seg(1, EncReqHdr(NullStr) \o LE32(1) \o <<0, 0, 0, 0>> \o LE32(1))>>, post |-> <<>>,
                        words |-> <<W("arr", 1), W("arr", 1)>>]
OptsFor(con, L, oth) ==
  LET b == IF oth = "same" THEN Opts(327675, L, L, L, 10) ELSE DefaultOpts
      o == CASE KindOf(con) = "str" -> [b EXCEPT !.str = L] [] KindOf(con) = "bs" -> [b EXCEPT !.bs = L] [] OTHER -> [b EXCEPT !.arr = L]
  IN [nm |-> "custom", msg |-> o.msg, str |-> o.str, bs |-> o.bs, arr |-> o.arr, depth |-> o.depth]
Case(con, pos, l, L, oth) ==
  LET u == Unit(con, pos, l)  a == Around(con, pos, u) IN
  [con |-> con, pos |-> pos, l |-> l, L |-> L, oth |-> oth, root |-> a.root, segs |-> a.pre \o u.segs \o a.post,
   words |-> a.words \o u.words, opts |-> OptsFor(con, L, oth), big |-> Big(l), hdr |-> 0]
\* chunk: "MSGF", declared size l, channel 1, sixteen bytes of body ready to be read; root Chunk = MessageChunk::decode,
\* root Codec = the framing layer.  l = -1 stands for the largest UInt32.
ChunkLimits == {0, 100, 8196, 327675}
ChunkLens(L) == IF L = 0 THEN {12, 28, 100} ELSE {L - 1, L, L + 1, 12, 28, I32Max, -1}
ChunkCase(root, l, L) ==
  [con |-> "chunk", pos |-> root, l |-> l, L |-> L, oth |-> "default", root |-> root,
   segs |-> <<Seg(1, <<77, 83, 71, 70>> \o LE32(l) \o LE32(1)), Seg(16, <<1>>)>>, words |-> <<>>,
   opts |-> [nm |-> "custom", msg |-> L, str |-> 65535, bs |-> 65535, arr |-> 1000, depth |-> 10], big |-> (l < 0 \/ l > 70000), hdr |-> 12]
ChunkAcc(l, L) == L = 0 \/ (l >= 0 /\ l <= L)

AllCases ==
  UNION {UNION {UNION {{Case(con, pos, l, L, oth) : l \in IF con = "vdims" THEN LenVals(L) \ {-1} ELSE LenVals(L), oth \in {"default", "same"}}
                       : L \in LimitVals(con)} : pos \in {p \in Poss : Allowed(con, p)}} : con \in Cons}
  \cup UNION {{ChunkCase(root, l, L) : l \in ChunkLens(L), root \in {"Chunk", "Codec"}} : L \in ChunkLimits}

\* the decision table
Acc(c) == IF c.con = "chunk" THEN ChunkAcc(c.l, c.L)
          ELSE \A i \in 1..Len(c.words) : LenOK(c.words[i].l, LimitOf(c.opts, c.words[i].k))

-----------------------------------------------------------------------------
(* the specified decoder for the roots used here *)
Expand(ss) == Cat([i \in 1..Len(ss) |-> Rep(ss[i].b, ss[i].n)])
OfOpts(o) == Opts(o.msg, o.str, o.bs, o.arr, o.depth)
DecRoot(root, B, o) ==
  LET DS(BB, ss) == DStr(BB, ss, o.str)
      DB(BB, ss) == DStr(BB, ss, o.bs)
      DVv(BB, ss) == DVariant(BB, ss, o, Design)
      DMi(BB, ss) == LET a == I32(BB, ss) b == DDv(BB, a.s, o, Design) IN R(b.s, 0)
      DGi(BB, ss) == DDi(BB, ss, o, Design)
      \* decode_inner: the body of the extension object is decoded from a stream of its own
      Inner(ty) == LET e == DEo(B, St0, o, Design) IN
                   IF ~e.s.ok \/ e.v.enc # "bytes" \/ e.v.body.nl THEN Fail(e.s)
                   ELSE CASE ty = "String" -> DStr(e.v.body.b, St0, o.str).s
                          [] ty = "ByteString" -> DStr(e.v.body.b, St0, o.bs).s
                          [] ty = "Variant" -> DVariant(e.v.body.b, St0, o, Design).s
                          [] ty = "DataChange" -> LET a == DArr(DMi, e.v.body.b, St0, o) IN DArr(DGi, e.v.body.b, a.s, o).s
  IN CASE root = "ArrString" -> DArr(DS, B, St0, o).s
       [] root = "ArrByteString" -> DArr(DB, B, St0, o).s
       [] root = "ArrVariant" -> DArr(DVv, B, St0, o).s
       [] root = "ArrInt32" -> LET DI(BB, ss) == I32(BB, ss) IN DArr(DI, B, St0, o).s
       [] root = "EoString" -> Inner("String")
       [] root = "EoByteString" -> Inner("ByteString")
       [] root = "EoVariant" -> Inner("Variant")
       [] root = "EoDataChange" -> Inner("DataChange")
       [] root = "BrowseNextRequest" -> LET h == DReqHdr(B, St0, o, Design) b == U8(B, h.s) IN DArr(DB, B, b.s, o).s
       [] OTHER -> Dec(root, B, o, Design).s

=============================================================================
