--------------------------- MODULE TraceAttribute ---------------------------
EXTENDS AttributeProps, Json, IOUtils
Obs == ndJsonDeserialize(IOEnv.OBS)
VARIABLES l, mon, out, dead
TInit == l = 1 /\ mon = M32Init /\ out = <<>> /\ dead = FALSE
TNext ==
  \/ /\ l <= Len(Obs)
     /\ LET e == Obs[l]
            g == IF e.i = 1 THEN M32Init ELSE mon
            dd == IF e.i = 1 THEN FALSE ELSE dead
            r == Mon32Step(g, e)
            s == SetToSeq(r.viol)
        IN /\ mon' = r.g
           /\ out' = IF dd THEN out ELSE out \o [j \in 1..Len(s) |-> [case |-> e.case, i |-> e.i, prop |-> "C32", clause |-> s[j]]]
           /\ dead' = (dd \/ r.viol # {})
     /\ l' = l + 1
  \/ /\ l = Len(Obs) + 1 /\ ndJsonSerialize(IOEnv.VERDICT, out) /\ l' = l + 1 /\ UNCHANGED <<mon, out, dead>>
TSpec == TInit /\ [][TNext]_<<l, mon, out, dead>>
=============================================================================
