------------------------------ MODULE MCSeqNum ------------------------------
(* Model-checking configuration of C12: SeqNum.tla with the L2 monitor of     *)
(* SeqNumProps.tla attached as ghost state.                                   *)
EXTENDS SeqNum

VARIABLES mon, viol

MP == INSTANCE SeqNumProps

Rec(e) == e @@ [fail |-> "none", site |-> ""]

MInit == /\ Init
         /\ LET r == MP!SnStep(MP!SnInit, Rec(evt)) IN mon = r.g /\ viol = r.viol
MNext == /\ Next
         /\ LET r == MP!SnStep(mon, Rec(evt')) IN mon' = r.g /\ viol' = r.viol
MSpec == MInit /\ [][MNext]_<<vars, mon, viol>>

C12 == viol = {}
=============================================================================
