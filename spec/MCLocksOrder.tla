---------------------------- MODULE MCLocksOrder ----------------------------
(* evaluates the class-level acquisition order of the recorded programs once *)
EXTENDS Locks, Json, SequencesExt
VARIABLE x
OInit == x = 0 /\ grp = {} /\ pc = 0 /\ readers = 0 /\ writer = 0 /\ waitW = 0
ONext == UNCHANGED <<x, vars>>
OSpec == OInit /\ [][ONext]_<<x, vars>>
Witnesses == {e \in Edges : <<e[2], e[1]>> \in ClassEdges}
Emit == PrintT(<<"CASE", ToJson([inv |-> SetToSeq(Witnesses), edges |-> SetToSeq(ClassEdges)])>>)
=============================================================================
