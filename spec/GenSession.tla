------------------------------ MODULE GenSession ------------------------------
EXTENDS SessionDriver, Json
VARIABLES hist
GInit == DInit /\ hist = <<>>
GNext == DNext /\ hist' = Append(hist, evt')
GSpec == GInit /\ [][GNext]_<<vars, depth, hist>>
Emit == Done => PrintT(<<"CASE", ToJson(hist)>>)
=============================================================================
