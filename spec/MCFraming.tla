------------------------------ MODULE MCFraming ------------------------------
(* Model-checking configuration of C11: Framing.tla with the L2 monitor of    *)
(* FramingProps.tla attached as ghost state.  Read(k) for every k makes the   *)
(* reachable graph cover every segmentation of every stream in Streams (and   *)
(* every sequence of partial writes of every script in Scripts).              *)
EXTENDS Framing

VARIABLES mon, viol

MP == INSTANCE FramingProps

Rec(e) == e @@ [fail |-> "none", site |-> ""]

MInit == /\ Init
         /\ LET r == MP!FrStep(MP!FrInit, Rec(evt)) IN mon = r.g /\ viol = r.viol
MNext == /\ Next
         /\ LET r == MP!FrStep(mon, Rec(evt')) IN mon' = r.g /\ viol' = r.viol
MSpec == MInit /\ [][MNext]_<<vars, mon, viol>>

C11 == viol = {}

\* the jumping / closed forms used for runs of equal reads (writes) are the step-by-step definitions
RunEquiv ==
  IF Side = "dec"
  THEN \A k \in 1..(Total(str.frames) - pos), c \in 1..(Total(str.frames) - pos + 1) :
         derr \/ eof \/ Reads(str, pos, nY, k, c, 1, <<>>, <<>>) = ReadsJ(str, pos, nY, k, c, 0, <<>>, <<>>)
  ELSE \A k \in 1..6, c \in 1..6 : Socks(sb, k, c, 1, <<>>, 0) = SocksJ(sb, k, c)

\* the last observation record influences the future only through the monitor and through "the behaviour has ended"
MView == <<dvars, svars, mon, viol, evt.ev = "End">>

\* every behaviour can be completed (no stuck decoder / buffer): a state without successor is Done
Progress == (~ENABLED Next) => Done

-----------------------------------------------------------------------------
(* input spaces *)
RECURSIVE SeqsUpTo(_, _)
SeqsUpTo(S, n) == IF n = 0 THEN {<<>>} ELSE LET P == SeqsUpTo(S, n - 1) IN P \cup {Append(p, x) : p \in {q \in P : Len(q) = n - 1}, x \in S}

\* all streams of 1..maxn frames whose sizes are in `sizes'; a frame above `max' is present in full or cut short
AbstractStreams(sizes, maxn, max) ==
  {[frames |-> [j \in 1..Len(q) |-> [id |-> j, kind |-> "F", size |-> q[j], len |-> q[j]]], max |-> max, cuts |-> "all", run |-> 1]
     : q \in SeqsUpTo(sizes, maxn) \ {<<>>}}
  \cup
  {[frames |-> [j \in 1..Len(q) |-> [id |-> j, kind |-> "F", size |-> q[j],
                                     len |-> IF j = Len(q) THEN HdrLen + 2 ELSE q[j]]], max |-> max, cuts |-> "all", run |-> 1]
     : q \in {x \in SeqsUpTo(sizes, maxn) \ {<<>>} : max > 0 /\ x[Len(x)] > max /\ x[Len(x)] > HdrLen + 2}}

RECURSIVE SumS(_)
SumS(s) == IF s = <<>> THEN 0 ELSE Head(s) + SumS(Tail(s))
\* all scripts of at most maxm messages of 1..maxc chunks with sizes in `sizes' whose total is at most `tot'
MsgsUpTo(sizes, maxc, t) == {m \in SeqsUpTo({x \in sizes : x <= t}, maxc) \ {<<>>} : SumS(m) <= t}
RECURSIVE ScriptsRec(_, _, _, _)
ScriptsRec(sizes, maxc, n, t) ==
  IF n = 0 THEN {<<>>}
  ELSE {<<>>} \cup UNION {{<<m>> \o r : r \in ScriptsRec(sizes, maxc, n - 1, t - SumS(m))} : m \in MsgsUpTo(sizes, maxc, t)}
AbstractScripts(sizes, maxc, maxm, tot, idles) ==
  {[msgs |-> m, cuts |-> "all", run |-> 1, idle |-> idles] : m \in ScriptsRec(sizes, maxc, maxm, tot) \ {<<>>}}
=============================================================================
