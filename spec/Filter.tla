------------------------------- MODULE Filter -------------------------------
(***************************************************************************)
(* C25  Data change filters report exactly the changes they describe.       *)
(* A case is a filter and a sequence of DataValues that the monitored item  *)
(* samples one after the other (one sample per publishing interval, a       *)
(* publish request always queued, so a reported sample is a data            *)
(* notification in that interval's response).                               *)
(* DataValue = <<v, s, ts>>: v >= 0 numeric, v < 0 a string; s status       *)
(* (0 Good, 1 Bad); ts timestamp.                                           *)
(***************************************************************************)
EXTENDS Integers, Sequences, FiniteSets, TLC

CONSTANTS MaxLen,      \* longest sample sequence over all DataValues
          MaxLenV      \* longest sample sequence in which only the value changes (a value that drifts: each step within the
                       \* deadband of the previous SAMPLE, the sum beyond the deadband of the last REPORTED value)

Vs == {0, 1, 2, 5, -10}
DVs == Vs \X {0, 1} \X {0, 1}
Trigs == {"Status", "StatusValue", "StatusValueTimestamp"}
\* deadband: none | absolute 0 | absolute 1 | absolute -1 (invalid) | percent 10 (no EU range known to the server)
Dbs == {"none", "abs0", "abs1", "absneg", "pct"}
Filters == {[trig |-> t, db |-> d] : t \in Trigs, d \in Dbs}

SeqsUpTo(S, n) == UNION {[1..k -> S] : k \in 1..n}
ValueOnly == {[i \in DOMAIN q |-> <<q[i], 0, 0>>] : q \in SeqsUpTo(Vs, MaxLenV)}
Cases == {[f |-> f, dvs |-> q] : f \in Filters, q \in SeqsUpTo(DVs, MaxLen) \cup ValueOnly}

IsNum(v) == v >= 0
Abs(x) == IF x < 0 THEN -x ELSE x

\* does the value differ in the way the deadband selects?
ValueDiffers(a, b, db) ==
  IF db \in {"abs0", "abs1"} /\ IsNum(a) /\ IsNum(b)
  THEN Abs(a - b) > (IF db = "abs0" THEN 0 ELSE 1)
  ELSE a # b                          \* no deadband, or the deadband does not apply to non-numeric values

Differs(last, cur, f) ==
  CASE f.trig = "Status" -> cur[2] # last[2]
    [] f.trig = "StatusValue" -> cur[2] # last[2] \/ ValueDiffers(last[1], cur[1], f.db)
    [] f.trig = "StatusValueTimestamp" -> cur[2] # last[2] \/ ValueDiffers(last[1], cur[1], f.db) \/ cur[3] # last[3]

\* a filter that could ever report a value change (the server does not know EU ranges, so it cannot
\* evaluate a percent deadband; a negative deadband is invalid)
Usable(f) == f.trig = "Status" \/ f.db \notin {"absneg", "pct"}

-----------------------------------------------------------------------------
(* L1: the specified behaviour -- which samples are reported                 *)
RECURSIVE RepRec(_, _, _, _)
RepRec(f, dvs, last, acc) ==
  IF dvs = <<>> THEN acc
  ELSE LET cur == Head(dvs)
           rep == last = <<>> \/ Differs(last, cur, f)
       IN RepRec(f, Tail(dvs), IF rep THEN cur ELSE last, Append(acc, rep))

\* (the implementation refuses an invalid or percent deadband whatever the trigger)
Rep(c) == IF c.f.db \notin {"absneg", "pct"} THEN [fail |-> "none", site |-> "", accepted |-> TRUE, rep |-> RepRec(c.f, c.dvs, <<>>, <<>>)]
          ELSE [fail |-> "none", site |-> "", accepted |-> FALSE, rep |-> <<>>]

-----------------------------------------------------------------------------
(* L2: the property on an observed result r = [fail, site, accepted, rep]    *)
RECURSIVE Judge(_, _, _, _, _)
Judge(f, dvs, reps, last, k) ==
  IF dvs = <<>> THEN {}
  ELSE LET cur == Head(dvs)
           should == last = <<>> \/ Differs(last, cur, f)
           did == Head(reps)
       IN (IF did /\ ~should THEN {"reported-a-sample-that-did-not-change"} ELSE {})
          \cup (IF ~did /\ should THEN {"change-not-reported"} ELSE {})
          \cup Judge(f, Tail(dvs), Tail(reps), IF did THEN cur ELSE last, k + 1)

FilterViol(e) ==
  LET c == e.c  r == e.r IN
  IF r.fail # "none" THEN {"fail:" \o r.site}
  ELSE IF ~r.accepted THEN {}                          \* refusing a filter is always allowed
  ELSE IF ~Usable(c.f) THEN {"accepted-a-filter-that-can-never-report"}
  ELSE IF Len(r.rep) # Len(c.dvs) THEN {"observation-length"}
  ELSE Judge(c.f, c.dvs, r.rep, <<>>, 1)
=============================================================================
