----------------------------- MODULE ChunkLayout -----------------------------
(***************************************************************************)
(* C07  Any message survives chunking and channel security unchanged.       *)
(*                                                                          *)
(* Part 6, 6.7.2 as a constant-level function: for a security policy, a     *)
(* security mode, the key sizes of the two certificates, a chunk size limit *)
(* and a message of msgLen bytes, `Layout' gives the chunks the sender      *)
(* produces: per chunk the body length, the padding, the signature size,    *)
(* the size of the secured chunk, the final flag, the sequence number and   *)
(* the request id.  Everything is derived from the block and signature      *)
(* sizes of the policy, which are written here (Part 7 profiles):           *)
(*   symmetric  : AES-CBC, plain = cipher block = 16, HMAC-SHA1 = 20 /      *)
(*                HMAC-SHA256 = 32 signature bytes;                         *)
(*   asymmetric : signature = sender key size, cipher block = receiver key  *)
(*                size, plain block = cipher block - RSA padding overhead   *)
(*                (PKCS#1 v1.5: 11, OAEP-SHA1: 42, OAEP-SHA256: 66), and    *)
(*                the extra padding size byte for receiver keys > 2048 bit. *)
(*                                                                          *)
(* A message is abstract: the interval 1..msgLen of its byte offsets.  A    *)
(* chunk carries segments: a piece [lo, hi] of the message, padding,        *)
(* signature.  `Reassemble(Receive(Secure(Split(m)))) = m' is the invariant *)
(* (DesignHolds), checked by TLC for every enumerated case.                 *)
(*                                                                          *)
(* Deviation of the pinned tree (Dev... constant, CONVENTIONS.md):          *)
(*   DevSignPadded  the sender pads MSG chunks also when the mode is Sign   *)
(*                  (Part 6: padding exists only in encrypted chunks); the  *)
(*                  receiver rightly does not remove padding from chunks    *)
(*                  that are only signed, so the padding of every non-final *)
(*                  chunk ends up inside the reassembled body.              *)
(***************************************************************************)
EXTENDS Integers, Sequences, FiniteSets, TLC

CONSTANTS ChunkSizes,     \* chunk size limits, 0 = no limit
          KeyBits,        \* RSA key sizes of the certificates
          CertLen,        \* record: "<party><bits>" -> DER length of the minted certificate (measured by the harness)
          MinLen,         \* record: "<kind><dir>" -> smallest encoded size of a message of that kind (measured by the harness)
          Sweeps,         \* padding sweeps of asymmetric chunks: set of [pol, dir, sbits, rbits, step] (see MCChunkLayout)
          DevSignPadded

Policies == {"None", "Basic128Rsa15", "Basic256", "Basic256Sha256", "Aes128Sha256RsaOaep", "Aes256Sha256RsaPss"}
Modes == {"None", "Sign", "SignAndEncrypt"}
Dirs == {"c2s", "s2c"}

-----------------------------------------------------------------------------
(* Part 7 security policy profiles                                           *)
\* Part 7 policy URIs (the two newest profiles are written with underscores)
Uri(p) == "http://opcfoundation.org/UA/SecurityPolicy#" \o
          (CASE p = "Aes128Sha256RsaOaep" -> "Aes128_Sha256_RsaOaep" [] p = "Aes256Sha256RsaPss" -> "Aes256_Sha256_RsaPss" [] OTHER -> p)
SymSig(p) == CASE p = "None" -> 0 [] p \in {"Basic128Rsa15", "Basic256"} -> 20 [] OTHER -> 32
SymBlock == 16
RsaOverhead(p) == CASE p = "Basic128Rsa15" -> 11 [] p = "Aes256Sha256RsaPss" -> 66 [] OTHER -> 42
KeyRange(p) == IF p \in {"Basic128Rsa15", "Basic256"} THEN 1024..2048 ELSE 2048..4096
ThumbprintLen == 20

Secured(c) == c.pol # "None" /\ c.mode # "None"
Encrypted(c) == Secured(c) /\ (c.kind = "opn" \/ c.mode = "SignAndEncrypt")
SenderParty(c) == IF c.dir = "c2s" THEN "app" ELSE "server"

\* message header + security header
HdrLen(c) ==
  IF c.kind # "opn" THEN 12 + 4
  ELSE IF Secured(c) THEN 12 + (4 + Len(Uri(c.pol))) + (4 + CertLen[SenderParty(c) \o ToString(c.sbits)]) + (4 + ThumbprintLen)
  ELSE 12 + (4 + Len(Uri("None"))) + 4 + 4

\* the sizes that govern a chunk: [hdr, sig, plain, cipher, minpad, padded]
Cfg(c) ==
  IF ~Secured(c) THEN [hdr |-> HdrLen(c), sig |-> 0, plain |-> 1, cipher |-> 1, minpad |-> 0, padded |-> FALSE]
  ELSE IF c.kind = "opn"
  THEN [hdr |-> HdrLen(c), sig |-> c.sbits \div 8, plain |-> (c.rbits \div 8) - RsaOverhead(c.pol), cipher |-> c.rbits \div 8,
        minpad |-> IF c.rbits > 2048 THEN 2 ELSE 1, padded |-> TRUE]
  ELSE [hdr |-> HdrLen(c), sig |-> SymSig(c.pol), plain |-> SymBlock, cipher |-> SymBlock, minpad |-> 1,
        padded |-> (c.mode = "SignAndEncrypt" \/ DevSignPadded)]

SeqHdr == 8
Pad(g, body) == IF ~g.padded THEN 0 ELSE g.minpad + ((g.plain - ((SeqHdr + body + g.sig + g.minpad) % g.plain)) % g.plain)
\* the padding size field: every padding byte carries the low byte of (padding bytes - size bytes); with two size bytes (keys
\* above 2048 bits) the last padding byte is ExtraPaddingSize, the high byte of that number
PadLo(g, pad) == IF pad = 0 THEN 0 ELSE (pad - g.minpad) % 256
PadHi(g, pad) == IF g.minpad = 2 THEN (pad - g.minpad) \div 256 ELSE 0
\* what the receiver takes for the number of padding bytes from those size bytes
PadRead(g, lo, hi) == hi * 256 + lo + g.minpad
SecuredSize(g, body) ==
  IF g.padded THEN g.hdr + ((SeqHdr + body + Pad(g, body) + g.sig) \div g.plain) * g.cipher
  ELSE g.hdr + SeqHdr + body + g.sig
\* the largest body whose secured chunk does not exceed the chunk size
MaxBody(g, cs) ==
  IF g.padded THEN ((cs - g.hdr) \div g.cipher) * g.plain - SeqHdr - g.sig - g.minpad
  ELSE cs - g.hdr - SeqHdr - g.sig

CeilDiv(a, b) == (a + b - 1) \div b

-----------------------------------------------------------------------------
(* L1: the chunks of a message (greedy split into bodies of the maximal size) *)
NChunks(c) == IF c.cs = 0 THEN 1 ELSE CeilDiv(c.len, MaxBody(Cfg(c), c.cs))
BodyOf(c, i) ==
  IF c.cs = 0 THEN c.len
  ELSE LET b == MaxBody(Cfg(c), c.cs) IN IF i < NChunks(c) THEN b ELSE c.len - (NChunks(c) - 1) * b

Layout(c) ==
  LET g == Cfg(c)
      n == NChunks(c)
  IN [n |-> n,
      chunks |-> [i \in 1..n |->
         [body |-> BodyOf(c, i), pad |-> Pad(g, BodyOf(c, i)), plo |-> PadLo(g, Pad(g, BodyOf(c, i))), phi |-> PadHi(g, Pad(g, BodyOf(c, i))),
          sig |-> g.sig, size |-> SecuredSize(g, BodyOf(c, i)),
          fin |-> IF i = n THEN "F" ELSE "C", seq |-> c.seq0 + i - 1, req |-> c.req]]]

-----------------------------------------------------------------------------
(* abstract pipeline: a chunk is a sequence of segments                       *)
Piece(lo, hi) == [t |-> "msg", lo |-> lo, hi |-> hi]
Fill(t, n) == [t |-> t, lo |-> 1, hi |-> n]

RECURSIVE SumBodies(_, _)
SumBodies(c, i) == IF i = 0 THEN 0 ELSE BodyOf(c, i) + SumBodies(c, i - 1)

Split(c) == [i \in 1..NChunks(c) |-> <<Piece(SumBodies(c, i - 1) + 1, SumBodies(c, i))>>]
\* the sender appends padding (when the chunk is padded) and the signature (when it is secured)
Secure(c, chunks) ==
  [i \in 1..Len(chunks) |->
     chunks[i] \o (IF Pad(Cfg(c), BodyOf(c, i)) > 0 THEN <<Fill("pad", Pad(Cfg(c), BodyOf(c, i)))>> ELSE <<>>)
               \o (IF Cfg(c).sig > 0 THEN <<Fill("sig", Cfg(c).sig)>> ELSE <<>>)]
\* the receiver verifies and removes the signature, and the padding of chunks that were encrypted
DropLast(s) == SubSeq(s, 1, Len(s) - 1)
Receive(c, chunks) ==
  [i \in 1..Len(chunks) |->
     LET a == IF Len(chunks[i]) > 0 /\ chunks[i][Len(chunks[i])].t = "sig" THEN DropLast(chunks[i]) ELSE chunks[i]
     IN IF Encrypted(c) /\ Len(a) > 0 /\ a[Len(a)].t = "pad" THEN DropLast(a) ELSE a]
\* concatenation of what the chunks carry, adjacent pieces of the message merged
RECURSIVE Concat(_, _)
Concat(chunks, i) == IF i = 0 THEN <<>> ELSE Concat(chunks, i - 1) \o chunks[i]
RECURSIVE Merge(_)
Merge(s) ==
  IF Len(s) < 2 THEN s
  ELSE LET r == Merge(Tail(s)) IN
       IF s[1].t = "msg" /\ r[1].t = "msg" /\ s[1].hi + 1 = r[1].lo THEN <<Piece(s[1].lo, r[1].hi)>> \o Tail(r) ELSE <<s[1]>> \o r
Reassemble(chunks) == Merge(Concat(chunks, Len(chunks)))
\* the decoder reads one message from the front of the reassembled body; what follows the end of that message (the
\* padding of a final chunk that was only signed, under DevSignPadded) is not looked at
Decoded(s) == IF Len(s) = 0 THEN <<>> ELSE <<s[1]>>
Message(c) == <<Piece(1, c.len)>>

\* the property on the specified layout
DesignHolds(c) ==
  LET L == Layout(c)
      g == Cfg(c)
  IN /\ Decoded(Reassemble(Receive(c, Secure(c, Split(c))))) = Message(c)
     /\ \A i \in 1..L.n :
          /\ L.chunks[i].seq = c.seq0 + i - 1
          /\ L.chunks[i].req = c.req
          /\ (L.chunks[i].fin = "F") = (i = L.n)
          /\ L.chunks[i].body > 0
          /\ c.cs > 0 => L.chunks[i].size <= c.cs
          /\ g.padded => /\ (SeqHdr + L.chunks[i].body + L.chunks[i].pad + g.sig) % g.plain = 0
                         /\ L.chunks[i].pad >= g.minpad
                         /\ L.chunks[i].pad < g.plain + g.minpad
                         \* the size byte(s) are bytes and the receiver reads the number of padding bytes back from them
                         /\ L.chunks[i].plo \in 0..255 /\ L.chunks[i].phi \in 0..255
                         /\ PadRead(g, L.chunks[i].plo, L.chunks[i].phi) = L.chunks[i].pad
          /\ ~Encrypted(c) /\ ~DevSignPadded => L.chunks[i].pad = 0
     \* the chunk size is used: one more byte in a full chunk would not fit
     /\ c.cs > 0 => /\ SecuredSize(g, MaxBody(g, c.cs)) <= c.cs
                    /\ SecuredSize(g, MaxBody(g, c.cs) + 1) > c.cs
     /\ c.kind = "opn" => L.n = 1

-----------------------------------------------------------------------------
(* L2: the judge, on what the real sender produced and the real receiver got  *)
LayoutViol(e) ==
  LET c == e.c
      r == e.r
      n == Len(r.chunks)
      \* the receiver did not get the message back: the decoded message differs, or the reassembled body does not decode at all
      lost == (r.fail = "none" /\ ~r.eq) \/ (r.fail # "none" /\ r.stage = "decode")
  IN IF r.len # c.len THEN {"case-not-built:message-size"}
     ELSE IF r.fail # "none" /\ r.stage # "decode" THEN {"roundtrip-failed:" \o r.stage \o ":" \o r.site}
     ELSE (IF ~lost THEN {}
           ELSE {"reassembly:" \o (IF c.kind = "msg" /\ c.mode = "Sign" /\ n >= 2 /\ r.diffat = r.chunks[1].body /\ r.relen > c.len
                                   THEN "DevSignPadded" ELSE "unexplained")})
     \cup (IF \A i \in 1..n : r.chunks[i].seq = c.seq0 + i - 1 /\ r.chunks[i].rseq = c.seq0 + i - 1 THEN {} ELSE {"sequence-numbers-not-consecutive"})
     \cup (IF \A i \in 1..n : r.chunks[i].req = c.req /\ r.chunks[i].rreq = c.req THEN {} ELSE {"request-id-not-the-same-on-every-chunk"})
     \cup (IF \A i \in 1..n : (r.chunks[i].fin = (IF i = n THEN "F" ELSE "C")) /\ r.chunks[i].rfin = r.chunks[i].fin
           THEN {} ELSE {"final-flag-not-exactly-on-the-last-chunk"})
     \cup (IF n >= 1 THEN {} ELSE {"no-chunk-produced"})
     \cup (IF c.cs > 0 /\ \E i \in 1..n : r.chunks[i].slen > c.cs THEN {"chunk-exceeds-negotiated-size:" \o c.kind} ELSE {})
=============================================================================
