------------------------------- MODULE GenNum -------------------------------
EXTENDS MCNum, Json, SequencesExt
Emit == c.op = "seed" \/ PrintT(<<"CASE", ToJson(
          IF c.op = "table" THEN [c |-> [op |-> "table", line |-> Line, lo |-> Lo, hi |-> Hi], exp |-> [ok |-> TRUE]]
          ELSE [c |-> [op |-> c.op, src |-> c.src, p |-> c.p, enc |-> c.enc, dst |-> c.dst,
                       cand |-> SetToSeq(Cand(c.p, c.dst))],
                exp |-> NumSpec(c)])>>)
=============================================================================
