----------------------------- MODULE SubsDriver -----------------------------
(* Bounded, nondeterministic driver of Subscription.tla shared by the model  *)
(* checking configuration (MCSubs) and the case generator (GenSubs).         *)
EXTENDS Subscription

CONSTANTS
  Acts,        \* subset of {"CreateSub","DeleteSub","SetPubMode","CreateItem","DeleteItem","Write","Pub","Tick","Republish"}
  Scripts,     \* set of scripts; a script is a sequence of steps executed first, e.g.
               \* <<<<"CreateSub",1,ka,lt,en,prio,itv>>, <<"CreateItem",1,1,node,qsize,dold,mode,samp>>, <<"Tick",1>>, <<"Pub">>>>
  KAs, LtExtra, Ens, Prios, Itvs, QSizes, Dolds, Samps, Dts, Hints, TsOffs,
  MaxDepth, MaxPubs, MaxWrites, MaxTicks, AckModes

VARIABLES depth, nPub, nWrite, nTick, nSub, script

dvars == <<depth, nPub, nWrite, nTick, nSub, script>>

DInit == Init /\ depth = 0 /\ nPub = 0 /\ nWrite = 0 /\ nTick = 0 /\ nSub = 0
         /\ script \in (IF Scripts = {} THEN {<<>>} ELSE Scripts)

RetxKeys == {<<x.sub, x.seq>> : x \in retx}
AckChoices ==
  (IF "none" \in AckModes THEN {<<>>} ELSE {})
  \cup (IF "one" \in AckModes THEN {<<a>> : a \in RetxKeys} ELSE {})
  \cup (IF "all" \in AckModes /\ RetxKeys # {} THEN {SetToSortSeq(RetxKeys, LAMBDA a, b : a[1] < b[1] \/ (a[1] = b[1] /\ a[2] < b[2]))} ELSE {})
  \cup (IF "bogus" \in AckModes THEN {<<<<1, 99>>>>} \cup {<<a, a>> : a \in RetxKeys} ELSE {})

SetupStep ==
  LET s == script[depth + 1] IN
  CASE s[1] = "CreateSub"  -> CreateSub(s[2], s[3], s[4], s[5], s[6], s[7]) /\ nSub' = s[2]
    [] s[1] = "CreateItem" -> CreateItem(s[2], s[3], s[4], s[5], s[6], s[7], s[8]) /\ UNCHANGED nSub
    [] s[1] = "Tick"       -> TimerTick(now + s[2]) /\ UNCHANGED nSub
    [] s[1] = "Pub"        -> Publish(100 + depth, IF Len(s) > 1 THEN s[2] ELSE <<>>, now, 0) /\ UNCHANGED nSub
    [] s[1] = "SetPubMode" -> SetPublishingMode(s[2], s[3]) /\ UNCHANGED nSub
    [] s[1] = "ModifySub"  -> ModifySub(s[2], s[3], s[4], s[5], s[6]) /\ UNCHANGED nSub
    [] s[1] = "DeleteSub"  -> DeleteSub(s[2]) /\ UNCHANGED nSub
    [] s[1] = "DeleteItem" -> DeleteItem(s[2], s[3]) /\ UNCHANGED nSub
    [] s[1] = "Republish"  -> Republish(s[2], s[3]) /\ UNCHANGED nSub
    [] s[1] = "ModifyItem" -> ModifyItem(s[2], s[3], s[4], s[5]) /\ UNCHANGED nSub
    [] s[1] = "Write"      -> Write(s[2], s[3]) /\ UNCHANGED nSub

Free ==
  \/ /\ "CreateSub" \in Acts
     /\ nSub + 1 \in SubIds            \* subscription ids are never re-used (as in the server)
     /\ \E ka \in KAs, x \in LtExtra, en \in Ens, pr \in Prios, iv \in Itvs :
          CreateSub(nSub + 1, ka, 3 * ka + x, en, pr, iv)
     /\ nSub' = nSub + 1
     /\ UNCHANGED <<nPub, nWrite, nTick>>
  \/ /\ "DeleteSub" \in Acts /\ \E id \in SubIds : DeleteSub(id) /\ UNCHANGED <<nPub, nWrite, nTick, nSub>>
  \/ /\ "SetPubMode" \in Acts /\ \E id \in SubIds, en \in BOOLEAN : (id \in DOMAIN subs /\ subs[id].en # en /\ SetPublishingMode(id, en))
     /\ UNCHANGED <<nPub, nWrite, nTick, nSub>>
  \/ /\ "ModifySub" \in Acts
     /\ \E id \in SubIds, ka \in KAs, x \in LtExtra, pr \in Prios, iv \in Itvs :
          (id \in DOMAIN subs
           /\ <<ka, 3 * ka + x, pr, iv>> # <<subs[id].maxKA, subs[id].maxLT, subs[id].prio, subs[id].itv>>
           /\ ModifySub(id, ka, 3 * ka + x, pr, iv))
     /\ UNCHANGED <<nPub, nWrite, nTick, nSub>>
  \/ /\ "CreateItem" \in Acts
     /\ \E id \in SubIds, i \in ItemIds, n \in Nodes, qs \in QSizes, d \in Dolds, sm \in Samps :
          CreateItem(id, i, n, qs, d, "Reporting", sm)
     /\ UNCHANGED <<nPub, nWrite, nTick, nSub>>
  \/ /\ "ModifyItem" \in Acts
     /\ \E id \in SubIds, i \in ItemIds, qs \in QSizes, d \in Dolds :
          (id \in DOMAIN subs /\ i \in DOMAIN subs[id].items
           /\ (subs[id].items[i].qsize # qs \/ subs[id].items[i].dold # d) /\ ModifyItem(id, i, qs, d))
     /\ UNCHANGED <<nPub, nWrite, nTick, nSub>>
  \/ /\ "SetMode" \in Acts
     /\ \E id \in SubIds, i \in ItemIds, m \in {"Disabled", "Sampling", "Reporting"} :
          (id \in DOMAIN subs /\ i \in DOMAIN subs[id].items /\ subs[id].items[i].mode # m /\ SetMode(id, i, m))
     /\ UNCHANGED <<nPub, nWrite, nTick, nSub>>
  \/ /\ "DeleteItem" \in Acts /\ \E id \in SubIds, i \in ItemIds : DeleteItem(id, i) /\ UNCHANGED <<nPub, nWrite, nTick, nSub>>
  \/ /\ "Write" \in Acts /\ nWrite < MaxWrites
     /\ \E n \in Nodes, v \in Vals : v # nodeVal[n] /\ Write(n, v)
     /\ nWrite' = nWrite + 1 /\ UNCHANGED <<nPub, nTick, nSub>>
  \/ /\ "Pub" \in Acts /\ nPub < MaxPubs
     /\ \E a \in AckChoices, h \in Hints, o \in TsOffs : Publish(nPub + 1, a, now + o, h)
     /\ nPub' = nPub + 1 /\ UNCHANGED <<nWrite, nTick, nSub>>
  \/ /\ "Tick" \in Acts /\ nTick < MaxTicks
     /\ \E d \in Dts : TimerTick(now + d)
     /\ nTick' = nTick + 1 /\ UNCHANGED <<nPub, nWrite, nSub>>
  \/ /\ "Republish" \in Acts
     /\ \E a \in RetxKeys \cup {<<1, 98>>} : Republish(a[1], a[2])
     /\ UNCHANGED <<nPub, nWrite, nTick, nSub>>

DNext ==
  /\ depth < MaxDepth
  /\ depth' = depth + 1
  /\ script' = script
  /\ IF depth < Len(script) THEN SetupStep /\ UNCHANGED <<nPub, nWrite, nTick>> ELSE Free

Done == depth = MaxDepth \/ (Acts = {} /\ depth = Len(script))
=============================================================================
