------------------------------ MODULE RenewSend ------------------------------
(***************************************************************************)
(* L1: Renew.tla with the client caller side replaced by the orchestration  *)
(* of the real AsyncSecureChannel::send (client/transport/channel.rs), run  *)
(* by SEVERAL concurrent caller tasks.  One action per poll of a caller's   *)
(* future, i.e. the code between two await points:                          *)
(*                                                                          *)
(*   send(request):                                                         *)
(*     if should_renew_security_token()            -- token is `due'        *)
(*        guard = issue_channel_lock.lock().await  -- tokio Mutex, FIFO     *)
(*        if should_renew_security_token()                                  *)
(*           req = begin_issue_or_renew(Renew)     -- makes a new local     *)
(*                                                    nonce, queues OPNQ    *)
(*           resp = req.send().await                                        *)
(*           end_issue_or_renew(resp)              -- derives keys from the *)
(*                                                    local nonce held NOW  *)
(*        drop(guard)                                                       *)
(*     Request::new(request).send().await          -- queues MSG            *)
(*                                                                          *)
(* The client transport task takes requests from the queue and secures each *)
(* with the keys the channel holds at that moment (ClientWrite); it hands a  *)
(* verified response to the caller that waits for it (ClientRecvS).          *)
(* The server side is the one of Renew.tla.                                  *)
(*                                                                          *)
(* DevBeginOutsideLock: begin_issue_or_renew is called BEFORE the lock is    *)
(* taken (a plausible refactoring): a caller that finds the token due while  *)
(* another caller's renewal is in flight overwrites the local nonce.         *)
(***************************************************************************)
EXTENDS Renew

CONSTANTS
  Callers,               \* caller task ids (small naturals)
  DevBeginOutsideLock

VARIABLES
  pc,      \* caller -> "idle" | "lockwait" | "opnwait" | "respwait"
  lock,    \* holder of issue_channel_lock, 0 = free
  waitq,   \* callers waiting for the lock, first come first served
  due,     \* should_renew_security_token()
  outq,    \* request queue of the channel: [k, id, n]
  inbox,   \* caller -> response handed over by the transport task: 0 none, -1 a service response, t>0 the token of an OPN response
  owner    \* request id -> caller that waits for its response

svars == <<pc, lock, waitq, due, outq, inbox, owner>>
allvars == <<vars, svars>>

SInit ==
  /\ Init
  /\ pc = [i \in Callers |-> "idle"]
  /\ lock = 0 /\ waitq = <<>> /\ due = FALSE /\ outq = <<>>
  /\ inbox = [i \in Callers |-> 0]
  /\ owner = <<>>

EC(ev, i, did, tok) == [ev |-> ev, side |-> "client", k |-> did, id |-> i, tok |-> tok, acc |-> TRUE, fail |-> "none"]

Waiting == Cardinality({j \in Callers : pc[j] \in {"lockwait", "opnwait"}})

\* Request::new(request).send(): the request is in the queue, the caller waits for its response
EnqMsg(i, q) ==
  /\ outq' = Append(q, [k |-> "MSG", id |-> nSent + 1, n |-> 0])
  /\ nSent' = nSent + 1
  /\ owner' = owner @@ ((nSent + 1) :> i)
  /\ pc' = [pc EXCEPT ![i] = "respwait"]

\* begin_issue_or_renew_secure_channel(Renew) followed by request.send(): new local nonce, OPNQ queued
Begin(i) ==
  LET id == 100 + nRenew + 1 IN
  /\ outq' = Append(outq, [k |-> "OPNQ", id |-> id, n |-> id])
  /\ c' = [c EXCEPT !.pend = nRenew + 2, !.gen = id]
  /\ nRenew' = nRenew + 1
  /\ owner' = owner @@ (id :> i)
  /\ pc' = [pc EXCEPT ![i] = "opnwait"]

Release == IF waitq = <<>> THEN lock' = 0 /\ waitq' = waitq
           ELSE lock' = Head(waitq) /\ waitq' = Tail(waitq)

\* first poll of send()
CallerStart(i) ==
  /\ pc[i] = "idle" /\ nSent + Waiting < MaxMsgs
  /\ IF ~due
     THEN /\ EnqMsg(i, outq) /\ UNCHANGED <<c, nRenew, lock, waitq>>
          /\ evt' = EC("Call", i, "msg", 0)
     ELSE IF lock = 0
     THEN /\ Begin(i) /\ lock' = i /\ UNCHANGED <<nSent, waitq>>
          /\ evt' = EC("Call", i, "begin", 0)
     ELSE /\ pc' = [pc EXCEPT ![i] = "lockwait"] /\ waitq' = Append(waitq, i)
          \* the departure: the nonce is made before the lock is taken; the prepared request is dropped later
          /\ c' = IF DevBeginOutsideLock THEN [c EXCEPT !.gen = 200 + i] ELSE c
          /\ UNCHANGED <<nSent, nRenew, lock, outq, owner>>
          /\ evt' = EC("Call", i, "wait", 0)
  /\ UNCHANGED <<s, c2s, s2c, respq, issued, due, inbox>>

\* the lock was handed to this caller: second check
CallerLock(i) ==
  /\ pc[i] = "lockwait" /\ lock = i
  /\ IF due
     THEN /\ Begin(i) /\ UNCHANGED <<nSent, lock, waitq>>
          /\ evt' = EC("Resume", i, "begin", 0)
     ELSE /\ Release /\ EnqMsg(i, outq) /\ UNCHANGED <<c, nRenew>>
          /\ evt' = EC("Resume", i, "msg", 0)
  /\ UNCHANGED <<s, c2s, s2c, respq, issued, due, inbox>>

\* the OPN response arrived: end_issue_or_renew, unlock, queue the request itself
CallerOpn(i) ==
  /\ pc[i] = "opnwait" /\ inbox[i] > 0
  /\ c' = IF DevSingleKeySlot THEN [cur |-> inbox[i], prev |-> 0, pend |-> 0, got |-> 0, gen |-> c.gen, n |-> c.gen, pn |-> 0]
          ELSE [c EXCEPT !.pend = 0, !.got = 0]
  /\ due' = FALSE
  /\ Release
  /\ EnqMsg(i, outq)
  /\ inbox' = [inbox EXCEPT ![i] = 0]
  /\ evt' = EC("EndRenew", i, "OPNR", inbox[i])
  /\ UNCHANGED <<s, c2s, s2c, respq, nRenew, issued>>

\* the response of the request arrived: send() returns
CallerResp(i) ==
  /\ pc[i] = "respwait" /\ inbox[i] = -1
  /\ pc' = [pc EXCEPT ![i] = "idle"]
  /\ inbox' = [inbox EXCEPT ![i] = 0]
  /\ evt' = EC("Done", i, "msg", 0)
  /\ UNCHANGED <<c, s, c2s, s2c, respq, nSent, nRenew, issued, lock, waitq, due, outq, owner>>

\* client transport task, sending half: secure the oldest queued request with the keys held NOW
ClientWrite ==
  /\ outq # <<>>
  /\ LET r == Head(outq)
         m == IF r.k = "OPNQ" THEN [k |-> "OPNQ", id |-> r.id, tok |-> 0, n |-> r.n]
              ELSE [k |-> "MSG", id |-> r.id, tok |-> c.cur, n |-> c.n]
     IN /\ c2s' = Append(c2s, m) /\ outq' = Tail(outq)
        /\ evt' = E("Secure", "client", m, TRUE)
  /\ UNCHANGED <<c, s, s2c, respq, nSent, nRenew, issued, pc, lock, waitq, due, inbox, owner>>

\* client transport task, receiving half
ClientRecvS ==
  /\ s2c # <<>>
  /\ LET m == Head(s2c) IN
     /\ s2c' = Tail(s2c)
     /\ IF m.k = "OPNR"
        THEN /\ c' = IF DevSingleKeySlot THEN [c EXCEPT !.got = m.tok]
                     ELSE [cur |-> m.tok, prev |-> c.cur, pend |-> c.pend, got |-> m.tok, gen |-> c.gen, n |-> c.gen, pn |-> c.n]
             /\ inbox' = [inbox EXCEPT ![owner[m.id]] = m.tok]
             /\ evt' = E("Deliver", "client", m, TRUE)
        ELSE /\ UNCHANGED c
             /\ inbox' = IF ClientAccepts(m) THEN [inbox EXCEPT ![owner[m.id]] = -1] ELSE inbox
             /\ evt' = E("Deliver", "client", m, ClientAccepts(m))
  /\ UNCHANGED <<s, c2s, respq, nSent, nRenew, issued, pc, lock, waitq, due, outq, owner>>

\* time passes: three quarters of the token's lifetime are over
TokenDue ==
  /\ ~due /\ c.pend = 0 /\ nRenew < MaxRenews
  /\ due' = TRUE
  /\ evt' = EC("TokenDue", 0, "due", c.cur)
  /\ UNCHANGED <<c, s, c2s, s2c, respq, nSent, nRenew, issued, pc, lock, waitq, outq, inbox, owner>>

NextS ==
  \/ \E i \in Callers : CallerStart(i) \/ CallerLock(i) \/ CallerOpn(i) \/ CallerResp(i)
  \/ ClientWrite \/ ClientRecvS \/ TokenDue
  \/ (ServerRecv /\ UNCHANGED svars)
  \/ (ServerWrite /\ UNCHANGED svars)
=============================================================================
