------------------------------ MODULE MCBrowse ------------------------------
EXTENDS BrowseDriver
VARIABLES mon, viol
MP == INSTANCE BrowseProps
MInit == DInit /\ mon = MP!M30Init /\ viol = {}
MNext == DNext /\ LET r == MP!Mon30Step(mon, evt', MaxCps) IN mon' = r.g /\ viol' = r.viol
MSpec == MInit /\ [][MNext]_<<vars, dvars, mon, viol>>
C30 == viol = {}
MView == <<nodes, cls, fwd, lastMod, cps, nextCp, nextKid, depth, phase, rnd, mon, viol>>
=============================================================================
