----------------------------- MODULE GenRenewSend -----------------------------
EXTENDS RenewSend, Json
CONSTANT MaxDepth
VARIABLES hist, depth
GInit == SInit /\ hist = <<>> /\ depth = 0
GNext == depth < MaxDepth /\ depth' = depth + 1 /\ NextS /\ hist' = Append(hist, evt')
GSpec == GInit /\ [][GNext]_<<allvars, hist, depth>>
\* a behaviour is printed when it cannot be extended or has reached the depth bound
Emit == (depth = MaxDepth \/ ~ENABLED NextS) => PrintT(<<"CASE", ToJson(hist)>>)
=============================================================================
