----------------------------- MODULE GenCodecLim -----------------------------
EXTENDS MCCodecLim, Json
Emit == PrintT(<<"CASE", ToJson([c |-> c, exp |-> IF Acc(c) THEN "ok" ELSE "err"])>>)
=============================================================================
