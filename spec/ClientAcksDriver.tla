---------------------------- MODULE ClientAcksDriver ----------------------------
(* Bounded, nondeterministic driver of ClientAcks.tla: any sequence of publish   *)
(* calls, publish responses (notification messages and keep-alives of any        *)
(* subscription, answered in any order), publish failures, subscription changes  *)
(* and connection changes; then a closing phase in which a last publish          *)
(* succeeds with a keep-alive, and End.                                          *)
EXTENDS ClientAcks

CONSTANTS
  Kinds,         \* subset of {"data", "status", "ka"}
  Hows,          \* subset of {"timeout", "fault", "unexpected", "dropped"}
  Links,         \* subset of {"up", "down", "closed"}: connection states visited
  SubChanges,    \* BOOLEAN: AddSub / DelSub steps
  MaxInflight,   \* publish requests in flight at most
  MaxNotif,      \* publish responses at most (free phase)
  MaxFail,       \* failures at most
  MaxFree        \* steps of the free phase

VARIABLES depth, nOk, nFail, phase, fin

dvars == <<depth, nOk, nFail, phase, fin>>

DInit == Init /\ depth = 0 /\ nOk = 0 /\ nFail = 0 /\ phase = "free" /\ fin = 0

Free ==
  \/ /\ Cardinality(DOMAIN inflight) < MaxInflight /\ Send /\ UNCHANGED <<nOk, nFail>>
  \/ /\ nOk < MaxNotif /\ \E r \in DOMAIN inflight, s \in Subs, k \in Kinds : Ok(r, s, k)
     /\ nOk' = nOk + 1 /\ UNCHANGED nFail
  \/ /\ nFail < MaxFail /\ \E r \in DOMAIN inflight, h \in Hows : Fail(r, h)
     /\ nFail' = nFail + 1 /\ UNCHANGED nOk
  \/ /\ SubChanges /\ \E s \in Subs : (AddSub(s) \/ DelSub(s)) /\ UNCHANGED <<nOk, nFail>>
  \/ /\ \E l \in Links : Link(l) /\ UNCHANGED <<nOk, nFail>>

DNext ==
  /\ depth' = depth + 1
  /\ IF phase = "free" /\ depth < MaxFree
     THEN Free /\ UNCHANGED <<phase, fin>>
     ELSE /\ UNCHANGED <<nOk, nFail>>
          /\ CASE phase = "free" /\ link # "up" -> Link("up") /\ UNCHANGED <<phase, fin>>
               [] phase = "free" /\ link = "up" -> Send /\ phase' = "sent" /\ fin' = nReq + 1
               [] phase = "sent" -> Ok(fin, CHOOSE x \in Subs : TRUE, "ka") /\ phase' = "acked" /\ UNCHANGED fin
               [] phase = "acked" -> End /\ phase' = "ended" /\ UNCHANGED fin
               [] OTHER -> FALSE

Done == phase = "ended"
=============================================================================
