---------------------------- MODULE TraceCodecRt ----------------------------
(* C01 judge.  One observation per value:                                    *)
(*   e.c = [ty, w]   the case;   e.r = what the real encoder / decoder did:   *)
(*   fail, site          "none" or "panic" and where                          *)
(*   st                  "ok" | "enc-err" | "dec-err"                         *)
(*   blen, wrote, bytes  byte_len(), the count returned by encode(), bytes    *)
(*   used                bytes the decoder consumed                           *)
(*   sent                the sentinels written before and after the value     *)
(*                       were both read back intact                           *)
(*   dec                 the decoded value (same shape as e.c.w)              *)
(*   st2, blen2, n2, used2, sent2, dec2   the same for the decoded value      *)
(*                       encoded and decoded once more                        *)
EXTENDS Codec, Json, IOUtils
ObsLog == ndJsonDeserialize(IOEnv.OBS)

Class(c) == IF c.ty = "Variant" /\ HasEmptyDimArray(c.w) THEN "empty-array-with-dimensions:"
            ELSE IF c.ty = "DataValue" /\ HasEmptyDimArray(c.w) THEN "empty-array-with-dimensions:" ELSE ""
NormW(ty, w) == Norm(ty, UnwrapC(ty, w))
RtViol(e) ==
  LET c == e.c  r == e.r  k == Class(c) IN
  IF r.fail # "none" THEN {k \o "fail:" \o r.site}
  ELSE IF r.st = "enc-err" THEN {k \o "encode-error"}
  ELSE (IF r.blen # Len(r.bytes) \/ r.wrote # Len(r.bytes) THEN {k \o "predicted-length-differs-from-bytes-written"} ELSE {})
       \cup IF r.st = "dec-err" THEN {k \o "decode-error"}
       ELSE (IF r.used # Len(r.bytes) THEN {k \o "decoder-consumed-wrong-length"} ELSE {})
            \cup (IF ~r.sent THEN {k \o "sentinel-lost"} ELSE {})
            \cup (IF NormW(c.ty, r.dec) # NormW(c.ty, c.w) THEN {k \o "value-differs"} ELSE {})
            \cup (IF r.st2 = "enc-err" THEN {k \o "re:encode-error"}
                  ELSE (IF r.blen2 # r.n2 THEN {k \o "re:predicted-length-differs-from-bytes-written"} ELSE {})
                       \cup IF r.st2 = "dec-err" THEN {k \o "re:decode-error"}
                       ELSE (IF r.used2 # r.n2 THEN {k \o "re:decoder-consumed-wrong-length"} ELSE {})
                            \cup (IF ~r.sent2 THEN {k \o "re:sentinel-lost"} ELSE {})
                            \cup (IF NormW(c.ty, r.dec2) # NormW(c.ty, c.w) THEN {k \o "re:value-differs"} ELSE {}))

VARIABLES l, out
T == INSTANCE TraceFn WITH Viol <- RtViol, Prop <- "C01", Obs <- ObsLog
TSpec == T!TSpec
=============================================================================
