--------------------------- MODULE ClientTransport ---------------------------
(***************************************************************************)
(* L1, implementation-shaped specification of the request/response          *)
(* bookkeeping of the client transport of locka99/opcua:                    *)
(*   client/transport/state.rs  Request::send / send_no_response            *)
(*   client/transport/core.rs   TransportState (message_states, deadlines,  *)
(*                              chunk assembly, close)                      *)
(*   client/transport/tcp.rs    the glue "an error while handling an        *)
(*                              incoming message closes the transport"      *)
(*                                                                         *)
(* One action per call.  Every action produces the observation record      *)
(* (`evt') that the conformance harness produces for the same call on the  *)
(* real objects: the arguments of the call, `out' = the requests whose     *)
(* future became ready during the step (request, result kind, request      *)
(* handle carried by a response), `closed' and the projection `st'.        *)
(*                                                                         *)
(* Requests are numbered 1, 2, ... in submission order and carry the       *)
(* request handle 100 + r.  Request ids are 1, 2, ... in the order in      *)
(* which the transport takes requests from the queue (the real ids are     *)
(* 1000 + id).  The peer numbers the chunks it sends 1, 2, ...             *)
(*                                                                         *)
(* Every request has a timeout class, "short" or "long" (the harness uses   *)
(* 1000 s and 3000 s, far more than a behaviour lasts): the deadline of a   *)
(* short request is before that of every long one, and within a class the  *)
(* deadlines follow the order of submission.  A Poll record also tells for *)
(* which pending request the transport's timer is then armed (`armed',     *)
(* what next_timeout returns to wait_for_outgoing_message).                *)
(***************************************************************************)
EXTENDS Integers, Sequences, FiniteSets, SequencesExt, TLC

CONSTANTS
  QueueCap,        \* capacity of the request queue between Request::send and the transport
  MaxInflight,     \* TransportState::max_inflight
  MaxPending,      \* TransportState::max_pending_incoming (0 = no limit)
  MutKeepTimedOut, \* mutant (never the design): a timed-out request is answered but stays in the pending map
  MutArmLatest     \* mutant (never the design): the timer is armed for the latest instead of the earliest pending deadline

UnknownId == 99
Handle(r) == 100 + r

VARIABLES
  subm,      \* submitted requests: r -> [cb, cls]   (cb: the request expects a response; cls: timeout class)
  blocked,   \* requests whose send waits for room in the queue, oldest first
  queue,     \* the request queue, oldest first
  pending,   \* message_states: id -> [r, chunks (sequence numbers stored), expired, dl (abstract deadline)]
  idOf,      \* r -> request id (0 = not taken yet)
  nextId,    \* SendBuffer::last_request_id
  lastRecv,  \* TransportState::last_received_sequence_number
  nextSeq,   \* peer: sequence number of the next chunk it sends
  closed,    \* "none" or the status the transport was closed with
  comp,      \* ghost: r -> sequence of results delivered to the requester
  evt        \* observation record of the last action

vars == <<subm, blocked, queue, pending, idOf, nextId, lastRecv, nextSeq, closed, comp, evt>>

-----------------------------------------------------------------------------
Res(r, k, h) == [r |-> r, k |-> k, h |-> h]

\* abstract deadlines: <<class rank, request number>>, ordered lexicographically
Deadline(r, cls) == <<IF cls = "short" THEN 0 ELSE 1, r>>
DlLe(a, b) == a[1] < b[1] \/ (a[1] = b[1] /\ a[2] <= b[2])
\* TransportState::next_timeout: the pending request, not yet due, with the earliest deadline (0 = none)
Armed(p) ==
  LET live == {id \in DOMAIN p : ~p[id].expired} IN
  IF live = {} THEN 0
  ELSE IF MutArmLatest THEN CHOOSE id \in live : \A x \in live : DlLe(p[x].dl, p[id].dl)
  ELSE CHOOSE id \in live : \A x \in live : DlLe(p[id].dl, p[x].dl)

\* results sorted by request number (the harness polls the request futures in that order)
SortOut(S) == SetToSortSeq(S, LAMBDA a, b : a.r < b.r)

Deliver(c, outs) == [r \in DOMAIN c |-> c[r] \o SelectSeq(outs, LAMBDA o : o.r = r)]

\* waiting senders enter the queue while there is room; a request that expects no response is complete
\* as soon as it is in the queue
RECURSIVE Settle(_, _, _)
Settle(bl, qu, sent) ==
  IF bl # <<>> /\ Len(qu) < QueueCap
  THEN Settle(Tail(bl), Append(qu, Head(bl)), IF subm[Head(bl)].cb THEN sent ELSE sent \cup {Res(Head(bl), "sent", 0)})
  ELSE [bl |-> bl, qu |-> qu, sent |-> sent]

Proj(p, lr, qu) ==
  [pend |-> LET o == SetToSortSeq(DOMAIN p, <) IN [j \in 1..Len(o) |-> <<o[j], Len(p[o[j]].chunks), p[o[j]].expired>>],
   last |-> lr,
   ql   |-> Len(qu)]

P == Proj(pending', lastRecv', queue')

Init ==
  /\ subm = <<>>
  /\ blocked = <<>>
  /\ queue = <<>>
  /\ pending = <<>>
  /\ idOf = <<>>
  /\ nextId = 0
  /\ lastRecv = 0
  /\ nextSeq = 1
  /\ closed = "none"
  /\ comp = <<>>
  /\ evt = [ev |-> "Init"]

-----------------------------------------------------------------------------
\* Request::send (cb) / Request::send_no_response (~cb) of request r
Submit(r, cb, cls) ==
  /\ r \notin DOMAIN subm
  /\ subm' = [x \in DOMAIN subm \cup {r} |-> IF x = r THEN [cb |-> cb, cls |-> cls] ELSE subm[x]]
  /\ idOf' = [x \in DOMAIN idOf \cup {r} |-> IF x = r THEN 0 ELSE idOf[x]]
  /\ LET outs == IF closed # "none" THEN <<Res(r, "BadConnectionClosed", 0)>>        \* the queue is closed
                 ELSE IF Len(queue) < QueueCap /\ ~cb THEN <<Res(r, "sent", 0)>>
                 ELSE <<>>
     IN /\ comp' = Deliver([x \in DOMAIN comp \cup {r} |-> IF x = r THEN <<>> ELSE comp[x]], outs)
        /\ IF closed # "none" THEN UNCHANGED <<blocked, queue>>
           ELSE IF Len(queue) < QueueCap THEN queue' = Append(queue, r) /\ UNCHANGED blocked
           ELSE blocked' = Append(blocked, r) /\ UNCHANGED queue
        /\ UNCHANGED <<pending, nextId, lastRecv, nextSeq, closed>>
        /\ evt' = [ev |-> "Submit", r |-> r, cb |-> cb, cls |-> cls, h |-> Handle(r), id |-> 0, kind |-> "", hit |-> FALSE,
                   took |-> 0, armed |-> 0, out |-> outs, closed |-> "none", st |-> P]

\* one call of TransportState::wait_for_outgoing_message: time out what is due, then take the next
\* request from the queue if fewer than MaxInflight requests are pending
Poll ==
  /\ closed = "none"
  /\ LET due  == {id \in DOMAIN pending : pending[id].expired}
         p1   == IF MutKeepTimedOut THEN pending ELSE [id \in DOMAIN pending \ due |-> pending[id]]
         take == Cardinality(DOMAIN p1) < MaxInflight /\ queue # <<>>
         r    == Head(queue)
         id   == nextId + 1
         p2   == IF take /\ subm[r].cb
                 THEN [x \in DOMAIN p1 \cup {id} |-> IF x = id THEN [r |-> r, chunks |-> <<>>, expired |-> FALSE, dl |-> Deadline(r, subm[r].cls)] ELSE p1[x]]
                 ELSE p1
         s    == IF take THEN Settle(blocked, Tail(queue), {}) ELSE [bl |-> blocked, qu |-> queue, sent |-> {}]
         outs == SortOut({Res(pending[id2].r, "BadTimeout", 0) : id2 \in due} \cup s.sent)
     IN /\ pending' = p2
        /\ queue' = s.qu
        /\ blocked' = s.bl
        /\ nextId' = IF take THEN id ELSE nextId
        /\ idOf' = IF take THEN [idOf EXCEPT ![r] = id] ELSE idOf
        /\ comp' = Deliver(comp, outs)
        /\ UNCHANGED <<subm, lastRecv, nextSeq, closed>>
        /\ evt' = [ev |-> "Poll", r |-> 0, cb |-> FALSE, cls |-> "", h |-> 0, id |-> IF take THEN id ELSE 0, kind |-> "", hit |-> FALSE,
                   took |-> IF take THEN r ELSE 0, armed |-> Armed(p2), out |-> outs, closed |-> "none", st |-> P]

\* the deadline of pending request id passes
Expire(id) ==
  /\ closed = "none"
  /\ id \in DOMAIN pending
  /\ ~pending[id].expired
  /\ pending' = [pending EXCEPT ![id].expired = TRUE]
  /\ UNCHANGED <<subm, blocked, queue, idOf, nextId, lastRecv, nextSeq, closed, comp>>
  /\ evt' = [ev |-> "Expire", r |-> 0, cb |-> FALSE, cls |-> "", h |-> 0, id |-> id, kind |-> "", hit |-> TRUE,
             took |-> 0, armed |-> 0, out |-> <<>>, closed |-> "none", st |-> P]

\* TransportState::close: every pending and every queued request ends with the close status
\* (BadConnectionClosed for a good status); senders still waiting for room see the closed queue
CloseOuts(p, qu, bl, status) ==
  LET rs == IF status = "Good" THEN "BadConnectionClosed" ELSE status
  IN {Res(p[id].r, rs, 0) : id \in DOMAIN p}
     \cup {Res(qu[j], rs, 0) : j \in {k \in 1..Len(qu) : subm[qu[k]].cb}}
     \cup {Res(bl[j], "BadConnectionClosed", 0) : j \in 1..Len(bl)}

Close(status) ==
  /\ closed = "none"
  /\ pending' = <<>>
  /\ queue' = <<>>
  /\ blocked' = <<>>
  /\ closed' = status
  /\ UNCHANGED <<subm, idOf, nextId, lastRecv, nextSeq>>
  /\ LET outs == SortOut(CloseOuts(pending, queue, blocked, status))
     IN /\ comp' = Deliver(comp, outs)
        /\ evt' = [ev |-> "Close", r |-> 0, cb |-> FALSE, cls |-> "", h |-> 0, id |-> 0, kind |-> status, hit |-> FALSE,
                   took |-> 0, armed |-> 0, out |-> outs, closed |-> status, st |-> P]

\* the chunks of a message are validated in the order of arrival (merge_chunks does not repair anything):
\* Run = the longest prefix with consecutive sequence numbers
RECURSIVE Run(_)
Run(s) == IF Len(s) <= 1 THEN s
          ELSE LET f == Run(Front(s)) IN IF Len(f) = Len(s) - 1 /\ s[Len(s)] = s[Len(s) - 1] + 1 THEN s ELSE f

\* the peer sends the next chunk of a response with request id `id'
\* (handle_incoming_message -> process_chunk; an error closes the transport as TcpTransport::poll does)
Chunk(id, kind) ==
  /\ closed = "none"
  /\ nextSeq' = nextSeq + 1
  /\ LET seq  == nextSeq
         base == [ev |-> "Chunk", r |-> 0, cb |-> FALSE, cls |-> "", armed |-> 0, h |-> IF id \in 1..nextId THEN Handle(CHOOSE r \in DOMAIN idOf : idOf[r] = id) ELSE 999,
                  id |-> id, kind |-> kind, hit |-> id \in DOMAIN pending, took |-> 0]
     IN
     IF id \notin DOMAIN pending
     THEN \* no corresponding request: ignored
          /\ UNCHANGED <<subm, blocked, queue, pending, idOf, nextId, lastRecv, closed, comp>>
          /\ evt' = base @@ [out |-> <<>>, closed |-> "none", st |-> P]
     ELSE
     LET ms   == pending[id]
         rest == [x \in DOMAIN pending \ {id} |-> pending[x]]
     IN
     CASE kind = "inter" ->
            LET ch == Append(ms.chunks, seq) IN
            IF MaxPending > 0 /\ Len(ch) > MaxPending
            THEN LET outs == <<Res(ms.r, "BadEncodingLimitsExceeded", 0)>>
                 IN /\ pending' = rest /\ comp' = Deliver(comp, outs)
                    /\ UNCHANGED <<subm, blocked, queue, idOf, nextId, lastRecv, closed>>
                    /\ evt' = base @@ [out |-> outs, closed |-> "none", st |-> P]
            ELSE /\ pending' = [pending EXCEPT ![id].chunks = ch]
                 /\ UNCHANGED <<subm, blocked, queue, idOf, nextId, lastRecv, closed, comp>>
                 /\ evt' = base @@ [out |-> <<>>, closed |-> "none", st |-> P]
       [] kind = "abort" ->
            LET outs == <<Res(ms.r, "BadCommunicationError", 0)>>
            IN /\ pending' = rest /\ comp' = Deliver(comp, outs)
               /\ UNCHANGED <<subm, blocked, queue, idOf, nextId, lastRecv, closed>>
               /\ evt' = base @@ [out |-> outs, closed |-> "none", st |-> P]
       [] kind = "final" ->
            LET all == Append(ms.chunks, seq)
                err == IF all[1] < lastRecv + 1 THEN "BadSequenceNumberInvalid"     \* Chunker::validate_chunks
                       ELSE IF Len(Run(all)) < Len(all) THEN "BadSecurityChecksFailed"  \* ... : a gap in the sequence numbers
                       ELSE "none"
            IN IF err = "none"
               THEN LET outs == <<Res(ms.r, "resp", base.h)>>
                    IN /\ pending' = rest /\ comp' = Deliver(comp, outs) /\ lastRecv' = seq
                       /\ UNCHANGED <<subm, blocked, queue, idOf, nextId, closed>>
                       /\ evt' = base @@ [out |-> outs, closed |-> "none", st |-> P]
               ELSE \* the request's callback is dropped with its state, then the transport closes with the error
                    LET outs == SortOut({Res(ms.r, "BadConnectionClosed", 0)} \cup CloseOuts(rest, queue, blocked, err))
                    IN /\ pending' = <<>> /\ queue' = <<>> /\ blocked' = <<>> /\ closed' = err
                       /\ comp' = Deliver(comp, outs)
                       /\ lastRecv' = lastRecv
                       /\ UNCHANGED <<subm, idOf, nextId>>
                       /\ evt' = base @@ [out |-> outs, closed |-> err, st |-> P]

=============================================================================
