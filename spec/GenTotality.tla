----------------------------- MODULE GenTotality -----------------------------
EXTENDS MCTotality, Json
Emit == PrintT(<<"CASE", ToJson([c |-> c, exp |-> Expected(c)])>>)
=============================================================================
