----------------------------- MODULE MCNodeMgmt -----------------------------
EXTENDS NodeMgmtDriver
VARIABLES mon, viol
MP == INSTANCE NodeMgmtProps
MInit == DInit /\ mon = MP!M34Init /\ viol = {}
MNext == DNext /\ LET r == MP!Mon34Step(mon, evt') IN mon' = r.g /\ viol' = r.viol
MSpec == MInit /\ [][MNext]_<<vars, depth, mon, viol>>
C34 == viol = {}
MView == <<nodes, refs, names, nextAuto, depth, mon, viol>>
=============================================================================
