----------------------------- MODULE MCCertTrust -----------------------------
EXTENDS CertTrust
VARIABLE c
Init == c \in Cases
Next == UNCHANGED c
Spec == Init /\ [][Next]_c
DesignOK == TrustViol([c |-> c, r |-> Expected(c)]) = {}
=============================================================================
