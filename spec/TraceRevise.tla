----------------------------- MODULE TraceRevise -----------------------------
EXTENDS Revise, Json, IOUtils
ObsLog == ndJsonDeserialize(IOEnv.OBS)
VARIABLES l, out
T == INSTANCE TraceFn WITH Viol <- ReviseViol, Prop <- "C23", Obs <- ObsLog
TSpec == T!TSpec
=============================================================================
