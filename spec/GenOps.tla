------------------------------- MODULE GenOps -------------------------------
EXTENDS MCOps, Json, SequencesExt
Emit == PrintT(<<"CASE", ToJson([c |-> [kind |-> "ops", els |-> c, wf |-> WellFormed(c)],
                                 exp |-> IF WellFormed(c) THEN SetToSeq(Expected(c)) ELSE <<>>])>>)
=============================================================================
