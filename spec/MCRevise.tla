------------------------------ MODULE MCRevise ------------------------------
(* one TLC state per point of the input space; the specified revision must satisfy the property *)
EXTENDS Revise
VARIABLE c
Init == c \in Cases
Next == UNCHANGED c
Spec == Init /\ [][Next]_c
DesignOK == IF c.kind = "sub" THEN SubOK(c, RevSub(c)) = {} ELSE ItemOK(c, RevItem(c)) = {}
=============================================================================
