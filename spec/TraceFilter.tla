----------------------------- MODULE TraceFilter -----------------------------
EXTENDS Filter, Json, IOUtils
ObsLog == ndJsonDeserialize(IOEnv.OBS)
VARIABLES l, out
T == INSTANCE TraceFn WITH Viol <- FilterViol, Prop <- "C25", Obs <- ObsLog
TSpec == T!TSpec
=============================================================================
