-------------------------- MODULE GenClientTransport --------------------------
(* Case generator: every behaviour of the driver up to MaxDepth is printed as   *)
(* one JSON line (the observation records the specification predicts).          *)
EXTENDS ClientTransportDriver, Json

VARIABLES hist

GInit == DInit /\ hist = <<>>
GNext == DNext /\ hist' = Append(hist, evt')
GSpec == GInit /\ [][GNext]_<<vars, depth, hist>>

Emit == Done => PrintT(<<"CASE", ToJson(hist)>>)
=============================================================================
