----------------------------- MODULE TraceTamper -----------------------------
EXTENDS Tamper, Json, IOUtils
ObsLog == ndJsonDeserialize(IOEnv.OBS)
VARIABLES l, out
T == INSTANCE TraceFn WITH Viol <- TamperViol, Prop <- "C08", Obs <- ObsLog
TSpec == T!TSpec
=============================================================================
