----------------------------- MODULE AspaceProps -----------------------------
(* L2 monitors for the address space engine, over observation records only.  *)
(* Ghost: R = the set of references added and not removed, ex = nodes alive. *)
EXTENDS Integers, Sequences, FiniteSets, SequencesExt, TLC

CONSTANTS Nodes, Types

Parent(t) == CASE t = "HC" -> "AG" [] t = "HP" -> "AG" [] t = "AG" -> "CH" [] t = "CH" -> "HI" [] t = "OR" -> "HI" [] OTHER -> "NONE"
RECURSIVE IsSub(_, _)
IsSub(t, f) == t = f \/ (Parent(t) # "NONE" /\ IsSub(Parent(t), f))
Matches(f, t) == f[1] = "ANY" \/ t = f[1] \/ (f[2] /\ IsSub(t, f[1]))
ANY == <<"ANY", TRUE>>
Name(n) == IF n % 2 = 1 THEN "a" ELSE "b"

AG == <<"AG", TRUE>>

MInit == [R |-> {}, ex |-> Nodes]


\* aggregates closure of n in R
RECURSIVE Clo(_, _, _)
Clo(R, S, k) == IF k = 0 THEN S ELSE Clo(R, S \cup {r[3] : r \in {x \in R : x[1] \in S /\ Matches(AG, x[2])}}, k - 1)

\* ghost update shared by the monitors; `removed` = nodes that disappeared in this record (observed)
GStep(g, e) ==
  LET now == ToSet(e.st.nodes)
      \* deleting a node deletes the nodes it aggregates (and, with target references, every reference touching them)
      removed == (g.ex \ now) \cup (IF e.ev = "DelNode" THEN Clo(g.R, {e.a}, Cardinality(Nodes)) ELSE {})
      R1 == CASE e.ev = "Ins" /\ e.fail = "none" -> g.R \cup {<<e.a, e.t, e.b>>}
              [] e.ev = "Del" /\ e.fail = "none" -> g.R \ {<<e.a, e.t, e.b>>}
              [] e.ev = "DelNode" /\ e.fail = "none" /\ e.tr -> {r \in g.R : r[1] \notin removed /\ r[3] \notin removed}
              [] OTHER -> g.R
  IN [R |-> R1, ex |-> now]

(* C28  The reference index always matches the set of references *)
Mon28Step(g, e) ==
  LET g1 == GStep(g, e)
      R == g1.R
      v == IF e.fail # "none" THEN {}
           ELSE
           (IF \E n \in Nodes : ToSet(e.st.f[n]) # {<<r[2], r[3]>> : r \in {x \in R : x[1] = n}}
              THEN {"forward-references-differ-from-reference-set"} ELSE {})
           \cup (IF \E n \in Nodes : ToSet(e.st.i[n]) # {<<r[2], r[1]>> : r \in {x \in R : x[3] = n}}
              THEN {"inverse-references-differ-from-reference-set"} ELSE {})
           \cup (IF \E n \in Nodes : ToSet(e.st.fa[n]) # {<<r[2], r[3]>> : r \in {x \in R : x[1] = n /\ Matches(AG, x[2])}}
                    \/ ToSet(e.st.ia[n]) # {<<r[2], r[1]>> : r \in {x \in R : x[3] = n /\ Matches(AG, x[2])}}
                    \/ ToSet(e.st.fc[n]) # {<<r[2], r[3]>> : r \in {x \in R : x[1] = n /\ x[2] = "HC"}}
              THEN {"filtered-references-differ-from-reference-set"} ELSE {})
           \cup (IF ToSet(e.st.has) # R THEN {"has-reference-differs-from-reference-set"} ELSE {})
           \cup (IF e.ev = "Del" /\ e.found # (<<e.a, e.t, e.b>> \in g.R) THEN {"delete-reference-result-wrong"} ELSE {})
  IN [g |-> g1, viol |-> v]

(* C29  Deleting a node terminates and leaves no dangling references *)
Mon29Step(g, e) ==
  LET g1 == GStep(g, e)
      \* (deleting a node that does not exist is outside the statement)
      v == IF e.ev # "DelNode" \/ ~e.tr \/ e.a \notin g.ex THEN {}
           ELSE IF e.fail # "none" THEN {"delete-did-not-terminate:" \o e.fail}
           ELSE
           LET gone == IF e.a \in g.ex THEN Clo(g.R, {e.a}, Cardinality(Nodes)) ELSE {}
               refd == UNION {{e.st.f[n][j][2] : j \in 1..Len(e.st.f[n])} : n \in Nodes}
                       \cup {n \in Nodes : e.st.f[n] # <<>> \/ e.st.i[n] # <<>>}
           IN (IF ToSet(e.st.nodes) # g.ex \ gone THEN {"wrong-set-of-nodes-removed"} ELSE {})
              \cup (IF refd \cap gone # {} THEN {"dangling-reference-to-removed-node"} ELSE {})
  IN [g |-> g1, viol |-> v]

(* C31  Browse path translation finds exactly the matching nodes *)
RECURSIVE Walk31(_, _, _, _)
Walk31(R, ex, S, path) ==
  IF path = <<>> \/ S = {} THEN S
  ELSE LET el == Head(path)
           flt == IF el.t = "NULL" THEN ANY ELSE <<el.t, el.sub>>
           nxt == {m \in ex : Name(m) = el.name /\
                     \E n \in S, t \in Types : Matches(flt, t) /\ (IF el.inv THEN <<m, t, n>> \in R ELSE <<n, t, m>> \in R)}
       IN Walk31(R, ex, nxt, Tail(path))
Mon31Step(g, e) ==
  LET g1 == GStep(g, e)
      v == IF e.ev # "Translate" THEN {}
           ELSE IF e.fail # "none" THEN {"translate-failed:" \o e.fail}
           ELSE IF ToSet(e.res) # (IF e.a \in g.ex THEN Walk31(g.R, g.ex, {e.a}, e.path) ELSE {})
                THEN {"translate-result-differs"} ELSE {}
  IN [g |-> g1, viol |-> v]
=============================================================================
