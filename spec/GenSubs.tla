------------------------------- MODULE GenSubs -------------------------------
(* Case generator: every behaviour of SubsDriver up to MaxDepth is printed   *)
(* as one JSON line (the sequence of observation records the specification   *)
(* predicts); the harness replays the calls in the real code.                *)
EXTENDS SubsDriver, Json

VARIABLES hist

GInit == DInit /\ hist = <<>>
GNext == DNext /\ hist' = Append(hist, evt')
GSpec == GInit /\ [][GNext]_<<vars, dvars, hist>>

\* always true; prints maximal behaviours
Emit == Done => PrintT(<<"CASE", ToJson(hist)>>)
=============================================================================
