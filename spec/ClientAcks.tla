------------------------------ MODULE ClientAcks ------------------------------
(***************************************************************************)
(* L1, implementation-shaped specification of the acknowledgement           *)
(* bookkeeping of the client's publish loop in locka99/opcua:               *)
(*   client/session/services/subscriptions/service.rs  Session::publish     *)
(*   client/session/services/subscriptions/state.rs    SubscriptionState    *)
(*      (take_acknowledgements / handle_notification /                      *)
(*       re_queue_acknowledgements, add / delete subscription)              *)
(*                                                                         *)
(* Several publish requests may be in flight (the subscription event loop  *)
(* keeps up to max_inflight_publish of them).  One action per call / per    *)
(* completion; every action produces the observation record (`evt') that    *)
(* the harness produces for the same step on the real Session.              *)
(*                                                                         *)
(* The peer numbers the notification messages of each subscription          *)
(* 1, 2, ...; a keep-alive carries the number of the NEXT notification      *)
(* message and does not consume it (OPC UA Part 4, 5.13.1.1).               *)
(***************************************************************************)
EXTENDS Integers, Sequences, FiniteSets, SequencesExt, TLC

CONSTANTS
  Subs,              \* subscription ids the peer may report on
  DevAckKeepAlive,   \* pinned tree: a keep-alive response is acknowledged like a notification message
  MutNoRequeue       \* mutant (never the design): the acknowledgements of a failed request are dropped

VARIABLES
  toAck,      \* SubscriptionState::acknowledgements: sequence of <<sub, seq>>
  inflight,   \* publish requests sent and not completed: req -> sequence of <<sub, seq>> they carry
  known,      \* subscriptions the client has (SubscriptionState::subscriptions)
  srvSeq,     \* peer: sub -> number of its next notification message
  link,       \* "up" | "down" (no request queue: BadNotConnected) | "closed" (queue closed: BadConnectionClosed)
  nReq,       \* publish calls made
  evt

vars == <<toAck, inflight, known, srvSeq, link, nReq, evt>>

Init ==
  /\ toAck = <<>>
  /\ inflight = <<>>
  /\ known = {}
  /\ srvSeq = [s \in Subs |-> 1]
  /\ link = "up"
  /\ nReq = 0
  /\ evt = [ev |-> "Init"]

Rec(ev, req, sub, seq, kind, acks, res) ==
  [ev |-> ev, req |-> req, sub |-> sub, seq |-> seq, kind |-> kind, acks |-> acks, res |-> res, st |-> toAck']

\* Session::publish is called: the acknowledgements are taken and travel with the request;
\* when the request can not be sent the call fails at once and they are queued again
Send ==
  /\ nReq' = nReq + 1
  /\ IF link = "up"
     THEN /\ inflight' = [r \in DOMAIN inflight \cup {nReq + 1} |-> IF r = nReq + 1 THEN toAck ELSE inflight[r]]
          /\ toAck' = <<>>
          /\ UNCHANGED <<known, srvSeq, link>>
          /\ evt' = Rec("Send", nReq + 1, 0, 0, "", toAck, "sent")
     ELSE /\ toAck' = IF MutNoRequeue THEN <<>> ELSE toAck
          /\ UNCHANGED <<inflight, known, srvSeq, link>>
          /\ evt' = Rec("Send", nReq + 1, 0, 0, "", <<>>, IF link = "down" THEN "BadNotConnected" ELSE "BadConnectionClosed")

\* a publish response for request req: a notification message ("data", "status") or a keep-alive ("ka") of subscription sub
Ok(req, sub, kind) ==
  /\ req \in DOMAIN inflight
  /\ LET seq == srvSeq[sub]
         ack == kind # "ka" \/ DevAckKeepAlive
     IN /\ srvSeq' = IF kind = "ka" THEN srvSeq ELSE [srvSeq EXCEPT ![sub] = seq + 1]
        /\ toAck' = IF ack THEN Append(toAck, <<sub, seq>>) ELSE toAck
        /\ inflight' = [r \in DOMAIN inflight \ {req} |-> inflight[r]]
        /\ UNCHANGED <<known, link, nReq>>
        /\ evt' = Rec("Ok", req, sub, seq, kind, <<>>, "Ok")

\* request req fails: its deadline passes ("timeout"), the server answers with a service fault ("fault") or an
\* unexpected message ("unexpected"), or the transport drops the request ("dropped")
FailStatus(how) == CASE how = "timeout" -> "BadTimeout"
                     [] how = "fault" -> "BadTooManyPublishRequests"
                     [] how = "unexpected" -> "BadUnknownResponse"
                     [] how = "dropped" -> "BadConnectionClosed"

Fail(req, how) ==
  /\ req \in DOMAIN inflight
  /\ toAck' = IF MutNoRequeue THEN toAck ELSE toAck \o inflight[req]
  /\ inflight' = [r \in DOMAIN inflight \ {req} |-> inflight[r]]
  /\ UNCHANGED <<known, srvSeq, link, nReq>>
  /\ evt' = Rec("Fail", req, 0, 0, how, <<>>, FailStatus(how))

\* subscription changes on the client
AddSub(s) ==
  /\ s \notin known
  /\ known' = known \cup {s}
  /\ UNCHANGED <<toAck, inflight, srvSeq, link, nReq>>
  /\ evt' = Rec("AddSub", 0, s, 0, "", <<>>, "")

DelSub(s) ==
  /\ s \in known
  /\ known' = known \ {s}
  /\ UNCHANGED <<toAck, inflight, srvSeq, link, nReq>>
  /\ evt' = Rec("DelSub", 0, s, 0, "", <<>>, "")

\* the connection goes away / comes back
Link(l) ==
  /\ l # link
  /\ link' = l
  /\ UNCHANGED <<toAck, inflight, known, srvSeq, nReq>>
  /\ evt' = Rec("Link", 0, 0, 0, l, <<>>, "")

\* end of the history (the driver makes a last publish succeed before)
End ==
  /\ UNCHANGED <<toAck, inflight, known, srvSeq, link, nReq>>
  /\ evt' = Rec("End", 0, 0, 0, "", <<>>, "")
=============================================================================
