------------------------------- MODULE Revise -------------------------------
(***************************************************************************)
(* C23  Revised subscription and monitored item parameters respect the      *)
(* server limits.  Function-like: the requested values and the server       *)
(* limits range over an abstract number line; TLC enumerates the space,     *)
(* checks the specified revision (L1, `Rev') against the property (L2,      *)
(* `RevisedOK') and emits every point as a case for the real                *)
(* CreateSubscription / ModifySubscription / CreateMonitoredItems /         *)
(* ModifyMonitoredItems services.                                           *)
(*                                                                          *)
(* Durations are [k, v]: k in {"num","nan","pinf","ninf"}, v = milliseconds. *)
(* Counts are BigNat pairs (u32 does not fit TLC's integers).               *)
(***************************************************************************)
EXTENDS Integers, Sequences, FiniteSets, TLC, BigNat

Num(v) == [k |-> "num", v |-> v]
NaN == [k |-> "nan", v |-> 0]
PInf == [k |-> "pinf", v |-> 0]
NInf == [k |-> "ninf", v |-> 0]

\* server limit configurations
Limits == {
  [minPI |-> 100, minSI |-> 100, maxKA |-> Big(30000), defKA |-> Big(10), maxLT |-> Big(90000), maxQ |-> 10],
  [minPI |-> 1000, minSI |-> 50, maxKA |-> Big(5), defKA |-> Big(2), maxLT |-> Big(15), maxQ |-> 3],
  \* 10^9 keep-alives, 3 * 10^9 lifetime (the largest shape that still satisfies maxLT >= 3 maxKA in 32 bits)
  [minPI |-> 100, minSI |-> 100, maxKA |-> Big(1000000000), defKA |-> Big(10), maxLT |-> <<45776, 24064>>, maxQ |-> 1]
}

ReqDur(min) == {NaN, NInf, PInf, Num(-1000), Num(-1), Num(0), Num(1), Num(min - 1), Num(min), Num(min + 50), Num(2000000000)}
ReqCnt(max) == {Big(0), Big(1), Big(2), Big(10), max, BAdd(max, Big(1)), <<21845, 21845>>, <<21845, 21846>>, <<32768, 0>>, BigU32Max}
ReqQ(max) == {0, 1, 2, max - 1, max, max + 1, 2147483647}

SubCases == {[kind |-> "sub", lim |-> L, pi |-> p, ka |-> a, lt |-> t, modify |-> m]
              : L \in Limits, p \in UNION {ReqDur(L.minPI) : L \in Limits}, a \in UNION {ReqCnt(L.maxKA) : L \in Limits},
                t \in {Big(0), Big(1), Big(7), <<1, 34464>>, <<32768, 0>>, BigU32Max}, m \in BOOLEAN}
ItemCases == {[kind |-> "item", lim |-> L, si |-> s, qs |-> q, modify |-> m]
              : L \in Limits, s \in UNION {ReqDur(L.minSI) : L \in Limits}, q \in UNION {ReqQ(L.maxQ) : L \in Limits}, m \in BOOLEAN}

-----------------------------------------------------------------------------
(* L2: the property, on the values the server returns                        *)
DurGe(d, m) == (d.k = "num" /\ d.v >= m) \/ d.k = "pinf"

SubOK(c, r) ==
  {"fail:" \o r.site : x \in IF r.fail # "none" THEN {1} ELSE {}}
  \cup IF r.fail # "none" \/ r.status # "Good" THEN {}
  ELSE (IF ~DurGe(r.pi, c.lim.minPI) THEN {"publishing-interval-below-minimum"} ELSE {})
       \cup (IF ~(BLe(Big(1), r.ka) /\ BLe(r.ka, c.lim.maxKA)) THEN {"keep-alive-count-out-of-range"} ELSE {})
       \cup (IF ~BLe(BMul(r.ka, 3), r.lt) THEN {"lifetime-below-3x-keep-alive"} ELSE {})

ItemOK(c, r) ==
  {"fail:" \o r.site : x \in IF r.fail # "none" THEN {1} ELSE {}}
  \cup IF r.fail # "none" \/ r.status # "Good" THEN {}
  ELSE (IF ~((r.si.k = "num" /\ r.si.v = -1) \/ DurGe(r.si, c.lim.minSI)) THEN {"sampling-interval-neither--1-nor-above-minimum"} ELSE {})
       \cup (IF ~(1 <= r.qs /\ r.qs <= c.lim.maxQ) THEN {"queue-size-out-of-range"} ELSE {})

ReviseViol(e) == IF e.c.kind = "sub" THEN SubOK(e.c, e.r) ELSE ItemOK(e.c, e.r)

-----------------------------------------------------------------------------
(* L1: the revision the corrected design performs                            *)
RevDur(d, min) == IF d.k = "num" /\ d.v >= min THEN d ELSE IF d.k = "pinf" THEN d ELSE Num(min)
RevSub(c) ==
  LET ka == IF BEq(c.ka, Big(0)) THEN c.lim.defKA ELSE BMin(c.ka, c.lim.maxKA)
      lt0 == IF BLt(c.lt, BMul(ka, 3)) THEN BMul(ka, 3) ELSE BMin(c.lt, c.lim.maxLT)
  IN [fail |-> "none", site |-> "", status |-> "Good", pi |-> RevDur(c.pi, c.lim.minPI), ka |-> ka, lt |-> lt0]
RevItem(c) ==
  [fail |-> "none", site |-> "", status |-> "Good",
   si |-> IF (c.si.k = "num" /\ c.si.v < 0) \/ c.si.k = "ninf" THEN Num(-1) ELSE RevDur(c.si, c.lim.minSI),
   qs |-> IF c.qs <= 1 THEN 1 ELSE IF c.qs > c.lim.maxQ THEN c.lim.maxQ ELSE c.qs]

-----------------------------------------------------------------------------
Cases == SubCases \cup ItemCases
=============================================================================
