---------------------------- MODULE NodeMgmtProps ----------------------------
EXTENDS Integers, Sequences, FiniteSets, SequencesExt, TLC
-----------------------------------------------------------------------------
(* L2 monitor for C34 over observation records only; ghost = previous projection *)
M34Init == [nodes |-> <<0>>, refs |-> <<>>]
Mon34Step(g, e) ==
  LET before == g  after == e.st
      bn == ToSet(before.nodes)  an == ToSet(after.nodes)
      v == IF e.fail # "none" THEN {}                      \* crashes are judged by C33
           ELSE IF e.status # "Good"
           THEN (IF before # after THEN {"bad-status-but-state-changed:" \o e.ev} ELSE {})
           ELSE IF e.ev = "AddNode"
           THEN (IF e.id \in bn THEN {"good-addnodes-returned-an-existing-id"} ELSE {})
                \cup (IF e.id \notin an THEN {"good-addnodes-but-node-does-not-exist"} ELSE {})
                \cup (IF <<e.par, e.t, e.id>> \notin ToSet(after.refs) THEN {"good-addnodes-but-not-referenced-from-parent"} ELSE {})
           ELSE {}
  IN [g |-> e.st, viol |-> v]
=============================================================================
