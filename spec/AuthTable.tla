------------------------------ MODULE AuthTable ------------------------------
(***************************************************************************)
(* C20  Session activation authenticates the user exactly as configured.    *)
(* Function-like: the decision table of ActivateSession over endpoint       *)
(* user-token configurations and identity tokens.                           *)
(*                                                                          *)
(* Server universe (h_session/src/world.rs): password users alice (u1),     *)
(* carol (u3, empty password), bob (u2); x509 users x1 (xavier), x2 (yves); *)
(* certificate x3 is configured nowhere.  Endpoint configurations:          *)
(*   anon {ANONYMOUS}  user {u1,u3}  x509 {x1}  mixed {ANONYMOUS,u1,u3,x1}  *)
(*   none {}           (other {u2,x2}: only there to own bob and x2)        *)
(* each on policy None ("none") and Basic256Sha256/SignAndEncrypt ("enc").  *)
(*                                                                          *)
(* A case: cfg, sec, kind of identity token, pol (policy id right/wrong),   *)
(* user, pw, enc (how the password travels), cert, sig; "na" = does not     *)
(* apply to the kind.                                                       *)
(*   enc: plain | cur (encrypted with the policy's algorithm for the        *)
(*        session's current nonce) | old (for the nonce the session had     *)
(*        before its last successful activation) | unknownalg (unknown      *)
(*        algorithm uri) | mismatch (declared OAEP, encrypted PKCS#1 v1.5)  *)
(*        | otheralg (declared and encrypted RSA-1_5, not the policy's one) *)
(*   sig: ok (by the certificate's key over server certificate + current    *)
(*        nonce) | corrupt | otherkey | old (over the earlier nonce) | null *)
(***************************************************************************)
EXTENDS Integers, Sequences, FiniteSets, TLC

CONSTANT DevStaleNonce   \* pinned tree: the session nonce of a policy None endpoint is always empty, so "old" = "cur" there

Cfgs == {"anon", "user", "x509", "mixed", "none"}
Secs == {"none", "enc"}
AllowsAnon(cfg) == cfg \in {"anon", "mixed"}
AllowsUser(cfg) == cfg \in {"user", "mixed"}
AllowsX509(cfg) == cfg \in {"x509", "mixed"}

Case(cfg, sec, kind, pol, user, pw, enc, cert, sig) ==
  [cfg |-> cfg, sec |-> sec, kind |-> kind, pol |-> pol, user |-> user, pw |-> pw, enc |-> enc, cert |-> cert, sig |-> sig]

AnonCases == {Case(cfg, sec, "anon", pol, "na", "na", "na", "na", "na") : cfg \in Cfgs, sec \in Secs, pol \in {"right", "wrong"}}
             \cup {Case(cfg, sec, k, "na", "na", "na", "na", "na", "na") : cfg \in Cfgs, sec \in Secs, k \in {"empty", "issued", "garbage", "undecodable"}}
UserCases == {c \in {Case(cfg, sec, "user", pol, u, pw, enc, "na", "na") :
                       cfg \in Cfgs, sec \in Secs, pol \in {"right", "wrong"}, u \in {"alice", "carol", "bob", "mallory", "xavier"},
                       pw \in {"right", "wrong", "empty"}, enc \in {"plain", "cur", "old", "unknownalg", "mismatch", "otheralg"}} :
                c.enc = "old" => c.cfg # "none"}         \* an earlier nonce exists only after a successful activation
X509Cases == {c \in {Case(cfg, sec, "x509", pol, "na", "na", "na", cert, sig) :
                       cfg \in Cfgs, sec \in Secs, pol \in {"right", "wrong"}, cert \in {"x1", "x2", "x3"},
                       sig \in {"ok", "corrupt", "otherkey", "old", "null"}} :
                c.sig = "old" => c.cfg # "none"}
Cases == AnonCases \cup UserCases \cup X509Cases

-----------------------------------------------------------------------------
(* L2: what the statement allows.  Why a case must be refused ("" = nothing forbids it) *)
PwMatches(c) == (c.user = "alice" /\ c.pw = "right") \/ (c.user = "carol" /\ c.pw \in {"right", "empty"})
Forbidden(c) ==
  IF c.kind \in {"issued", "garbage", "undecodable"} THEN "unsupported-identity-token"
  ELSE IF c.kind \in {"anon", "empty"}
  THEN (IF ~AllowsAnon(c.cfg) THEN "anonymous-not-allowed-on-endpoint" ELSE IF c.pol = "wrong" THEN "wrong-policy-id" ELSE "")
  ELSE IF c.kind = "user"
  THEN (IF ~AllowsUser(c.cfg) THEN "no-password-users-on-endpoint"
        ELSE IF c.pol = "wrong" THEN "wrong-policy-id"
        ELSE IF c.user \in {"mallory", "xavier"} THEN "user-not-a-password-user"
        ELSE IF c.user = "bob" THEN "user-configured-for-another-endpoint"
        ELSE IF c.enc = "old" THEN "password-encrypted-for-an-earlier-nonce"
        ELSE IF c.enc \in {"unknownalg", "mismatch"} THEN "password-cannot-be-decrypted"
        ELSE IF ~PwMatches(c) THEN "wrong-password"
        ELSE "")
  ELSE (IF ~AllowsX509(c.cfg) THEN "no-x509-users-on-endpoint"
        ELSE IF c.pol = "wrong" THEN "wrong-policy-id"
        ELSE IF c.sig = "old" THEN "signature-over-an-earlier-nonce"
        ELSE IF c.sig # "ok" THEN "signature-does-not-verify"
        ELSE IF c.cert = "x2" THEN "certificate-configured-for-another-endpoint"
        ELSE IF c.cert # "x1" THEN "certificate-thumbprint-not-configured"
        ELSE "")
\* cases the statement leaves open although nothing forbids them: a null token stands for anonymous in OPC UA but the
\* statement speaks of anonymous tokens; a password encrypted with another valid algorithm than the policy's
Open(c) == c.kind = "empty" \/ (c.kind = "user" /\ c.enc = "otheralg")

\* r: [ok, code, fail, site, rot]; rot = "failed": the activation that should have renewed the nonce was refused
AuthOK(c, r) ==
  IF r.fail # "none" \/ r.rot = "failed" THEN {}
  ELSE IF Forbidden(c) # "" THEN (IF r.ok THEN {"activated:" \o Forbidden(c)} ELSE {})
  ELSE IF Open(c) THEN {}
  ELSE IF ~r.ok THEN {"configured-credentials-refused:" \o c.kind} ELSE {}
AuthViol(e) == AuthOK(e.c, e.r)

-----------------------------------------------------------------------------
(* L1: the decision server/state.rs authenticate_endpoint takes *)
Stale(c) == DevStaleNonce /\ c.sec = "none"
Auth(c) ==
  LET ok ==
    CASE c.kind \in {"anon", "empty"} -> AllowsAnon(c.cfg) /\ c.pol # "wrong"
      [] c.kind = "user" -> /\ AllowsUser(c.cfg) /\ c.pol = "right" /\ c.user \in {"alice", "carol"} /\ PwMatches(c)
                            /\ (c.enc \in {"plain", "cur", "otheralg"} \/ (c.enc = "old" /\ Stale(c)))
      [] c.kind = "x509" -> /\ AllowsX509(c.cfg) /\ c.pol = "right" /\ c.cert = "x1"
                            /\ (c.sig = "ok" \/ (c.sig = "old" /\ Stale(c)))
      [] OTHER -> FALSE
  IN [ok |-> ok, code |-> "", fail |-> "none", site |-> "", rot |-> "na"]
=============================================================================
