---------------------------- MODULE AspaceDriver ----------------------------
EXTENDS AddressSpace
CONSTANTS Acts, MaxDepth, Paths, Scripts,
          TranslateLast   \* TRUE: Translate only as the last step of a behaviour
VARIABLES depth, script
dvars == <<depth, script>>
DInit == Init /\ depth = 0 /\ script \in (IF Scripts = {} THEN {<<>>} ELSE Scripts)
ScriptStep ==
  LET s == script[depth + 1] IN
  CASE s[1] = "Ins" -> Ins(s[2], s[3], s[4])
    [] s[1] = "Del" -> Del(s[2], s[3], s[4])
    [] s[1] = "DelNode" -> DelNode(s[2], s[3])
Free ==
  \/ "Ins" \in Acts /\ (TranslateLast => depth < MaxDepth - 1) /\ \E a \in Nodes, t \in Types, b \in Nodes : Ins(a, t, b)
  \/ "Del" \in Acts /\ \E a \in Nodes, t \in Types, b \in Nodes : a # b /\ Del(a, t, b)
  \/ "DelNode" \in Acts /\ \E n \in Nodes : DelNode(n, TRUE)
  \/ "DelNodeKeep" \in Acts /\ \E n \in Nodes : DelNode(n, FALSE)
  \/ "Translate" \in Acts /\ (TranslateLast => depth = MaxDepth - 1) /\ \E n \in Nodes, p \in Paths : Translate(n, p)
  \/ "Ins" \in Acts /\ FALSE
DNext == /\ depth < MaxDepth /\ depth' = depth + 1 /\ script' = script
         /\ IF depth < Len(script) THEN ScriptStep ELSE Free
Done == depth = MaxDepth
=============================================================================
