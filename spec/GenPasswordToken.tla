--------------------------- MODULE GenPasswordToken ---------------------------
EXTENDS MCPasswordToken, Json
Emit == PrintT(<<"CASE", ToJson([c |-> c, exp |-> Expected(c)])>>)
=============================================================================
