------------------------------- MODULE SeqNum -------------------------------
(***************************************************************************)
(* L1, implementation-shaped specification of chunk sequence numbers and    *)
(* request ids on one secure channel of locka99/opcua (property C12):       *)
(*                                                                          *)
(*  senders    client/transport/buffer.rs   SendBuffer::{next_request_id,   *)
(*             write}   (Chunker::encode from last_sent_sequence_number+1,  *)
(*             counter += number of chunks)                                 *)
(*             core/comms/message_writer.rs  MessageWriter::write (the same *)
(*             counters; it calls Chunker::encode with max_chunk_size 0, so *)
(*             a response is always ONE chunk whatever its size)            *)
(*  receivers  server/comms/tcp_transport.rs  process_chunk: chunks are     *)
(*             collected in arrival order, the Final one triggers           *)
(*             Chunker::validate_chunks(last_received + 1, ..) and decode;  *)
(*             an error closes the connection                               *)
(*             client/transport/core.rs  TransportState::process_chunk:     *)
(*             chunks are collected per pending request id, chunks of       *)
(*             unknown request ids are ignored, the Final one triggers      *)
(*             merge_chunks, validate_chunks(last_received + 1, ..), decode *)
(*                                                                          *)
(* Between sender and receiver sits an adversary that acts on the chunk at  *)
(* the head of a wire just before it is delivered: Reorder (swap with the   *)
(* next), Duplicate, Drop, ForeignChannelId, MixedRequestIds (rewrite the   *)
(* header; only when Forge), and Replay (a message that has been delivered  *)
(* is put on the wire again).                                               *)
(*                                                                          *)
(* Every action produces the observation record `evt' the harness produces  *)
(* from the real code: Send(side, emits = headers of the chunks produced),  *)
(* Move, Deliver (a chunk that completes nothing), Present(rcv, chunks,     *)
(* acc).  SeqNumProps.tla judges both.                                      *)
(*                                                                          *)
(* Dev constants: DevClientMerge = the pinned tree's client sorted the      *)
(* chunks of a response by sequence number and dropped the ones out of      *)
(* line before validating (a duplicated or reordered chunk was accepted);   *)
(* DevSeqPerMsg / DevAcceptEq are the plausible breakages the check must    *)
(* catch (counter bumped once per message; first >= last accepted).         *)
(***************************************************************************)
EXTENDS Integers, Sequences, FiniteSets, SequencesExt, TLC

CONSTANTS
  Chan, Chan2,     \* the channel's id, a foreign id
  Seq0, Req0,      \* counters of a fresh sender (0, 1000)
  MaxMsgs,         \* messages sent in a history (requests + responses)
  MaxChunks,       \* a request is split into 1..MaxChunks chunks
  MaxMoves,        \* adversary moves per history
  Kinds,           \* subset of {"Reorder", "Duplicate", "Drop", "Replay", "Foreign", "Mixed"}
  Responder,       \* "writer": responses are written by the server's MessageWriter (side "server", always one chunk);
                   \* "peer": by a server that splits them like the client does (Chunker::encode with a chunk size; side
                   \* "peer", not a sender under test) -- the only way the client ever receives a multi chunk message
  Refuse,          \* size classes beyond MaxChunks that a sender may be asked to send and refuses: subset of {TooMany, TooLarge}
  MaxRefused,      \* refused messages per history
  DevClientMerge, DevSeqPerMsg, DevAcceptEq, DevCountRefused

\* A message of size class MaxChunks + 1 needs one chunk more than the sender's max_chunk_count (SendBuffer::write answers
\* BadCommunicationError after Chunker::encode has made the chunks); one of class MaxChunks + 2 exceeds max_message_size
\* (Chunker::encode answers BadRequestTooLarge / BadResponseTooLarge).  A refused message emits nothing and leaves the
\* sequence counter alone (the request id it was given is spent).  The MessageWriter never makes more than one chunk, so it
\* can only refuse the second kind.  DevCountRefused: the counter is advanced before the chunk limit is tested.
TooMany == MaxChunks + 1
TooLarge == MaxChunks + 2

VARIABLES
  cs,        \* client SendBuffer: [seq |-> last_sent_sequence_number, req |-> last_request_id]
  ss,        \* server MessageWriter: [seq]
  sent,      \* messages sent so far: sequence of [dir, chunks]
  wire,      \* [c2s, s2c]: chunks in flight, head first
  gone,      \* messages whose last original chunk has left its wire
  srv,       \* server transport: [last, pend, open]
  cli,       \* client transport: [last, states (request id -> chunks stored), open]
  toAnswer,  \* request ids the server accepted and has not answered
  nMoves,
  nRef,      \* messages refused by their sender so far
  started,   \* a chunk has been delivered or the adversary has moved (the client sends its requests first)
  evt

vars == <<cs, ss, sent, wire, gone, srv, cli, toAnswer, nMoves, nRef, started, evt>>

Hdr(c) == [req |-> c.req, seq |-> c.seq, fin |-> c.fin, chan |-> c.chan]
Hdrs(cs_) == [j \in 1..Len(cs_) |-> Hdr(cs_[j])]

-----------------------------------------------------------------------------
(* Chunker::validate_chunks(starting, channel, chunks) -> "ok" or a status   *)
RECURSIVE ValidateFrom(_, _, _)
ValidateFrom(chunks, first, i) ==
  IF i > Len(chunks) THEN "ok"
  ELSE IF chunks[i].chan # Chan THEN "BadSecureChannelIdInvalid"
  ELSE IF chunks[i].seq # first + i - 1 THEN "BadSecurityChecksFailed"
  ELSE IF chunks[i].req # chunks[1].req THEN "BadSecurityChecksFailed"
  ELSE ValidateFrom(chunks, first, i + 1)

Validate(last, chunks) ==
  LET first == chunks[1].seq
      start == IF DevAcceptEq THEN last ELSE last + 1 IN
  IF first < start THEN "BadSequenceNumberInvalid" ELSE ValidateFrom(chunks, first, 1)

\* Chunker::decode succeeds iff the chunks are Intermediate.. Final and carry the whole body of one message
Pattern(chunks) == \A i \in 1..Len(chunks) : chunks[i].fin = (IF i = Len(chunks) THEN "F" ELSE "C")
Whole(chunks) ==
  /\ \A i \in 1..Len(chunks) : chunks[i].m = chunks[1].m /\ chunks[i].j = i
  /\ Len(chunks) = Len(sent[chunks[1].m].chunks)
Decodes(chunks) == Pattern(chunks) /\ Whole(chunks)

\* client merge_chunks of the pinned tree: sort by sequence number, keep the run that starts at the smallest
RECURSIVE KeepRun(_, _, _)
KeepRun(cs_, expect, acc) ==
  IF cs_ = <<>> THEN acc
  ELSE IF Head(cs_).seq # expect THEN KeepRun(Tail(cs_), expect, acc)
  ELSE KeepRun(Tail(cs_), expect + 1, Append(acc, Head(cs_)))
Merge(chunks) ==
  IF ~DevClientMerge \/ Len(chunks) = 1 THEN chunks
  ELSE LET idx == SetToSortSeq(1..Len(chunks), LAMBDA a, b : chunks[a].seq < chunks[b].seq \/ (chunks[a].seq = chunks[b].seq /\ a < b))
           srt == [i \in 1..Len(chunks) |-> chunks[idx[i]]]
       IN KeepRun(srt, srt[1].seq, <<>>)

-----------------------------------------------------------------------------
(* Senders                                                                  *)
MkChunks(m, dir, req, seq0, n) ==
  [j \in 1..n |-> [req |-> req, seq |-> seq0 + j, fin |-> IF j = n THEN "F" ELSE "C", chan |-> Chan, m |-> m, j |-> j,
                   copy |-> FALSE]]

\* the client transport takes a request: next_request_id, write
ClientSend(n) ==
  /\ ~started /\ Len(sent) < MaxMsgs /\ cli.open
  /\ LET r  == cs.req + 1
         m  == Len(sent) + 1
         ch == MkChunks(m, "c2s", r, cs.seq, n) IN
     IF n > MaxChunks
     THEN \* refused by SendBuffer::write: nothing is queued, nothing is sent
          /\ nRef < MaxRefused /\ nRef' = nRef + 1
          /\ cs' = [seq |-> cs.seq + (IF DevCountRefused /\ n = TooMany THEN n ELSE 0), req |-> r]
          /\ cli' = [cli EXCEPT !.states = @ @@ (r :> <<>>)]     \* wait_for_outgoing_message registered the request already
          /\ evt' = [ev |-> "Send", side |-> "client", n |-> n, ok |-> FALSE, emits |-> <<>>]
          /\ UNCHANGED <<sent, wire>>
     ELSE /\ cs' = [seq |-> cs.seq + (IF DevSeqPerMsg THEN 1 ELSE n), req |-> r]
          /\ sent' = Append(sent, [dir |-> "c2s", chunks |-> ch])
          /\ wire' = [wire EXCEPT !.c2s = @ \o ch]
          /\ cli' = [cli EXCEPT !.states = @ @@ (r :> <<>>)]
          /\ evt' = [ev |-> "Send", side |-> "client", n |-> n, ok |-> TRUE, emits |-> Hdrs(ch)]
          /\ UNCHANGED nRef
  /\ UNCHANGED <<ss, gone, srv, toAnswer, nMoves, started>>

\* the server answers the oldest accepted request; `n' is the size class of the response (it is one chunk anyway)
ServerWrite(n) ==
  /\ wire.c2s = <<>> /\ toAnswer # {} /\ Len(sent) < MaxMsgs /\ srv.open
  /\ LET r  == CHOOSE x \in toAnswer : \A y \in toAnswer : x <= y
         m  == Len(sent) + 1
         k  == IF Responder = "writer" THEN 1 ELSE n
         ch == MkChunks(m, "s2c", r, ss.seq, k)
         sd == IF Responder = "writer" THEN "server" ELSE "peer" IN
     /\ toAnswer' = toAnswer \ {r}
     /\ IF n > MaxChunks
        THEN \* the response is too large: refused by Chunker::encode, nothing is written
             /\ nRef < MaxRefused /\ nRef' = nRef + 1
             /\ evt' = [ev |-> "Send", side |-> sd, n |-> n, ok |-> FALSE, emits |-> <<>>]
             /\ UNCHANGED <<ss, sent, wire>>
        ELSE /\ ss' = [seq |-> ss.seq + k]
             /\ sent' = Append(sent, [dir |-> "s2c", chunks |-> ch])
             /\ wire' = [wire EXCEPT !.s2c = @ \o ch]
             /\ evt' = [ev |-> "Send", side |-> sd, n |-> n, ok |-> TRUE, emits |-> Hdrs(ch)]
             /\ UNCHANGED nRef
  /\ UNCHANGED <<cs, gone, srv, cli, nMoves, started>>

-----------------------------------------------------------------------------
(* Adversary: acts on the head of wire w                                    *)
WireOpen(w) == IF w = "c2s" THEN srv.open ELSE cli.open

Move(kind, w) ==
  /\ kind \in Kinds /\ nMoves < MaxMoves /\ WireOpen(w)
  /\ LET q == wire[w] IN
     /\ CASE kind = "Reorder"   -> Len(q) >= 2 /\ wire' = [wire EXCEPT ![w] = <<q[2], q[1]>> \o SubSeq(q, 3, Len(q))]
          [] kind = "Duplicate" -> Len(q) >= 1 /\ wire' = [wire EXCEPT ![w] = <<q[1], [q[1] EXCEPT !.copy = TRUE]>> \o Tail(q)]
          [] kind = "Drop"      -> Len(q) >= 1 /\ wire' = [wire EXCEPT ![w] = Tail(q)]
          [] kind = "Foreign"   -> Len(q) >= 1 /\ q[1].chan = Chan /\ wire' = [wire EXCEPT ![w] = <<[q[1] EXCEPT !.chan = Chan2]>> \o Tail(q)]
          [] kind = "Mixed"     -> Len(q) >= 1 /\ q[1].req < Req0 + 50
                                   /\ wire' = [wire EXCEPT ![w] = <<[q[1] EXCEPT !.req = @ + 50]>> \o Tail(q)]
          [] OTHER -> FALSE
     /\ gone' = IF kind = "Drop" /\ ~q[1].copy /\ q[1].j = Len(sent[q[1].m].chunks) THEN gone \cup {q[1].m} ELSE gone
  /\ nMoves' = nMoves + 1
  /\ started' = TRUE
  /\ evt' = [ev |-> "Move", kind |-> kind, w |-> w, m |-> 0]
  /\ UNCHANGED <<cs, ss, sent, srv, cli, toAnswer, nRef>>

\* a delivered message is put at the head of its wire again, unmodified
Replay(m) ==
  /\ "Replay" \in Kinds /\ nMoves < MaxMoves /\ m \in gone
  /\ LET w == sent[m].dir IN
     /\ WireOpen(w)
     /\ wire' = [wire EXCEPT ![w] = [j \in 1..Len(sent[m].chunks) |-> [sent[m].chunks[j] EXCEPT !.copy = TRUE]] \o @]
     /\ evt' = [ev |-> "Move", kind |-> "Replay", w |-> w, m |-> m]
  /\ nMoves' = nMoves + 1
  /\ UNCHANGED <<cs, ss, sent, gone, srv, cli, toAnswer, nRef, started>>   \* a replay needs a delivery: started already

-----------------------------------------------------------------------------
(* Receivers                                                                *)
Leaves(c) == IF ~c.copy /\ c.j = Len(sent[c.m].chunks) THEN {c.m} ELSE {}

\* server TcpTransport::process_chunk
DeliverSrv ==
  /\ wire.c2s # <<>> /\ srv.open
  /\ LET c == Head(wire.c2s) IN
     /\ wire' = [wire EXCEPT !.c2s = Tail(@)]
     /\ gone' = gone \cup Leaves(c)
     /\ started' = TRUE
     /\ IF c.fin = "A"
        THEN /\ srv' = [srv EXCEPT !.pend = <<>>]
             /\ evt' = [ev |-> "Deliver", rcv |-> "server", chunk |-> Hdr(c), res |-> "aborted"]
             /\ UNCHANGED toAnswer
        ELSE IF c.fin = "C"
        THEN /\ srv' = [srv EXCEPT !.pend = Append(@, c)]
             /\ evt' = [ev |-> "Deliver", rcv |-> "server", chunk |-> Hdr(c), res |-> "stored"]
             /\ UNCHANGED toAnswer
        ELSE LET chunks == Append(srv.pend, c)
                 v   == Validate(srv.last, chunks)
                 ok  == v = "ok" /\ Decodes(chunks)
                 lst == IF v = "ok" THEN chunks[1].seq + Len(chunks) - 1 ELSE srv.last
             IN /\ srv' = [last |-> lst, pend |-> <<>>, open |-> ok]
                /\ toAnswer' = IF ok THEN toAnswer \cup {chunks[1].req} ELSE toAnswer
                /\ evt' = [ev |-> "Present", rcv |-> "server", chunks |-> Hdrs(chunks), acc |-> ok,
                           code |-> IF v # "ok" THEN v ELSE IF ok THEN "Good" ELSE "decode", last |-> lst]
  /\ UNCHANGED <<cs, ss, sent, cli, nMoves, nRef>>

\* client TransportState::process_chunk
DeliverCli ==
  /\ wire.s2c # <<>> /\ cli.open
  /\ toAnswer = {} \/ Len(sent) = MaxMsgs \/ ~srv.open       \* the server writes its responses first
  /\ LET c == Head(wire.s2c) IN
     /\ wire' = [wire EXCEPT !.s2c = Tail(@)]
     /\ gone' = gone \cup Leaves(c)
     /\ started' = TRUE
     /\ IF c.req \notin DOMAIN cli.states
        THEN /\ evt' = [ev |-> "Deliver", rcv |-> "client", chunk |-> Hdr(c), res |-> "ignored"]
             /\ UNCHANGED cli
        ELSE IF c.fin = "A"
        THEN /\ cli' = [cli EXCEPT !.states = [x \in DOMAIN @ \ {c.req} |-> @[x]]]
             /\ evt' = [ev |-> "Deliver", rcv |-> "client", chunk |-> Hdr(c), res |-> "aborted"]
        ELSE IF c.fin = "C"
        THEN /\ cli' = [cli EXCEPT !.states[c.req] = Append(@, c)]
             /\ evt' = [ev |-> "Deliver", rcv |-> "client", chunk |-> Hdr(c), res |-> "stored"]
        ELSE LET chunks == Append(cli.states[c.req], c)
                 mg  == Merge(chunks)
                 v   == Validate(cli.last, mg)
                 ok  == v = "ok" /\ Decodes(mg)
                 lst == IF v = "ok" THEN mg[1].seq + Len(mg) - 1 ELSE cli.last
             IN /\ cli' = [last |-> lst, states |-> [x \in DOMAIN cli.states \ {c.req} |-> cli.states[x]], open |-> ok]
                /\ evt' = [ev |-> "Present", rcv |-> "client", chunks |-> Hdrs(chunks), acc |-> ok,
                           code |-> IF v # "ok" THEN v ELSE IF ok THEN "Good" ELSE "decode", last |-> lst]
  /\ UNCHANGED <<cs, ss, sent, srv, toAnswer, nMoves, nRef>>

-----------------------------------------------------------------------------
Init ==
  /\ cs = [seq |-> Seq0, req |-> Req0] /\ ss = [seq |-> Seq0]
  /\ sent = <<>> /\ wire = [c2s |-> <<>>, s2c |-> <<>>] /\ gone = {}
  /\ srv = [last |-> Seq0, pend |-> <<>>, open |-> TRUE]
  /\ cli = [last |-> Seq0, states |-> <<>>, open |-> TRUE]
  /\ toAnswer = {} /\ nMoves = 0 /\ nRef = 0 /\ started = FALSE
  /\ evt = [ev |-> "Config", chan |-> Chan, seq0 |-> Seq0]

Next ==
  \/ \E n \in (1..MaxChunks) \cup Refuse : ClientSend(n)
  \/ \E n \in (1..MaxChunks) \cup (Refuse \cap {TooLarge}) : ServerWrite(n)
  \/ \E k \in Kinds \ {"Replay"}, w \in {"c2s", "s2c"} : sent # <<>> /\ Move(k, w)
  \/ \E m \in 1..Len(sent) : Replay(m)
  \/ sent # <<>> /\ DeliverSrv
  \/ DeliverCli

Done == ~ENABLED Next
=============================================================================
