------------------------------ MODULE TraceNum ------------------------------
(* judges every real result of Variant::convert / Variant::cast with the predicate of NumLine *)
EXTENDS NumLine, Json, IOUtils
ObsLog == ndJsonDeserialize(IOEnv.OBS)
VARIABLES l, out
NumTraceViol(e) == IF e.c.op = "table" THEN {} ELSE NumViol(e.c, e.r)
T == INSTANCE TraceFn WITH Viol <- NumTraceViol, Prop <- "C06", Obs <- ObsLog
TSpec == T!TSpec
=============================================================================
