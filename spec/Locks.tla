-------------------------------- MODULE Locks --------------------------------
(***************************************************************************)
(* C38  Composition of the lock acquisition programs of the server tasks.   *)
(* The programs are NOT written by hand: they are recorded from the real     *)
(* code (hook: the trace_lock!/trace_read_lock!/trace_write_lock! macros     *)
(* record every acquisition and release) by running every kind of task once. *)
(* Prog[p] = sequence of <<op, lock, mode>>, op in {"acq","rel"}, mode in    *)
(* {"R","W"}; a lock is "<Class>#<instance>".                                *)
(* RwLock semantics are parking_lot's task-fair policy: a new reader blocks  *)
(* while a writer holds OR WAITS -- this is what makes a recursive read      *)
(* acquisition deadlock-prone.                                               *)
(* Every pair (thorough: also sampled triples) of programs is composed; a    *)
(* reachable state in which some process is not finished and no process can  *)
(* step is a deadlock.                                                       *)
(***************************************************************************)
EXTENDS Integers, Sequences, FiniteSets, TLC

CONSTANTS Prog,      \* function: program name -> sequence of instructions
          Groups     \* set of sets of program names to compose

Names == DOMAIN Prog
LocksOf(G) == UNION {{Prog[p][i][2] : i \in 1..Len(Prog[p])} : p \in G}

VARIABLES grp, pc, readers, writer, waitW
vars == <<grp, pc, readers, writer, waitW>>

AllLocks == LocksOf(Names)

Init == /\ grp \in Groups
        /\ pc = [p \in Names |-> 1]
        /\ readers = [l \in AllLocks |-> [p \in Names |-> 0]]
        /\ writer = [l \in AllLocks |-> "-"]
        /\ waitW = [l \in AllLocks |-> {}]

NoReaders(l) == \A q \in grp : readers[l][q] = 0
OnlyReader(l, p) == \A q \in grp : q # p => readers[l][q] = 0

Step(p) ==
  /\ pc[p] <= Len(Prog[p])
  /\ LET ins == Prog[p][pc[p]]  l == ins[2] IN
     CASE ins[1] = "acq" /\ ins[3] = "R" ->
            \* task-fair: a new reader blocks while a writer holds or waits
            /\ writer[l] = "-" /\ waitW[l] = {}
            /\ readers' = [readers EXCEPT ![l][p] = @ + 1]
            /\ pc' = [pc EXCEPT ![p] = @ + 1] /\ UNCHANGED <<writer, waitW>>
       [] ins[1] = "acq" /\ ins[3] = "W" ->
            IF writer[l] = "-" /\ NoReaders(l)
            THEN /\ writer' = [writer EXCEPT ![l] = p] /\ waitW' = [waitW EXCEPT ![l] = @ \ {p}]
                 /\ pc' = [pc EXCEPT ![p] = @ + 1] /\ UNCHANGED readers
            ELSE /\ p \notin waitW[l]                      \* announce waiting (one step), then stay blocked
                 /\ waitW' = [waitW EXCEPT ![l] = @ \cup {p}] /\ UNCHANGED <<pc, readers, writer>>
       [] ins[1] = "rel" ->
            /\ IF writer[l] = p THEN writer' = [writer EXCEPT ![l] = "-"] /\ UNCHANGED readers
               ELSE readers' = [readers EXCEPT ![l][p] = @ - 1] /\ UNCHANGED writer
            /\ pc' = [pc EXCEPT ![p] = @ + 1] /\ UNCHANGED waitW
  /\ UNCHANGED grp

Done == \A p \in grp : pc[p] > Len(Prog[p])
Next == (\E p \in grp : Step(p)) \/ (Done /\ UNCHANGED vars)
Spec == Init /\ [][Next]_vars

\* No deadlock: if not all done, someone can step.  (Checked as an invariant so that the offending group is visible.)
NoDeadlock == Done \/ (\E p \in grp : ENABLED Step(p))
\* always TRUE; prints every deadlocked group (so that one run reports all of them)
ReportDeadlocks == NoDeadlock \/ PrintT(<<"DEADLOCK", grp>>)

-----------------------------------------------------------------------------
(* The class-level acquisition order: x -> y when some program acquires a lock of class y while
   holding a lock of class x.  ClassOf strips the instance. *)
CONSTANT ClassOf     \* function lock -> class name
RECURSIVE HeldAt(_, _, _)
HeldAt(p, i, acc) ==        \* bag of locks held before instruction i, as a sequence
  IF i = 1 THEN acc
  ELSE LET ins == Prog[p][i - 1]
           prev == HeldAt(p, i - 1, acc)
       IN IF ins[1] = "acq" THEN Append(prev, ins[2])
          ELSE LET idx == {j \in 1..Len(prev) : prev[j] = ins[2]}
                   m == CHOOSE j \in idx : \A k \in idx : k <= j
               IN SubSeq(prev, 1, m - 1) \o SubSeq(prev, m + 1, Len(prev))
Edges == UNION {UNION {{<<ClassOf[h], ClassOf[Prog[p][i][2]], p>> : h \in {HeldAt(p, i, <<>>)[j] : j \in 1..Len(HeldAt(p, i, <<>>))}}
                       : i \in {k \in 1..Len(Prog[p]) : Prog[p][k][1] = "acq"}} : p \in Names}
ClassEdges == {<<e[1], e[2]>> : e \in Edges}
\* pairs of classes taken in both orders (or a class re-acquired while held)
Inversions == {e \in ClassEdges : <<e[2], e[1]>> \in ClassEdges}
=============================================================================
