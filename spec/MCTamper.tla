------------------------------ MODULE MCTamper ------------------------------
(* one TLC state per (chunk kind, policy, mode, direction, key sizes, adversary action); the receiver of the model must  *)
(* deliver exactly the unmodified chunk (DesignOK)                                                                       *)
EXTENDS Tamper

Configs ==
  {[kind |-> "msg", pol |-> p, mode |-> m, dir |-> d, sbits |-> 0, rbits |-> 0] : p \in Policies, m \in Modes, d \in Dirs}
  \cup UNION {{[kind |-> "opn", pol |-> p, mode |-> m, dir |-> d, sbits |-> kp[1], rbits |-> kp[2]]
               : m \in Modes, d \in Dirs, kp \in {k \in KeyPairs : k[1] \in KeyRange(p) /\ k[2] \in KeyRange(p)}} : p \in Policies}

Cases == UNION {{[kind |-> g.kind, pol |-> g.pol, mode |-> g.mode, dir |-> g.dir, sbits |-> g.sbits, rbits |-> g.rbits, act |-> a]
                 : a \in Actions(g)} : g \in Configs}

VARIABLE c
Init == c \in Cases
Next == UNCHANGED c
Spec == Init /\ [][Next]_c
DesignOK == DesignHolds(c)
=============================================================================
