----------------------------- MODULE TraceFraming -----------------------------
(* Judge of C11: feeds the observation records written by the harness through   *)
(* the L2 monitor of FramingProps.tla, one TLC state per record.  Cases are      *)
(* separated by i = 1.  After the first violation in a case the rest of the case *)
(* is not judged.  Verdicts go to IOEnv.VERDICT when the log is exhausted.       *)
EXTENDS Integers, Sequences, FiniteSets, SequencesExt, TLC, Json, IOUtils

MP == INSTANCE FramingProps

ObsLog == ndJsonDeserialize(IOEnv.OBS)

VARIABLES l, mon, out, dead

TInit == l = 1 /\ mon = MP!FrInit /\ out = <<>> /\ dead = FALSE

TNext ==
  \/ /\ l <= Len(ObsLog)
     /\ LET e == ObsLog[l]
            g == IF e.i = 1 THEN MP!FrInit ELSE mon
            dd == IF e.i = 1 THEN FALSE ELSE dead
            r == MP!FrStep(g, e)
            s == SetToSeq(r.viol)
        IN /\ mon' = r.g
           /\ out' = IF dd THEN out ELSE out \o [j \in 1..Len(s) |-> [case |-> e.case, i |-> e.i, prop |-> "C11", clause |-> s[j]]]
           /\ dead' = (dd \/ r.viol # {})
     /\ l' = l + 1
  \/ /\ l = Len(ObsLog) + 1
     /\ ndJsonSerialize(IOEnv.VERDICT, out)
     /\ l' = l + 1
     /\ UNCHANGED <<mon, out, dead>>

TSpec == TInit /\ [][TNext]_<<l, mon, out, dead>>
=============================================================================
