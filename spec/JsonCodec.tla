------------------------------ MODULE JsonCodec ------------------------------
(***************************************************************************)
(* C42  JSON (serde) encoding of the built-in types round-trips.           *)
(*                                                                         *)
(*   abstract values   a recursive tree of tagged records over tiny leaf    *)
(*                     domains (the shapes of spec/Codec.tla; numeric       *)
(*                     leaves are DECIMAL TEXT or named points, because     *)
(*                     the JSON form is text and TLC integers are 32 bit)   *)
(*   JSON trees        JNull / JBool / JNum(text) / JStr(code points) /     *)
(*                     JArr(items) / JObj(<< <<key, tree>>, ... >>)         *)
(*   Enc(ty, w, dv)    the SPECIFIED JSON form of a value (L1: the form the *)
(*                     serde implementations of lib/src/types write; `dv'   *)
(*                     names the known departures of the tree from the      *)
(*                     reversible design)                                   *)
(*   Dec(ty, j, dv)    the specified deserialiser, [ok, v]                  *)
(*   RtViol(e)         L2, the property: the SET of violated clauses of one *)
(*                     observation of the real code                         *)
(*                                                                         *)
(* Leaf fidelity is NOT specified here: floats, integers, DateTime, status  *)
(* codes are named points whose JSON text is a table; only strings, byte    *)
(* strings (base64) and Guids (hex) are computed.  Text is a sequence of    *)
(* Unicode code points (TLC output is ASCII only).                          *)
(* Every field name has one type everywhere, so that values read back from  *)
(* JSON can be compared with `=' by TLC.                                     *)
(***************************************************************************)
EXTENDS Integers, Sequences, FiniteSets, TLC

RECURSIVE Cat(_)
Cat(ss) == IF ss = <<>> THEN <<>> ELSE Head(ss) \o Cat(Tail(ss))
RECURSIVE Prod(_)
Prod(ns) == IF ns = <<>> THEN 1 ELSE Head(ns) * Prod(Tail(ns))
All(bs) == \A i \in 1..Len(bs) : bs[i]

-----------------------------------------------------------------------------
(* JSON trees                                                               *)
JNull == [k |-> "null"]
JBool(t) == [k |-> "bool", n |-> t]          \* t = "true" | "false"
JNum(t) == [k |-> "num", n |-> t]            \* the number token as written
JStr(s) == [k |-> "str", s |-> s]            \* code points of the (unescaped) string
JArr(a) == [k |-> "arr", a |-> a]
JObj(o) == [k |-> "obj", o |-> o]            \* sequence of <<key, tree>> in emission order
JFail == [k |-> "fail"]                      \* the serialiser did not produce a document
Has(j, key) == j.k = "obj" /\ \E i \in 1..Len(j.o) : j.o[i][1] = key
Get(j, key) == j.o[CHOOSE i \in 1..Len(j.o) : j.o[i][1] = key][2]
\* a member that is absent or JSON null (serde: Option<T> reads both as None)
Present(j, key) == Has(j, key) /\ Get(j, key).k # "null"
Fld(cond, key, j) == IF cond THEN << <<key, j>> >> ELSE <<>>
\* A document that passes through a generic serde_json::Value (a BTreeMap: the crate is built without `preserve_order')
\* comes out with the members of every object sorted by key.  TLC cannot compare strings: the order is a table.
KeyOrder == <<"AdditionalInfo", "Body", "ByteString", "Dimensions", "Id", "InnerDiagnosticInfo", "InnerStatusCode", "Locale",
              "LocalizedText", "Name", "Namespace", "NamespaceUri", "NodeId", "ServerPicoseconds", "ServerTimestamp", "ServerUri",
              "SourcePicoseconds", "SourceTimestamp", "Status", "SymbolicId", "Text", "Type", "Uri", "Value", "XmlElement">>
RECURSIVE SortJ(_)
SortJ(j) == CASE j.k = "obj" -> LET ks == SelectSeq(KeyOrder, LAMBDA key : Has(j, key))
                                IN JObj([i \in 1..Len(ks) |-> <<ks[i], SortJ(Get(j, ks[i]))>>])
              [] j.k = "arr" -> JArr([i \in 1..Len(j.a) |-> SortJ(j.a[i])])
              [] OTHER -> j

-----------------------------------------------------------------------------
(* leaf shapes                                                              *)
NullS == [nl |-> TRUE, b |-> <<>>]
S(b) == [nl |-> FALSE, b |-> b]
StrEmpty(s) == s.nl \/ s.b = <<>>

\* a NodeId: k in {"num","str","guid","opq"}; ns, n decimal text; s string / byte string; g 16 bytes
G0 == [i \in 1..16 |-> 0]
Nid(k, ns, n, s, g) == [k |-> k, ns |-> ns, n |-> n, s |-> s, g |-> g]
NumId(ns, n) == Nid("num", ns, n, NullS, G0)
StrId(ns, s) == Nid("str", ns, "0", s, G0)
GuidId(ns, g) == Nid("guid", ns, "0", NullS, g)
OpqId(ns, s) == Nid("opq", ns, "0", s, G0)
NullId == NumId("0", "0")
XNid(id, uri, srv) == [id |-> id, uri |-> uri, srv |-> srv]
Qn(ns, name) == [ns |-> ns, name |-> name]
Lt(loc, text) == [loc |-> loc, text |-> text]
Eo(id, enc, body) == [id |-> id, enc |-> enc, body |-> body]      \* enc in {"none", "bytes", "xml"}
\* DataValue: six independent optional members (value, status, source timestamp / picoseconds, server timestamp / picoseconds)
VEmpty == [t |-> "Empty"]
Dv(hv, v, hs, st, hst, sts, hsp, sp, hvt, svs, hvp, vp) ==
  [hv |-> hv, v |-> v, hs |-> hs, st |-> st, hst |-> hst, sts |-> sts, hsp |-> hsp, sp |-> sp,
   hvt |-> hvt, svs |-> svs, hvp |-> hvp, vp |-> vp]
DvNull == Dv(FALSE, VEmpty, FALSE, "Good", FALSE, "epoch", FALSE, "0", FALSE, "epoch", FALSE, "0")
\* DiagnosticInfo = chain of links (inner infos); link = six optional members
NoneI == [some |-> FALSE, x |-> "0"]
SomeI(x) == [some |-> TRUE, x |-> x]
NoneS == [some |-> FALSE, s |-> NullS]
SomeS(s) == [some |-> TRUE, s |-> s]
NoneC == [some |-> FALSE, sc |-> "Good"]
SomeC(c) == [some |-> TRUE, sc |-> c]
DiLink(sym, nsu, lcl, ltx, add, ist) == [sym |-> sym, nsu |-> nsu, lcl |-> lcl, ltx |-> ltx, add |-> add, ist |-> ist]
DiNullLink == DiLink(NoneI, NoneI, NoneI, NoneI, NoneS, NoneC)

\* Variant payloads: one field name per type
VNum(t, p) == [t |-> t, p |-> p]                      \* Boolean .. Double: p = decimal text / "true" / named float point
VStr(t, s) == [t |-> t, s |-> s]                      \* String, XmlElement, ByteString
VDt(n) == [t |-> "DateTime", dt |-> n]
VGuid(g) == [t |-> "Guid", g |-> g]
VSc(c) == [t |-> "StatusCode", sc |-> c]
VNode(id) == [t |-> "NodeId", id |-> id]
VXNode(x) == [t |-> "ExpandedNodeId", xid |-> x]
VQn(q) == [t |-> "QualifiedName", qn |-> q]
VLt(l) == [t |-> "LocalizedText", lt |-> l]
VEo(e) == [t |-> "ExtensionObject", eo |-> e]
VDv(d) == [t |-> "DataValue", dv |-> d]
VVar(v) == [t |-> "Variant", v |-> v]
VDi(c) == [t |-> "DiagnosticInfo", di |-> c]
NoDims == [some |-> FALSE, d |-> <<>>]
Dims(d) == [some |-> TRUE, d |-> d]
VArr(ety, items, dims) == [t |-> "Array", ety |-> ety, items |-> items, dims |-> dims]
VFail == [t |-> "Fail"]

IntTypes == {"SByte", "Byte", "Int16", "UInt16", "Int32", "UInt32"}
Int64Types == {"Int64", "UInt64"}
FloatTypes == {"Float", "Double"}
NumTypes == {"Boolean"} \cup IntTypes \cup Int64Types \cup FloatTypes
StrTypes == {"String", "XmlElement"}
ScalarTypes == NumTypes \cup StrTypes \cup {"ByteString", "DateTime", "Guid", "NodeId", "ExpandedNodeId", "StatusCode",
                "QualifiedName", "LocalizedText", "ExtensionObject", "DataValue", "Variant", "DiagnosticInfo"}
\* the "Type" member of a Variant (Part 6, 5.1.2), as text
TypeTxt(t) == CASE t = "Empty" -> "0" [] t = "Boolean" -> "1" [] t = "SByte" -> "2" [] t = "Byte" -> "3" [] t = "Int16" -> "4"
                [] t = "UInt16" -> "5" [] t = "Int32" -> "6" [] t = "UInt32" -> "7" [] t = "Int64" -> "8" [] t = "UInt64" -> "9"
                [] t = "Float" -> "10" [] t = "Double" -> "11" [] t = "String" -> "12" [] t = "DateTime" -> "13" [] t = "Guid" -> "14"
                [] t = "ByteString" -> "15" [] t = "XmlElement" -> "16" [] t = "NodeId" -> "17" [] t = "ExpandedNodeId" -> "18"
                [] t = "StatusCode" -> "19" [] t = "QualifiedName" -> "20" [] t = "LocalizedText" -> "21"
                [] t = "ExtensionObject" -> "22" [] t = "DataValue" -> "23" [] t = "Variant" -> "24" [] t = "DiagnosticInfo" -> "25"
TypeOfTxt(x) == IF \E t \in ScalarTypes \cup {"Empty"} : TypeTxt(t) = x
                THEN CHOOSE t \in ScalarTypes \cup {"Empty"} : TypeTxt(t) = x ELSE "Unknown"

-----------------------------------------------------------------------------
(* leaf tables: named point -> JSON text                                    *)
Dg(ds) == [i \in 1..Len(ds) |-> 48 + ds[i]]            \* code points of a digit string
\* 64 bit integers travel as JSON strings
I64Tab == << <<"0", Dg(<<0>>)>>,
             <<"-9223372036854775808", <<45>> \o Dg(<<9, 2, 2, 3, 3, 7, 2, 0, 3, 6, 8, 5, 4, 7, 7, 5, 8, 0, 8>>)>>,
             <<"9223372036854775807", Dg(<<9, 2, 2, 3, 3, 7, 2, 0, 3, 6, 8, 5, 4, 7, 7, 5, 8, 0, 7>>)>>,
             <<"18446744073709551615", Dg(<<1, 8, 4, 4, 6, 7, 4, 4, 0, 7, 3, 7, 0, 9, 5, 5, 1, 6, 1, 5>>)>> >>
TabHas(T, i, x) == \E r \in 1..Len(T) : T[r][i] = x
TabGet(T, i, x, o) == T[CHOOSE r \in 1..Len(T) : T[r][i] = x][o]
\* floats: finite points are JSON numbers (shortest text that reads back), the three specials are JSON strings
FloatNum(t, p) == CASE p = "zero" -> "0.0" [] p = "negzero" -> "-0.0" [] p = "onehalf" -> "1.5" [] p = "tenth" -> "0.1"
                    [] p = "max" -> IF t = "Float" THEN "3.4028235e38" ELSE "1.7976931348623157e308"
                    [] p = "lowest" -> IF t = "Float" THEN "-3.4028235e38" ELSE "-1.7976931348623157e308"
                    [] p = "tiny" -> IF t = "Float" THEN "1.1754944e-38" ELSE "2.2250738585072014e-308"
FloatFinite == {"zero", "negzero", "onehalf", "tenth", "max", "lowest", "tiny"}
FloatSpecial == << <<"inf", <<73, 110, 102, 105, 110, 105, 116, 121>>>>,           \* "Infinity"
                   <<"ninf", <<45, 73, 110, 102, 105, 110, 105, 116, 121>>>>,       \* "-Infinity"
                   <<"nan", <<78, 97, 78>>>> >>                                      \* "NaN"
\* DateTime: RFC 3339 with milliseconds and "Z"
DtTab == << <<"epoch", Dg(<<1, 6, 0, 1>>) \o <<45>> \o Dg(<<0, 1>>) \o <<45>> \o Dg(<<0, 1>>) \o <<84>> \o Dg(<<0, 0>>) \o <<58>> \o Dg(<<0, 0>>)
                        \o <<58>> \o Dg(<<0, 0>>) \o <<46>> \o Dg(<<0, 0, 0>>) \o <<90>> >>,             \* 1601-01-01T00:00:00.000Z
            <<"ms", Dg(<<2, 0, 2, 1>>) \o <<45>> \o Dg(<<0, 3>>) \o <<45>> \o Dg(<<0, 4>>) \o <<84>> \o Dg(<<0, 5>>) \o <<58>> \o Dg(<<0, 6>>)
                     \o <<58>> \o Dg(<<0, 7>>) \o <<46>> \o Dg(<<0, 8, 9>>) \o <<90>> >>,                \* 2021-03-04T05:06:07.089Z
            <<"sec", Dg(<<1, 9, 9, 9>>) \o <<45>> \o Dg(<<1, 2>>) \o <<45>> \o Dg(<<3, 1>>) \o <<84>> \o Dg(<<2, 3>>) \o <<58>> \o Dg(<<5, 9>>)
                      \o <<58>> \o Dg(<<5, 9>>) \o <<46>> \o Dg(<<0, 0, 0>>) \o <<90>> >>,               \* 1999-12-31T23:59:59.000Z
            <<"end", Dg(<<9, 9, 9, 9>>) \o <<45>> \o Dg(<<1, 2>>) \o <<45>> \o Dg(<<3, 1>>) \o <<84>> \o Dg(<<2, 3>>) \o <<58>> \o Dg(<<5, 9>>)
                      \o <<58>> \o Dg(<<5, 9>>) \o <<46>> \o Dg(<<0, 0, 0>>) \o <<90>> >> >>             \* 9999-12-31T23:59:59.000Z
\* "sub" = "ms" + 123.4 microseconds: outside the quantifier of the property (millisecond precision); written like "ms"
DtTxt(n) == IF n = "sub" THEN TabGet(DtTab, 1, "ms", 2) ELSE TabGet(DtTab, 1, n, 2)
DtNames == {"epoch", "ms", "sec", "end"}
\* StatusCode: the 32 bit code as a JSON number
ScTxt(c) == CASE c = "Good" -> "0" [] c = "BadDecodingError" -> "2147942400"
              [] c = "UncertainInfo" -> "1083179137"          \* UncertainLastUsableValue + Overflow + HistoricalCalculated (0x40900081)
              [] c = "BadLimitHigh" -> "2147942912"           \* BadDecodingError + LimitHigh (0x80070200)
ScNames == {"Good", "BadDecodingError", "UncertainInfo", "BadLimitHigh"}

(* base64 (standard alphabet, padded) and lower case hex, computed           *)
B64Char(i) == IF i < 26 THEN 65 + i ELSE IF i < 52 THEN 97 + (i - 26) ELSE IF i < 62 THEN 48 + (i - 52) ELSE IF i = 62 THEN 43 ELSE 47
RECURSIVE B64(_)
B64(b) == IF b = <<>> THEN <<>>
          ELSE IF Len(b) = 1 THEN <<B64Char(b[1] \div 4), B64Char((b[1] % 4) * 16), 61, 61>>
          ELSE IF Len(b) = 2 THEN <<B64Char(b[1] \div 4), B64Char((b[1] % 4) * 16 + b[2] \div 16), B64Char((b[2] % 16) * 4), 61>>
          ELSE <<B64Char(b[1] \div 4), B64Char((b[1] % 4) * 16 + b[2] \div 16), B64Char((b[2] % 16) * 4 + b[3] \div 64), B64Char(b[3] % 64)>>
               \o B64(SubSeq(b, 4, Len(b)))
B64Val(c) == IF c >= 65 /\ c <= 90 THEN c - 65 ELSE IF c >= 97 /\ c <= 122 THEN c - 71 ELSE IF c >= 48 /\ c <= 57 THEN c + 4
             ELSE IF c = 43 THEN 62 ELSE IF c = 47 THEN 63 ELSE -1
B64Ok(s) == Len(s) % 4 = 0 /\ \A i \in 1..Len(s) : B64Val(s[i]) >= 0 \/ (s[i] = 61 /\ i > Len(s) - 2 /\ (i = Len(s) \/ s[Len(s)] = 61))
RECURSIVE UnB64(_)
UnB64(s) == IF s = <<>> THEN <<>>
            ELSE LET a == B64Val(s[1]) b == B64Val(s[2]) c == B64Val(s[3]) d == B64Val(s[4]) IN
                 (IF s[3] = 61 THEN <<a * 4 + b \div 16>>
                  ELSE IF s[4] = 61 THEN <<a * 4 + b \div 16, (b % 16) * 16 + c \div 4>>
                  ELSE <<a * 4 + b \div 16, (b % 16) * 16 + c \div 4, (c % 4) * 64 + d>>) \o UnB64(SubSeq(s, 5, Len(s)))
HexD(d) == IF d < 10 THEN 48 + d ELSE 87 + d
Hex(b) == Cat([i \in 1..Len(b) |-> <<HexD(b[i] \div 16), HexD(b[i] % 16)>>])
HexV(c) == IF c >= 48 /\ c <= 57 THEN c - 48 ELSE IF c >= 97 /\ c <= 102 THEN c - 87 ELSE IF c >= 65 /\ c <= 70 THEN c - 55 ELSE -1
\* 8-4-4-4-12
GuidTxt(g) == Hex(SubSeq(g, 1, 4)) \o <<45>> \o Hex(SubSeq(g, 5, 6)) \o <<45>> \o Hex(SubSeq(g, 7, 8)) \o <<45>>
              \o Hex(SubSeq(g, 9, 10)) \o <<45>> \o Hex(SubSeq(g, 11, 16))
GuidOk(s) == Len(s) = 36 /\ \A i \in 1..36 : IF i \in {9, 14, 19, 24} THEN s[i] = 45 ELSE HexV(s[i]) >= 0
UnGuid(s) == LET h == SelectSeq(s, LAMBDA c : c # 45) IN [i \in 1..16 |-> 16 * HexV(h[2 * i - 1]) + HexV(h[2 * i])]

-----------------------------------------------------------------------------
(* tests on the nodes of a value (classes for signatures; what the serialiser meets) *)
IsXUri(v) == v.t = "ExpandedNodeId" /\ ~v.xid.uri.nl
Test(what, v) == CASE what = "arr" -> v.t = "Array"
                   [] what = "xuri" -> IsXUri(v)
                   [] what = "xuri-idx" -> IsXUri(v) /\ v.xid.id.ns # "0"
                   [] what = "null-xml" -> v.t = "XmlElement" /\ v.s.nl
                   [] what = "di-some-null" -> v.t = "DiagnosticInfo" /\ \E i \in 1..Len(v.di) : v.di[i].add.some /\ v.di[i].add.s.nl
\* some node of the value (as far as the serialiser reaches) passes the test
RECURSIVE HasT(_, _)
HasT(what, v) == Test(what, v) \/ CASE v.t = "Variant" -> HasT(what, v.v)
                                      [] v.t = "DataValue" -> v.dv.hv /\ HasT(what, v.dv.v)
                                      [] v.t = "Array" -> \E i \in 1..Len(v.items) : HasT(what, v.items[i])
                                      [] OTHER -> FALSE
-----------------------------------------------------------------------------
(* design variations: the known departures of the tree from the reversible   *)
(* design (DESIGN.md 2.4).                                                   *)
(*   arrays  "body"  : a Variant array is {"Type": element type, "Body": [element bodies], "Dimensions": [...]}            *)
(*           "panic" : Serialize for Variant panics on Variant::Array ("Unsupported variant type")                         *)
(*   xuri    "namespace" : the namespace uri of an ExpandedNodeId is written as a JSON string in "Namespace" (Part 6,      *)
(*                     5.4.2.11; it REPLACES the namespace index there), read back into namespace_uri                      *)
(*           "dropped"   : the namespace uri is not written at all                                                          *)
(*   xmlnull "null"  : a Variant holding a null XmlElement reads back ("Body": null, as for String)                        *)
(*           "reject": it is rejected ("Invalid value, cannot parse XmlElement")                                            *)
(*   optnull "kept"  : DiagnosticInfo.additional_info = Some(null string) is written so that it can be told from None       *)
(*           "none"  : it is written as null and reads back as None                                                         *)
Design == [arrays |-> "body", xuri |-> "namespace", xmlnull |-> "null", optnull |-> "kept"]

-----------------------------------------------------------------------------
(* Enc: the specified JSON form                                              *)
EncStr(s) == IF s.nl THEN JNull ELSE JStr(s.b)
EncBs(s) == IF s.nl THEN JNull ELSE JStr(B64(s.b))
IdTypeTxt(k) == CASE k = "str" -> "1" [] k = "guid" -> "2" [] k = "opq" -> "3" [] OTHER -> "0"
\* string / byte string identifiers are written through as_ref(): a null identifier is written like an empty one
EncIdent(id) == CASE id.k = "num" -> JNum(id.n) [] id.k = "str" -> JStr(id.s.b) [] id.k = "guid" -> JStr(GuidTxt(id.g))
                  [] id.k = "opq" -> JStr(B64(id.s.b))
EncNidHead(id) == Fld(id.k # "num", "Type", JNum(IdTypeTxt(id.k))) \o << <<"Id", EncIdent(id)>> >>
EncNid(id) == JObj(EncNidHead(id) \o Fld(id.ns # "0", "Namespace", JNum(id.ns)))
EncXNid(x, dv) == JObj(EncNidHead(x.id)
                       \o (IF dv.xuri = "namespace" /\ ~x.uri.nl THEN << <<"Namespace", JStr(x.uri.b)>> >>
                           ELSE Fld(x.id.ns # "0", "Namespace", JNum(x.id.ns)))
                       \o Fld(x.srv # "0", "ServerUri", JNum(x.srv)))
EncQn(q) == JObj(<< <<"Uri", JNum(q.ns)>>, <<"Name", EncStr(q.name)>> >>)
EncLt(l) == JObj(<< <<"Locale", EncStr(l.loc)>>, <<"Text", EncStr(l.text)>> >>)
\* ExtensionObjectEncoding is a derived (externally tagged) enum
EncEo(e) == JObj(<< <<"NodeId", EncNid(e.id)>>,
                    <<"Body", CASE e.enc = "none" -> JStr(<<78, 111, 110, 101>>)                         \* "None"
                                [] e.enc = "bytes" -> JObj(<< <<"ByteString", EncBs(e.body)>> >>)
                                [] e.enc = "xml" -> JObj(<< <<"XmlElement", EncStr(e.body)>> >>)>> >>)
EncOptI(key, o) == Fld(o.some, key, JNum(o.x))
RECURSIVE EncDi(_, _)
EncDi(c, dv) == LET l == Head(c) IN
  JObj(EncOptI("SymbolicId", l.sym) \o EncOptI("NamespaceUri", l.nsu) \o EncOptI("Locale", l.lcl) \o EncOptI("LocalizedText", l.ltx)
       \o Fld(l.add.some, "AdditionalInfo", EncStr(l.add.s)) \o Fld(l.ist.some, "InnerStatusCode", JNum(ScTxt(l.ist.sc)))
       \o Fld(Len(c) > 1, "InnerDiagnosticInfo", IF Len(c) > 1 THEN EncDi(Tail(c), dv) ELSE JNull))

RECURSIVE EncVariant(_, _), EncBody(_, _), EncDv(_, _)
EncDv(d, dv) == JObj(Fld(d.hv, "Value", IF d.hv THEN EncVariant(d.v, dv) ELSE JNull) \o Fld(d.hs, "Status", JNum(ScTxt(d.st)))
                     \o Fld(d.hst, "SourceTimestamp", JStr(DtTxt(d.sts))) \o Fld(d.hsp, "SourcePicoseconds", JNum(d.sp))
                     \o Fld(d.hvt, "ServerTimestamp", JStr(DtTxt(d.svs))) \o Fld(d.hvp, "ServerPicoseconds", JNum(d.vp)))
\* the value of a built-in type on its own ( = the "Body" of a scalar Variant)
EncBody(v, dv) ==
  CASE v.t = "Boolean" -> JBool(v.p)
    [] v.t \in IntTypes -> JNum(v.p)
    [] v.t \in Int64Types -> JStr(TabGet(I64Tab, 1, v.p, 2))
    [] v.t \in FloatTypes -> IF v.p \in FloatFinite THEN JNum(FloatNum(v.t, v.p)) ELSE JStr(TabGet(FloatSpecial, 1, v.p, 2))
    [] v.t \in StrTypes -> EncStr(v.s)
    [] v.t = "ByteString" -> EncBs(v.s)
    [] v.t = "DateTime" -> JStr(DtTxt(v.dt))
    [] v.t = "Guid" -> JStr(GuidTxt(v.g))
    [] v.t = "StatusCode" -> JNum(ScTxt(v.sc))
    [] v.t = "NodeId" -> EncNid(v.id)
    [] v.t = "ExpandedNodeId" -> EncXNid(v.xid, dv)
    [] v.t = "QualifiedName" -> EncQn(v.qn)
    [] v.t = "LocalizedText" -> EncLt(v.lt)
    [] v.t = "ExtensionObject" -> EncEo(v.eo)
    [] v.t = "DataValue" -> EncDv(v.dv, dv)
    [] v.t = "Variant" -> EncVariant(v.v, dv)
    [] v.t = "DiagnosticInfo" -> EncDi(v.di, dv)
EncVariant(v, dv) ==
  CASE v.t = "Empty" -> JObj(<< <<"Type", JNum("0")>> >>)
    \* the body is built as a serde_json::Value first: its objects come out sorted
    [] v.t = "Array" -> JObj(<< <<"Type", JNum(TypeTxt(v.ety))>>,
                                <<"Body", JArr([i \in 1..Len(v.items) |-> SortJ(EncBody(v.items[i], dv))])>> >>
                             \o Fld(v.dims.some, "Dimensions", JArr([i \in 1..Len(v.dims.d) |-> JNum(ToString(v.dims.d[i]))])))
    [] OTHER -> JObj(<< <<"Type", JNum(TypeTxt(v.t))>>, <<"Body", SortJ(EncBody(v, dv))>> >>)

\* the document written for a value of top level type ty (ty = "Variant": w is the Variant; else w is the tagged payload)
Enc(ty, w, dv) == IF dv.arrays = "panic" /\ HasT("arr", w) THEN JFail
                  ELSE IF ty = "Variant" THEN EncVariant(w, dv) ELSE EncBody(w, dv)

-----------------------------------------------------------------------------
(* Dec: the specified deserialiser; every operator returns [ok, v]            *)
R(ok, v) == [ok |-> ok, v |-> v]
DecStr(j) == IF j.k = "null" THEN R(TRUE, NullS) ELSE IF j.k = "str" THEN R(TRUE, S(j.s)) ELSE R(FALSE, NullS)
DecBs(j) == IF j.k = "null" THEN R(TRUE, NullS)
            ELSE IF j.k = "str" /\ B64Ok(j.s) THEN R(TRUE, S(UnB64(j.s))) ELSE R(FALSE, NullS)
NumOr(j, key, dflt) == IF Present(j, key) THEN Get(j, key) ELSE JNum(dflt)
\* the NodeId members of an object: Type (default 0), Id, Namespace (default 0; a number)
DecNidWith(j, ns) ==
  IF j.k # "obj" \/ ~Has(j, "Id") THEN R(FALSE, NullId)
  ELSE LET ty == NumOr(j, "Type", "0")  id == Get(j, "Id") IN
       IF ty.k # "num" \/ ns.k # "num" THEN R(FALSE, NullId)
       ELSE CASE ty.n = "0" -> IF id.k = "num" THEN R(TRUE, NumId(ns.n, id.n)) ELSE R(FALSE, NullId)
              [] ty.n = "1" -> IF id.k = "str" /\ id.s # <<>> THEN R(TRUE, StrId(ns.n, S(id.s))) ELSE R(FALSE, NullId)
              [] ty.n = "2" -> IF id.k = "str" /\ GuidOk(id.s) THEN R(TRUE, GuidId(ns.n, UnGuid(id.s))) ELSE R(FALSE, NullId)
              [] ty.n = "3" -> IF id.k = "str" /\ id.s # <<>> /\ B64Ok(id.s) THEN R(TRUE, OpqId(ns.n, S(UnB64(id.s)))) ELSE R(FALSE, NullId)
              [] OTHER -> R(FALSE, NullId)
DecNid(j) == DecNidWith(j, IF j.k = "obj" THEN NumOr(j, "Namespace", "0") ELSE JNull)
DecXNid(j, dv) ==
  IF j.k # "obj" THEN R(FALSE, XNid(NullId, NullS, "0"))
  ELSE LET nsj == NumOr(j, "Namespace", "0")
           isUri == dv.xuri = "namespace" /\ nsj.k = "str"
           id == DecNidWith(j, IF isUri THEN JNum("0") ELSE nsj)
           srv == NumOr(j, "ServerUri", "0")
       IN R(id.ok /\ srv.k = "num", XNid(id.v, IF isUri THEN S(nsj.s) ELSE NullS, IF srv.k = "num" THEN srv.n ELSE "0"))
\* derived structs: every member that is not an Option must be there
DecQn(j) == IF j.k = "obj" /\ Has(j, "Uri") /\ Has(j, "Name") /\ Get(j, "Uri").k = "num"
            THEN LET s == DecStr(Get(j, "Name")) IN R(s.ok, Qn(Get(j, "Uri").n, s.v)) ELSE R(FALSE, Qn("0", NullS))
DecLt(j) == IF j.k = "obj" /\ Has(j, "Locale") /\ Has(j, "Text")
            THEN LET a == DecStr(Get(j, "Locale")) b == DecStr(Get(j, "Text")) IN R(a.ok /\ b.ok, Lt(a.v, b.v))
            ELSE R(FALSE, Lt(NullS, NullS))
DecEo(j) ==
  IF j.k # "obj" \/ ~Has(j, "NodeId") \/ ~Has(j, "Body") THEN R(FALSE, Eo(NullId, "none", NullS))
  ELSE LET id == DecNid(Get(j, "NodeId"))  b == Get(j, "Body") IN
       IF b.k = "str" THEN R(id.ok /\ b.s = <<78, 111, 110, 101>>, Eo(id.v, "none", NullS))
       ELSE IF Has(b, "ByteString") THEN LET s == DecBs(Get(b, "ByteString")) IN R(id.ok /\ s.ok, Eo(id.v, "bytes", s.v))
       ELSE IF Has(b, "XmlElement") THEN LET s == DecStr(Get(b, "XmlElement")) IN R(id.ok /\ s.ok, Eo(id.v, "xml", s.v))
       ELSE R(FALSE, Eo(NullId, "none", NullS))
DecOptI(j, key) == IF Present(j, key) THEN (IF Get(j, key).k = "num" THEN R(TRUE, SomeI(Get(j, key).n)) ELSE R(FALSE, NoneI)) ELSE R(TRUE, NoneI)
ScOfTxt(x) == IF \E c \in ScNames : ScTxt(c) = x THEN CHOOSE c \in ScNames : ScTxt(c) = x ELSE "other"
DtOfTxt(s) == IF TabHas(DtTab, 2, s) THEN TabGet(DtTab, 2, s, 1) ELSE "other"
DecOptC(j, key) == IF Present(j, key) THEN (IF Get(j, key).k = "num" THEN R(TRUE, SomeC(ScOfTxt(Get(j, key).n))) ELSE R(FALSE, NoneC)) ELSE R(TRUE, NoneC)
RECURSIVE DecDi(_, _)
DecDi(j, dv) ==
  IF j.k # "obj" THEN R(FALSE, <<DiNullLink>>)
  ELSE LET a == DecOptI(j, "SymbolicId") b == DecOptI(j, "NamespaceUri") c == DecOptI(j, "Locale") d == DecOptI(j, "LocalizedText")
           \* Option<UAString>: a member that is null reads back as None unless the deserialiser tells "null" from "absent"
           e == IF Present(j, "AdditionalInfo") \/ (dv.optnull = "kept" /\ Has(j, "AdditionalInfo")) THEN LET s == DecStr(Get(j, "AdditionalInfo")) IN R(s.ok, SomeS(s.v)) ELSE R(TRUE, NoneS)
           f == DecOptC(j, "InnerStatusCode")
           g == IF Present(j, "InnerDiagnosticInfo") THEN DecDi(Get(j, "InnerDiagnosticInfo"), dv) ELSE R(TRUE, <<>>)
       IN R(a.ok /\ b.ok /\ c.ok /\ d.ok /\ e.ok /\ f.ok /\ g.ok, <<DiLink(a.v, b.v, c.v, d.v, e.v, f.v)>> \o g.v)

DimOfTxt(x) == IF \E i \in 0..9 : ToString(i) = x THEN CHOOSE i \in 0..9 : ToString(i) = x ELSE -1
FloatOfTxt(t, x) == IF \E p \in FloatFinite : FloatNum(t, p) = x THEN CHOOSE p \in FloatFinite : FloatNum(t, p) = x ELSE "other"
RECURSIVE DecVariant(_, _), DecBody(_, _, _, _), DecDv(_, _)
DecDv(j, dv) ==
  IF j.k # "obj" THEN R(FALSE, DvNull)
  ELSE LET v == IF Present(j, "Value") THEN DecVariant(Get(j, "Value"), dv) ELSE R(TRUE, VEmpty)
           st == DecOptC(j, "Status")
           T(key) == IF Present(j, key) THEN (IF Get(j, key).k = "str" THEN R(TRUE, DtOfTxt(Get(j, key).s)) ELSE R(FALSE, "epoch")) ELSE R(TRUE, "epoch")
           P(key) == IF Present(j, key) THEN (IF Get(j, key).k = "num" THEN R(TRUE, Get(j, key).n) ELSE R(FALSE, "0")) ELSE R(TRUE, "0")
       IN R(v.ok /\ st.ok /\ T("SourceTimestamp").ok /\ T("ServerTimestamp").ok /\ P("SourcePicoseconds").ok /\ P("ServerPicoseconds").ok,
            Dv(Present(j, "Value"), v.v, st.v.some, st.v.sc, Present(j, "SourceTimestamp"), T("SourceTimestamp").v,
               Present(j, "SourcePicoseconds"), P("SourcePicoseconds").v, Present(j, "ServerTimestamp"), T("ServerTimestamp").v,
               Present(j, "ServerPicoseconds"), P("ServerPicoseconds").v))
\* a value of built-in type t from its body; has = the body is there and not null
DecBody(t, has, j, dv) ==
  CASE t = "Boolean" -> IF has /\ j.k = "bool" THEN R(TRUE, VNum(t, j.n)) ELSE R(FALSE, VFail)
    [] t \in IntTypes -> IF ~has THEN R(TRUE, VNum(t, "0")) ELSE IF j.k = "num" THEN R(TRUE, VNum(t, j.n)) ELSE R(FALSE, VFail)
    [] t \in Int64Types -> IF ~has THEN R(TRUE, VNum(t, "0"))
                           ELSE IF j.k = "str" /\ TabHas(I64Tab, 2, j.s) THEN R(TRUE, VNum(t, TabGet(I64Tab, 2, j.s, 1))) ELSE R(FALSE, VFail)
    [] t \in FloatTypes -> IF ~has THEN R(TRUE, VNum(t, "zero"))
                           ELSE IF j.k = "num" THEN R(TRUE, VNum(t, FloatOfTxt(t, j.n)))
                           ELSE IF j.k = "str" /\ TabHas(FloatSpecial, 2, j.s) THEN R(TRUE, VNum(t, TabGet(FloatSpecial, 2, j.s, 1)))
                           ELSE R(FALSE, VFail)
    [] t = "String" -> IF ~has THEN R(TRUE, VStr(t, NullS)) ELSE LET s == DecStr(j) IN R(s.ok, VStr(t, s.v))
    [] t = "XmlElement" -> IF ~has THEN (IF dv.xmlnull = "null" THEN R(TRUE, VStr(t, NullS)) ELSE R(FALSE, VFail))
                           ELSE LET s == DecStr(j) IN R(s.ok, VStr(t, s.v))
    [] t = "ByteString" -> IF ~has THEN R(TRUE, VStr(t, NullS)) ELSE LET s == DecBs(j) IN R(s.ok, VStr(t, s.v))
    [] t = "DateTime" -> IF has /\ j.k = "str" THEN R(TRUE, VDt(DtOfTxt(j.s))) ELSE R(FALSE, VFail)
    [] t = "Guid" -> IF has /\ j.k = "str" /\ GuidOk(j.s) THEN R(TRUE, VGuid(UnGuid(j.s))) ELSE R(FALSE, VFail)
    [] t = "StatusCode" -> IF has /\ j.k = "num" THEN R(TRUE, VSc(ScOfTxt(j.n))) ELSE R(FALSE, VFail)
    [] t = "NodeId" -> IF ~has THEN R(FALSE, VFail) ELSE LET r == DecNid(j) IN R(r.ok, VNode(r.v))
    [] t = "ExpandedNodeId" -> IF ~has THEN R(FALSE, VFail) ELSE LET r == DecXNid(j, dv) IN R(r.ok, VXNode(r.v))
    [] t = "QualifiedName" -> IF ~has THEN R(FALSE, VFail) ELSE LET r == DecQn(j) IN R(r.ok, VQn(r.v))
    [] t = "LocalizedText" -> IF ~has THEN R(FALSE, VFail) ELSE LET r == DecLt(j) IN R(r.ok, VLt(r.v))
    [] t = "ExtensionObject" -> IF ~has THEN R(FALSE, VFail) ELSE LET r == DecEo(j) IN R(r.ok, VEo(r.v))
    [] t = "DataValue" -> IF ~has THEN R(FALSE, VFail) ELSE LET r == DecDv(j, dv) IN R(r.ok, VDv(r.v))
    [] t = "Variant" -> IF ~has THEN R(FALSE, VFail) ELSE LET r == DecVariant(j, dv) IN R(r.ok, VVar(r.v))
    [] t = "DiagnosticInfo" -> IF ~has THEN R(FALSE, VFail) ELSE LET r == DecDi(j, dv) IN R(r.ok, VDi(r.v))
    [] OTHER -> R(FALSE, VFail)
DecVariant(j, dv) ==
  IF j.k = "null" THEN R(TRUE, VEmpty)
  ELSE IF j.k # "obj" \/ ~Has(j, "Type") \/ Get(j, "Type").k # "num" THEN R(FALSE, VFail)
  ELSE LET t == TypeOfTxt(Get(j, "Type").n)
           has == Present(j, "Body")
           body == IF has THEN Get(j, "Body") ELSE JNull
           hasD == Present(j, "Dimensions")
       IN IF t = "Unknown" THEN R(FALSE, VFail)
          ELSE IF t = "Empty" THEN R(~has /\ ~hasD, VEmpty)
          ELSE IF has /\ body.k = "arr"
          THEN IF dv.arrays # "body" THEN R(FALSE, VFail)
               ELSE LET it == [i \in 1..Len(body.a) |-> DecBody(t, body.a[i].k # "null", body.a[i], dv)]
                        dj == IF hasD THEN Get(j, "Dimensions") ELSE JNull
                        dm == IF hasD /\ dj.k = "arr" THEN [i \in 1..Len(dj.a) |-> IF dj.a[i].k = "num" THEN DimOfTxt(dj.a[i].n) ELSE -1] ELSE <<>>
                    IN R((\A i \in 1..Len(it) : it[i].ok) /\ (hasD => dj.k = "arr" /\ \A i \in 1..Len(dm) : dm[i] >= 0),
                         VArr(t, [i \in 1..Len(it) |-> it[i].v], IF hasD THEN Dims(dm) ELSE NoDims))
          ELSE IF hasD THEN R(FALSE, VFail)
          ELSE DecBody(t, has, body, dv)
Dec(ty, j, dv) == IF j.k = "fail" THEN R(FALSE, VFail)
                  ELSE IF ty = "Variant" THEN DecVariant(j, dv) ELSE DecBody(ty, j.k # "null", j, dv)

-----------------------------------------------------------------------------
(* equality of values as the types' own PartialEq sees it, with one stated   *)
(* exception: NaN is taken to equal NaN (PartialEq of f32/f64 says it does    *)
(* not; the property is about the value coming back, and NaN comes back as   *)
(* NaN).  +0.0 and -0.0 are equal (PartialEq says so).                        *)
RECURSIVE EqNorm(_)
EqNormDv(d) == [d EXCEPT !.v = EqNorm(@)]
EqNorm(v) ==
  CASE v.t \in FloatTypes -> IF v.p = "negzero" THEN VNum(v.t, "zero") ELSE v
    [] v.t = "Variant" -> VVar(EqNorm(v.v))
    [] v.t = "DataValue" -> VDv(EqNormDv(v.dv))
    [] v.t = "Array" -> VArr(v.ety, [i \in 1..Len(v.items) |-> EqNorm(v.items[i])], v.dims)
    [] OTHER -> v
\* the same value with every null string / byte string replaced by an empty one (to name the clause only)
NE(s) == IF s.nl THEN S(<<>>) ELSE s
NENid(id) == [id EXCEPT !.s = IF id.k \in {"str", "opq"} THEN NE(@) ELSE @]
RECURSIVE NullAsEmpty(_)
NullAsEmpty(v) ==
  CASE v.t \in StrTypes \cup {"ByteString"} -> VStr(v.t, NE(v.s))
    [] v.t = "NodeId" -> VNode(NENid(v.id))
    [] v.t = "ExpandedNodeId" -> VXNode(XNid(NENid(v.xid.id), NE(v.xid.uri), v.xid.srv))
    [] v.t = "QualifiedName" -> VQn(Qn(v.qn.ns, NE(v.qn.name)))
    [] v.t = "LocalizedText" -> VLt(Lt(NE(v.lt.loc), NE(v.lt.text)))
    [] v.t = "ExtensionObject" -> VEo(Eo(NENid(v.eo.id), v.eo.enc, IF v.eo.enc = "none" THEN v.eo.body ELSE NE(v.eo.body)))
    [] v.t = "DiagnosticInfo" -> VDi([i \in 1..Len(v.di) |-> [v.di[i] EXCEPT !.add = IF @.some THEN SomeS(NE(@.s)) ELSE @]])
    [] v.t = "Variant" -> VVar(NullAsEmpty(v.v))
    [] v.t = "DataValue" -> VDv([v.dv EXCEPT !.v = NullAsEmpty(@)])
    [] v.t = "Array" -> VArr(v.ety, [i \in 1..Len(v.items) |-> NullAsEmpty(v.items[i])], v.dims)
    [] OTHER -> v

-----------------------------------------------------------------------------
(* the quantifier of the property: DateTime at millisecond precision, NodeId  *)
(* identifiers non-empty.  Only top level NodeId / ExpandedNodeId / DateTime  *)
(* cases are generated outside it (to report what the code does there).       *)
EmptyIdent(id) == id.k \in {"str", "opq"} /\ StrEmpty(id.s)
InScope(c) == CASE c.ty = "DateTime" -> c.w.dt # "sub"
                [] c.ty = "NodeId" -> ~EmptyIdent(c.w.id)
                [] c.ty = "ExpandedNodeId" -> ~EmptyIdent(c.w.xid.id)
                [] OTHER -> TRUE

(* classes of values, for the signature of a violation                        *)
Class(w) == IF HasT("arr", w) THEN "variant-array"
            ELSE IF HasT("xuri-idx", w) THEN "expanded-node-id-with-uri-and-index"
            ELSE IF HasT("xuri", w) THEN "expanded-node-id-with-uri"
            ELSE IF HasT("null-xml", w) THEN "variant-null-xml-element"
            ELSE IF HasT("di-some-null", w) THEN "diagnostic-info-null-additional-info"
            ELSE "plain"

-----------------------------------------------------------------------------
(* L2: the property on one observation e = [c |-> [ty, w], r |-> ...]          *)
(*   r.fail, r.site   "none" | "panic" and where (stage:file:message)         *)
(*   r.ser            "ok" | "err"       serde_json::to_string                *)
(*   r.de             "ok" | "err" | "none"   serde_json::from_str of that text *)
(*   r.back           the deserialised value, re-abstracted (shape of c.w)    *)
(*   r.eq             the real PartialEq between the value and what came back  *)
(*   r.json, r.text   the document (tree / text): L1 drift only, not judged    *)
(* "yields an equal value": the re-abstracted values are compared (EqNorm);   *)
(* when they differ only in null against empty the clause says so.            *)
RtViol(e) ==
  LET c == e.c  r == e.r  k == c.ty \o ":" \o Class(c.w) \o ":" IN
  IF ~InScope(c) THEN {}
  ELSE IF r.fail # "none" THEN {k \o "panic:" \o r.site}
  ELSE IF r.ser # "ok" THEN {k \o "serialize-failed"}
  ELSE IF r.de # "ok" THEN {k \o "deserialize-failed"}
  ELSE IF EqNorm(r.back) = EqNorm(c.w) THEN {}
  ELSE IF NullAsEmpty(EqNorm(r.back)) = NullAsEmpty(EqNorm(c.w)) THEN {k \o "null-empty-conflated"}
  ELSE {k \o "not-equal"}

(* the same predicate on the specified functions (design check)                *)
SpecObs(c, dv) == LET j == Enc(c.ty, c.w, dv)  d == Dec(c.ty, j, dv) IN
  [fail |-> "none", site |-> "", ser |-> IF j.k = "fail" THEN "err" ELSE "ok", de |-> IF d.ok THEN "ok" ELSE "err", back |-> d.v]
SpecViol(c, dv) == RtViol([c |-> c, r |-> SpecObs(c, dv)])
\* null and empty are written differently wherever the type tells them apart
NullEmptyDistinct(c, dv) == NullAsEmpty(c.w) # c.w => Enc(c.ty, NullAsEmpty(c.w), dv) # Enc(c.ty, c.w, dv)
=============================================================================
