---------------------------- MODULE FramingProps ----------------------------
(***************************************************************************)
(* L2 monitor of property C11 "Framing is independent of how the byte       *)
(* stream is segmented", over OBSERVATION RECORDS only (the records         *)
(* Framing.tla produces as evt and the harness produces from the real       *)
(* TcpCodec / SendBuffer).  FrStep(g, e) returns the new ghost state and    *)
(* the set of clauses that record e violates.                               *)
(*                                                                          *)
(* Receive side.  Records: Stream(frames [id, kind, size, len], max),       *)
(* Read(k, n, out = ids of the frames yielded, err), Eof(out, err, buf).    *)
(*   - the frames yielded so far are a prefix of the frames sent, in order; *)
(*   - at the end of the stream all frames have been yielded and nothing    *)
(*     else (no residue in the buffer, no error).                           *)
(* Tolerance: a frame whose header declares more than the receiver's        *)
(* maximum message size is not a frame the receiver has to accept: the      *)
(* frames before it must be yielded, what happens from it on is not judged  *)
(* here (C10 judges the rejection).                                         *)
(*                                                                          *)
(* Send side.  Records: Submit(ok, chunks = sizes of the secured chunks of  *)
(* the message), Sock(tot, dg, ref), End(idle, tot, dg, ref).               *)
(* dg identifies the bytes the socket has accepted so far, ref identifies   *)
(* the first tot bytes of the concatenation of the secured chunks (the      *)
(* model spells the bytes, the harness gives a digest): they must be equal  *)
(* after every write (nothing repeated, nothing out of place), tot never    *)
(* exceeds the secured bytes, and when the buffer has been flushed all      *)
(* secured bytes have been emitted (nothing lost).                          *)
(***************************************************************************)
EXTENDS Integers, Sequences, FiniteSets, SequencesExt, TLC

FrInit == [sent |-> <<>>, max |-> 0, got |-> <<>>, failed |-> FALSE, want |-> 0]

Ids(fr) == [j \in 1..Len(fr) |-> fr[j].id]
Bigs(g) == {j \in 1..Len(g.sent) : g.max > 0 /\ g.sent[j].size > g.max}
HasBig(g) == Bigs(g) # {}
FirstBig(g) == CHOOSE j \in Bigs(g) : \A x \in Bigs(g) : j <= x
\* the frames the receiver has to yield
Due(g) == IF HasBig(g) THEN SubSeq(Ids(g.sent), 1, FirstBig(g) - 1) ELSE Ids(g.sent)

Failed(e) == e.err \/ e.fail # "none"

RECURSIVE SumSeq(_)
SumSeq(s) == IF s = <<>> THEN 0 ELSE Head(s) + SumSeq(Tail(s))

FrStep(g, e) ==
  CASE e.ev = "Stream" ->
         [g |-> [FrInit EXCEPT !.sent = e.frames, !.max = e.max], viol |-> {}]
    [] e.ev = "Read" ->
         LET got2 == g.got \o e.out
             g2 == [g EXCEPT !.got = got2, !.failed = @ \/ Failed(e)] IN
         [g |-> g2,
          viol |-> (IF ~IsPrefix(got2, Ids(g.sent)) THEN {"yielded-frames-are-not-a-prefix-of-the-frames-sent"} ELSE {})
                   \cup (IF Failed(e) /\ ~HasBig(g) THEN {"valid-frame-rejected"} ELSE {})]
    [] e.ev = "Eof" ->
         LET got2 == g.got \o e.out
             g2 == [g EXCEPT !.got = got2, !.failed = @ \/ Failed(e)] IN
         [g |-> g2,
          viol |-> (IF ~IsPrefix(got2, Ids(g.sent)) THEN {"yielded-frames-are-not-a-prefix-of-the-frames-sent"} ELSE {})
                   \cup (IF ~IsPrefix(Due(g), got2) THEN {"frames-missing-at-end-of-stream"} ELSE {})
                   \cup (IF ~HasBig(g) /\ IsPrefix(Due(g), got2) /\ (e.buf # 0 \/ Failed(e))
                         THEN {"residue-or-error-at-end-of-stream"} ELSE {})]
    [] e.ev = "Submit" ->
         [g |-> IF e.ok THEN [g EXCEPT !.want = @ + SumSeq(e.chunks)] ELSE g, viol |-> {}]
    [] e.ev = "Sock" ->
         [g |-> g,
          viol |-> (IF e.fail # "none" THEN {"send-buffer-failed"} ELSE {})
                   \cup (IF e.fail = "none" /\ e.tot > g.want THEN {"emitted-more-bytes-than-were-secured"} ELSE {})
                   \cup (IF e.fail = "none" /\ e.tot <= g.want /\ e.dg # e.ref
                         THEN {"emitted-bytes-are-not-a-prefix-of-the-secured-chunks"} ELSE {})]
    [] e.ev = "End" ->
         [g |-> g,
          viol |-> (IF e.fail # "none" THEN {"send-buffer-failed"} ELSE {})
                   \cup (IF e.fail = "none" /\ e.tot > g.want THEN {"emitted-more-bytes-than-were-secured"} ELSE {})
                   \cup (IF e.fail = "none" /\ e.tot <= g.want /\ e.dg # e.ref
                         THEN {"emitted-bytes-are-not-a-prefix-of-the-secured-chunks"} ELSE {})
                   \cup (IF e.fail = "none" /\ (~e.idle \/ e.tot < g.want) THEN {"secured-bytes-never-emitted"} ELSE {})]
    [] OTHER -> [g |-> g, viol |-> {}]
=============================================================================
