--------------------------- MODULE MCPasswordToken ---------------------------
(* one TLC state per case; the specified encryption / decryption must satisfy the property *)
EXTENDS PasswordToken
VARIABLE c
Init == c \in Cases
Next == UNCHANGED c
Spec0 == Init /\ [][Next]_c
DesignOK == PwViol([c |-> c, r |-> Spec(c)]) = {}
=============================================================================
