--------------------------- MODULE HandshakeProps ---------------------------
(* L2 monitors over the observation records of the handshake engine.         *)
EXTENDS Integers, Sequences, FiniteSets, TLC
CONSTANTS MaxChunks, MaxMsg

Has(out, x) == \E j \in 1..Len(out) : out[j] = x
IsService(x) == x \notin {"ACK", "OPN", "ERR"}

MInit == [acked |-> FALSE, issued |-> FALSE, closed |-> FALSE]

(* C15  No service is processed before the handshake or after channel close *)
Mon15Step(g, e) ==
  LET v == IF e.fail # "none" THEN {}
           ELSE (IF ~g.acked /\ e.kind # "HEL" /\ e.out # <<>> THEN {"answered-before-hello"} ELSE {})
                \cup (IF ~g.acked /\ e.kind # "HEL" /\ e.fed /\ e.state # "Finished" THEN {"connection-survives-frame-before-hello"} ELSE {})
                \cup (IF e.kind \in {"MSG", "MSGS"} /\ ~g.issued /\ (\E j \in 1..Len(e.out) : IsService(e.out[j]))
                        THEN {"service-processed-before-open-secure-channel"} ELSE {})
                \cup (IF g.closed /\ e.out # <<>> THEN {"processed-after-close"} ELSE {})
      g1 == [acked |-> g.acked \/ (e.fail = "none" /\ e.kind = "HEL" /\ Has(e.out, "ACK")),
             issued |-> g.issued \/ (e.fail = "none" /\ e.kind \in {"OPNI", "OPNR"} /\ Has(e.out, "OPN")),
             closed |-> g.closed \/ (e.fail = "none" /\ e.fed /\ (e.kind = "CLO" /\ e.fl = "F")) \/ (e.fail = "none" /\ e.state = "Finished")]
  IN [g |-> g1, viol |-> v]

(* C10  Memory held for an incomplete incoming message is bounded *)
Mon10Step(g, e) ==
  LET v == IF e.fail # "none" THEN {}
           ELSE (IF MaxChunks > 0 /\ e.pend > MaxChunks THEN {"more-pending-chunks-than-max-chunk-count"} ELSE {})
                \cup (IF MaxMsg > 0 /\ e.bytes > MaxMsg THEN {"more-pending-bytes-than-max-message-size"} ELSE {})
  IN [g |-> g, viol |-> v]
=============================================================================
