--------------------------- MODULE HandshakeProps ---------------------------
(* L2 monitors over the observation records of the handshake engine.         *)
EXTENDS Integers, Sequences, FiniteSets, TLC
CONSTANTS MaxChunks, MaxMsg

Has(out, x) == \E j \in 1..Len(out) : out[j] = x
IsService(x) == x \notin {"ACK", "OPN", "ERR"}

MInit == [acked |-> FALSE, issued |-> FALSE, closed |-> FALSE, pend |-> 0, bytes |-> 0]

(* C15  No service is processed before the handshake or after channel close *)
Mon15Step(g, e) ==
  LET v == IF e.fail # "none" THEN {}
           ELSE (IF ~g.acked /\ e.kind # "HEL" /\ e.out # <<>> THEN {"answered-before-hello"} ELSE {})
                \cup (IF ~g.acked /\ e.kind # "HEL" /\ e.fed /\ e.state # "Finished" THEN {"connection-survives-frame-before-hello"} ELSE {})
                \cup (IF e.kind \in {"MSG", "MSGS"} /\ ~g.issued /\ (\E j \in 1..Len(e.out) : IsService(e.out[j]))
                        THEN {"service-processed-before-open-secure-channel"} ELSE {})
                \cup (IF g.closed /\ e.out # <<>> THEN {"processed-after-close"} ELSE {})
      g1 == [acked |-> g.acked \/ (e.fail = "none" /\ e.kind = "HEL" /\ Has(e.out, "ACK")),
             issued |-> g.issued \/ (e.fail = "none" /\ e.kind \in {"OPNI", "OPNR"} /\ Has(e.out, "OPN")),
             closed |-> g.closed \/ (e.fail = "none" /\ e.fed /\ (e.kind = "CLO" /\ e.fl = "F")) \/ (e.fail = "none" /\ e.state = "Finished"),
             \* chunks / bytes buffered for the incomplete message before the next frame
             pend |-> IF e.fail = "none" THEN e.pend ELSE g.pend,
             bytes |-> IF e.fail = "none" THEN e.bytes ELSE g.bytes]
  IN [g |-> g1, viol |-> v]

(* C10  Memory held for an incomplete incoming message is bounded *)
\* (the ghost is advanced by Mon15Step; g.pend / g.bytes = what was buffered before this frame)
Mon10Step(g, e) ==
  LET \* this chunk is one more than the limits allow for the message it belongs to
      over == e.kind # "HEL" /\ e.fl \in {"C", "F"}
              /\ ((MaxChunks > 0 /\ g.pend + 1 > MaxChunks) \/ (MaxMsg > 0 /\ g.bytes + e.sz > MaxMsg))
      v == IF e.fail # "none" THEN {}
           ELSE (IF MaxChunks > 0 /\ e.pend > MaxChunks THEN {"more-pending-chunks-than-max-chunk-count"} ELSE {})
                \cup (IF MaxMsg > 0 /\ e.bytes > MaxMsg THEN {"more-pending-bytes-than-max-message-size"} ELSE {})
                \* a peer exceeding either limit gets an error and the connection is closed: the message is not carried out
                \cup (IF over /\ e.fed /\ (\E j \in 1..Len(e.out) : IsService(e.out[j]))
                        THEN {"message-beyond-the-negotiated-limits-was-answered"} ELSE {})
                \cup (IF over /\ e.fed /\ e.state # "Finished" THEN {"connection-survives-a-message-beyond-the-negotiated-limits"} ELSE {})
  IN [g |-> g, viol |-> v]
=============================================================================
