------------------------------ MODULE GenFraming ------------------------------
(* Case generator of C11: every behaviour of Framing.tla (exhaustive in model  *)
(* checking mode, sampled in simulation mode) is printed as one JSON line: the  *)
(* sequence of observation records the specification predicts.  The harness     *)
(* replays the Read / Submit / Encode / Sock steps on the real code.            *)
EXTENDS Framing, Json

VARIABLES hist

GInit == Init /\ hist = <<evt>>
GNext == Next /\ hist' = Append(hist, evt')
GSpec == GInit /\ [][GNext]_<<vars, hist>>
\* for TLC's simulation mode
GNextSim == NextSim /\ hist' = Append(hist, evt')
GSpecSim == GInit /\ [][GNextSim]_<<vars, hist>>

\* always true; prints maximal behaviours
Emit == Done => PrintT(<<"CASE", ToJson([side |-> Side, steps |-> hist])>>)
=============================================================================
