---------------------------- MODULE BrowseProps ----------------------------
(***************************************************************************)
(* L2 monitor for C30 "Browsing in pages returns the full result exactly     *)
(* once", over observation records only.                                     *)
(*   Browse  : node dir filt mask page -> status refs ncp, and fstatus/full  *)
(*             = what an unlimited Browse with the same arguments returned   *)
(*             in the same address space state right before                  *)
(*   Next    : cp rel -> status refs ncp                                      *)
(*   Modify  : -> status, changed (did the projection of the address space   *)
(*             differ afterwards)                                            *)
(*   Probe   : BrowseNext on every continuation point ever issued -> ngood   *)
(* Ghost: per continuation point number the chain it belongs to: the full    *)
(* result, how much of it has been returned, the page size, its fate         *)
(* (live / used / released / outdated / gone), and `taint' = the statement   *)
(* no longer says whether it has to be served (the session held more than    *)
(* Cap of them, or a modification request left the address space unchanged). *)
(***************************************************************************)
EXTENDS Integers, Sequences, FiniteSets, SequencesExt, TLC

M30Init == [cps |-> <<>>, dead |-> FALSE]

Upd(f, k, r) == [x \in DOMAIN f \cup {k} |-> IF x = k THEN r ELSE f[x]]
LiveIds(c) == {i \in DOMAIN c : c[i].st = "live"}
MapLive(c, Op(_)) == [i \in DOMAIN c |-> IF c[i].st = "live" THEN Op(c[i]) ELSE c[i]]
Taint(r) == [r EXCEPT !.taint = TRUE]
Outdate(r) == [r EXCEPT !.st = "outdated"]

\* a page: the next part of the full result, at most `page' long, and the chain ends only when everything was returned
PageViol(full, pos, page, refs, ncp) ==
  (IF ~(pos + Len(refs) <= Len(full) /\ refs = SubSeq(full, pos + 1, pos + Len(refs)))
   THEN {"page-is-not-the-next-part-of-the-unlimited-result"} ELSE {})
  \cup (IF page > 0 /\ Len(refs) > page THEN {"page-larger-than-requested"} ELSE {})
  \cup (IF ncp = 0 /\ pos + Len(refs) < Len(full) THEN {"chain-ended-before-the-full-result-was-returned"} ELSE {})

\* a new continuation point number k joins the ghost; beyond Cap live ones the statement allows the server to drop any
Register(c, k, r, Cap) ==
  LET c1 == Upd(c, k, r)
  IN IF Cardinality(LiveIds(c1)) > Cap THEN MapLive(c1, Taint) ELSE c1

Mon30Step(g, e, Cap) ==
  IF g.dead THEN [g |-> g, viol |-> {}]
  ELSE IF e.fail # "none" THEN [g |-> [g EXCEPT !.dead = TRUE], viol |-> {}]      \* crashes are judged by C33
  ELSE IF e.ev = "Browse" THEN
    LET bad == e.status # "Good"
        v == (IF e.status # e.fstatus THEN {"paged-browse-status-differs-from-unlimited-browse"} ELSE {})
             \cup (IF bad THEN (IF e.refs # <<>> \/ e.ncp # 0 THEN {"failed-browse-returned-references"} ELSE {})
                   ELSE PageViol(e.full, 0, e.page, e.refs, e.ncp))
        c == IF ~bad /\ e.ncp # 0
             THEN Register(g.cps, e.ncp, [full |-> e.full, pos |-> Len(e.refs), page |-> e.page, st |-> "live", taint |-> FALSE], Cap)
             ELSE g.cps
    IN [g |-> [g EXCEPT !.cps = c], viol |-> v]
  ELSE IF e.ev = "Next" /\ e.rel THEN
    \* release: nothing is returned; the continuation point is gone afterwards
    [g |-> [g EXCEPT !.cps = IF e.cp \in LiveIds(g.cps) THEN Upd(g.cps, e.cp, [g.cps[e.cp] EXCEPT !.st = "released"]) ELSE g.cps],
     viol |-> IF e.refs # <<>> \/ e.ncp # 0 THEN {"release-returned-references"} ELSE {}]
  ELSE IF e.ev = "Next" THEN
    LET known == e.cp \in DOMAIN g.cps
        r == g.cps[e.cp]
        good == e.status = "Good"
    IN IF ~known \/ r.st # "live"
       THEN [g |-> g,
             viol |-> IF e.status # "BadContinuationPointInvalid" \/ e.refs # <<>> \/ e.ncp # 0
                      THEN {(IF known THEN r.st ELSE "unknown") \o "-continuation-point-not-answered-BadContinuationPointInvalid"} ELSE {}]
       ELSE IF ~good
       THEN [g |-> [g EXCEPT !.cps = Upd(g.cps, e.cp, [r EXCEPT !.st = "gone"])],
             viol |-> (IF ~r.taint THEN {"live-continuation-point-rejected"} ELSE {})
                      \cup (IF e.refs # <<>> \/ e.ncp # 0 THEN {"failed-browse-next-returned-references"} ELSE {})]
       ELSE LET c1 == Upd(g.cps, e.cp, [r EXCEPT !.st = "used"])
                c2 == IF e.ncp # 0
                      THEN Register(c1, e.ncp, [full |-> r.full, pos |-> r.pos + Len(e.refs), page |-> r.page, st |-> "live", taint |-> r.taint], Cap)
                      ELSE c1
            IN [g |-> [g EXCEPT !.cps = c2], viol |-> PageViol(r.full, r.pos, r.page, e.refs, e.ncp)]
  ELSE IF e.ev = "Modify" THEN
    \* the address space changed: every older continuation point is invalid; a request that changed nothing: unspecified
    [g |-> [g EXCEPT !.cps = IF e.changed THEN MapLive(g.cps, Outdate) ELSE MapLive(g.cps, Taint)], viol |-> {}]
  ELSE IF e.ev = "Probe" THEN
    [g |-> g, viol |-> IF e.ngood > Cap THEN {"more-continuation-points-served-than-the-session-may-keep"} ELSE {}]
  ELSE [g |-> g, viol |-> {}]
=============================================================================
