----------------------------- MODULE TraceAspace -----------------------------
EXTENDS Integers, Sequences, FiniteSets, SequencesExt, TLC, Json, IOUtils
CONSTANTS Nodes, Types, Mons
MP == INSTANCE AspaceProps
Obs == ndJsonDeserialize(IOEnv.OBS)
VARIABLES l, mon, out, dead
TInit == l = 1 /\ mon = MP!MInit /\ out = <<>> /\ dead = {}
Verdicts(e, prop, vs, dd) ==
  IF prop \in dd \/ prop \notin Mons THEN <<>>
  ELSE LET s == SetToSeq(vs) IN [j \in 1..Len(s) |-> [case |-> e.case, i |-> e.i, prop |-> prop, clause |-> s[j]]]
TNext ==
  \/ /\ l <= Len(Obs)
     /\ LET e == Obs[l]
            g == IF e.i = 1 THEN MP!MInit ELSE mon
            dd == IF e.i = 1 THEN {} ELSE dead
            r28 == MP!Mon28Step(g, e)
            r29 == MP!Mon29Step(g, e)
            r31 == MP!Mon31Step(g, e)
        IN /\ mon' = r28.g
           /\ out' = out \o Verdicts(e, "C28", r28.viol, dd) \o Verdicts(e, "C29", r29.viol, dd) \o Verdicts(e, "C31", r31.viol, dd)
           /\ dead' = dd \cup (IF r28.viol # {} THEN {"C28"} ELSE {}) \cup (IF r29.viol # {} THEN {"C29"} ELSE {})
                         \cup (IF r31.viol # {} THEN {"C31"} ELSE {})
     /\ l' = l + 1
  \/ /\ l = Len(Obs) + 1 /\ ndJsonSerialize(IOEnv.VERDICT, out) /\ l' = l + 1 /\ UNCHANGED <<mon, out, dead>>
TSpec == TInit /\ [][TNext]_<<l, mon, out, dead>>
=============================================================================
