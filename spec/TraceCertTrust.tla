---------------------------- MODULE TraceCertTrust ----------------------------
EXTENDS CertTrust, Json, IOUtils
ObsLog == ndJsonDeserialize(IOEnv.OBS)
VARIABLES l, out
T == INSTANCE TraceFn WITH Viol <- TrustViol, Prop <- "C18", Obs <- ObsLog
TSpec == T!TSpec
=============================================================================
