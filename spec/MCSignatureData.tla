--------------------------- MODULE MCSignatureData ---------------------------
EXTENDS SignatureData
VARIABLE c
Init == c \in {x \in Cases : CaseOK(x)}
Next == UNCHANGED c
Spec == Init /\ [][Next]_c
\* the specified verification satisfies the property, and it is "Good iff unmutated" on the classes of the property
DesignOK == /\ SigViol([c |-> c, r |-> SigSpec(c)]) = {}
            /\ (c.mut = "none" => SigSpec(c).outcomes = <<"good">>)
            /\ (c.mut \in MustFail => SigSpec(c).outcomes = <<"bad">>)
=============================================================================
