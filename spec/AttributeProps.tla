--------------------------- MODULE AttributeProps ---------------------------
(***************************************************************************)
(* L2 monitor for C32 "Attribute reads and writes obey access rights and     *)
(* never crash", over observation records only:                              *)
(*   Write : k acc attr range w -> fail, status, cls (Good / Bad)             *)
(*   Read  : k acc attr range   -> fail, status, cls, value                   *)
(*   both carry before / after = the value a Read of the whole Value          *)
(*   attribute returned right before / right after the call; a Write of Value *)
(*   with an index range also rcls / rvalue = the result of a Read of the     *)
(*   same index range right after it. rk / lo / hi = meaning of the range.    *)
(* Where the statement does not say whether a write has to be accepted (a     *)
(* numeric conversion, a scalar for an array, an empty value ...) both        *)
(* outcomes pass; what is required in every case: a status and no panic,      *)
(* Good only with user write access and never for a value of another type     *)
(* family, Good => the written value is what Read returns, Bad => unchanged.  *)
(* Index ranges select elements of arrays, bytes of ByteStrings and           *)
(* CHARACTERS of Strings (SubSeq).                                            *)
(***************************************************************************)
EXTENDS Integers, Sequences, FiniteSets, SequencesExt, TLC

DTof(k) == CASE k \in {"i32", "i32a"} -> "Int32" [] k \in {"str", "ustr"} -> "String" [] k = "bs" -> "ByteString" [] k = "ba" -> "Byte" [] OTHER -> ""
ArrKind(k) == k \in {"i32a", "ba"}
Fam(t) == CASE t \in {"Int32", "Int16", "Byte"} -> "num" [] t = "String" -> "str" [] t = "ByteString" -> "bytes" [] OTHER -> "none"
\* a ByteString and an array of Byte are interchangeable (Part 4, Write service)
BytePair(t1, a1, t2, a2) == (t1 = "ByteString" /\ ~a1 /\ t2 = "Byte" /\ a2) \/ (t2 = "ByteString" /\ ~a2 /\ t1 = "Byte" /\ a1)
\* the value can under no reading of the statement be written to a variable of kind k
Incompatible(k, w) == Fam(w.t) # "none" /\ Fam(w.t) # Fam(DTof(k)) /\ ~BytePair(w.t, w.a, DTof(k), ArrKind(k))

PRange(e) == [k |-> e.rk, lo |-> e.lo, hi |-> e.hi]      \* the meaning of the index range string that was sent (an input of the case)
PMin(a, b) == IF a < b THEN a ELSE b
Sliceable(v) == v.a \/ v.t \in {"String", "ByteString"}

\* the value a Read returns is the written one, up to the representation the variable keeps it in
SameVal(x, w) == /\ x.v = w.v
                 /\ \/ (x.t = w.t /\ x.a = w.a)
                    \/ BytePair(x.t, x.a, w.t, w.a)
                    \/ (Fam(x.t) = "num" /\ Fam(w.t) = "num" /\ x.a = w.a)

\* a Good write of w with an index range
RangeWritten(b, a, s, w) ==
  IF ~Sliceable(b) \/ ~Sliceable(w) THEN TRUE                                   \* nothing the statement says
  ELSE /\ Len(a.v) = Len(b.v) /\ a.a = b.a /\ Fam(a.t) = Fam(b.t)
       /\ \A j \in 1..Len(b.v) : (j - 1 < s.lo \/ j - 1 > s.hi) => a.v[j] = b.v[j]
       /\ (Len(w.v) = s.hi - s.lo + 1 /\ s.hi < Len(b.v)) => SubSeq(a.v, s.lo + 1, s.hi + 1) = w.v

\* the Read of the same range after a Good index range write
RangeReadBack(rcls, rv, w) ==
  LET n == PMin(Len(rv.v), Len(w.v))
  IN rcls = "Good" /\ n >= 1 /\ SubSeq(rv.v, 1, n) = SubSeq(w.v, 1, n)

WriteViol(e) ==
  LET s == PRange(e)
      good == e.cls = "Good"
  IN (IF good /\ e.acc # "rw" THEN {"good-write-without-user-write-access"} ELSE {})
     \cup (IF good /\ e.attr = "Value" /\ Incompatible(e.k, e.w) THEN {"good-write-of-a-value-of-another-type"} ELSE {})
     \cup (IF ~good /\ e.after # e.before THEN {"rejected-write-changed-the-value"} ELSE {})
     \cup (IF good /\ e.attr = "Value" /\ s.k = "none" /\ e.w.t # "None" /\ ~SameVal(e.after, e.w)
           THEN {"good-write-not-observed-by-read"} ELSE {})
     \cup (IF good /\ e.attr = "Value" /\ s.k = "one" /\ ~RangeWritten(e.before, e.after, s, e.w)
           THEN {"good-index-range-write-not-observed-by-read"} ELSE {})
     \* ... and by a Read of the same index range: it succeeds and returns the written elements (as many as both have)
     \cup (IF good /\ e.attr = "Value" /\ s.k = "one" /\ e.w.t \notin {"None", "Empty"} /\ ~RangeReadBack(e.rcls, e.rvalue, e.w)
           THEN {"good-index-range-write-not-observed-by-read-of-the-same-range"} ELSE {})

ReadViol(e) ==
  LET s == PRange(e)
      good == e.cls = "Good"
      b == e.before
      n == Len(b.v)
  IN IF e.attr # "Value" THEN {}
     ELSE (IF good /\ s.k = "none" /\ e.value # b THEN {"read-differs-from-the-value"} ELSE {})
          \cup (IF s.k = "one" /\ Sliceable(b) /\ s.lo < n
                THEN (IF ~good THEN {"index-range-read-of-existing-elements-failed"}
                      ELSE IF ~(e.value.v = SubSeq(b.v, s.lo + 1, PMin(s.hi + 1, n)) /\ e.value.t = b.t)
                      THEN {"index-range-read-differs-from-the-elements-of-the-value"} ELSE {})
                ELSE {})

M32Init == [val |-> <<>>]
Key(e) == e.k \o "-" \o e.acc
Mon32Step(g, e) ==
  LET known == Key(e) \in DOMAIN g.val
      v == IF e.fail # "none" THEN {"fail:" \o e.site}
           ELSE (IF e.status \in {"", "?"} \/ e.cls \notin {"Good", "Bad"} THEN {"no-status-returned"} ELSE {})
                \cup (IF known /\ g.val[Key(e)] # e.before THEN {"value-changed-without-a-write"} ELSE {})
                \cup (IF e.ev = "Write" THEN WriteViol(e) ELSE IF e.ev = "Read" THEN ReadViol(e) ELSE {})
  IN [g |-> [val |-> [x \in DOMAIN g.val \cup {Key(e)} |-> IF x = Key(e) THEN e.after ELSE g.val[x]]], viol |-> v]
=============================================================================
