------------------------------ MODULE TraceOps ------------------------------
(* judges every real where-clause evaluation with the predicate of Operators *)
EXTENDS Operators, Json, IOUtils
ObsLog == ndJsonDeserialize(IOEnv.OBS)
VARIABLES l, out
OpsTraceViol(e) == OpsViol(e.c.els, e.r)
T == INSTANCE TraceFn WITH Viol <- OpsTraceViol, Prop <- "C39", Obs <- ObsLog
TSpec == T!TSpec
=============================================================================
