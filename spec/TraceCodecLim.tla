---------------------------- MODULE TraceCodecLim ----------------------------
(* C03 judge: e.c = the case without its byte recipe, e.r = [out in ok|more|err|panic, site, used (bytes the decoder    *)
(* took from the stream), peak (bytes allocated), M].  "more" = the framing layer asks for the rest of the frame.       *)
EXTENDS CodecLim, Json, IOUtils
ObsLog == ndJsonDeserialize(IOEnv.OBS)

At(x) == x.con \o "@" \o x.pos
LimViol(e) ==
  LET x == e.c  r == e.r  acc == Acc(x) IN
  IF r.out = "panic" THEN {"fail:" \o r.site}
  ELSE IF x.con = "chunk"
  THEN (IF acc /\ r.out = "err" THEN {"rejected-within-limit:" \o At(x)} ELSE {})
       \cup (IF ~acc /\ r.out = "ok" THEN {"accepted-over-limit:" \o At(x)} ELSE {})
       \cup (IF ~acc /\ r.out = "more" THEN {"body-awaited-over-limit:" \o At(x)} ELSE {})
       \cup (IF ~acc /\ r.used > x.hdr THEN {"body-read-before-rejection:" \o At(x)} ELSE {})
       \cup (IF ~acc /\ r.peak >= 1048576 THEN {"allocated-before-limit-check:" \o At(x)} ELSE {})
  ELSE (IF acc /\ r.out = "err" THEN {"rejected-within-limit:" \o At(x)} ELSE {})
       \cup (IF ~acc /\ r.out # "err" THEN {"accepted-over-limit:" \o At(x)} ELSE {})
       \cup (IF x.big /\ r.peak >= 1073741824 THEN {"allocated-before-limit-check:" \o At(x)} ELSE {})

VARIABLES l, out
T == INSTANCE TraceFn WITH Viol <- LimViol, Prop <- "C03", Obs <- ObsLog
TSpec == T!TSpec
=============================================================================
