------------------------- MODULE TraceClientTransport -------------------------
(* Judge: the observation records written by the harness (one per call made on *)
(* the real TransportState / Request) are fed through the L2 monitor of        *)
(* ClientTransportProps.tla, one TLC state per record; i = 1 starts a case.    *)
EXTENDS Integers, Sequences, FiniteSets, SequencesExt, TLC, Json, IOUtils

MP == INSTANCE ClientTransportProps

Obs == ndJsonDeserialize(IOEnv.OBS)

VARIABLES l, mon, out, dead

TInit == l = 1 /\ mon = MP!M35Init /\ out = <<>> /\ dead = FALSE

TNext ==
  \/ /\ l <= Len(Obs)
     /\ LET e == Obs[l]
            g == IF e.i = 1 THEN MP!M35Init ELSE mon
            dd == IF e.i = 1 THEN FALSE ELSE dead
            \* a step of the real code that did not return is not judged (the statement does not mention panics;
            \* it is reported as drift) and ends the judgement of the case
            r == IF e.fail # "none" THEN [g |-> g, viol |-> {}] ELSE MP!Mon35Step(g, e)
            s == SetToSeq(r.viol)
        IN /\ mon' = r.g
           /\ out' = IF dd THEN out ELSE out \o [j \in 1..Len(s) |-> [case |-> e.case, i |-> e.i, prop |-> "C35", clause |-> s[j]]]
           \* after the first violation in a case the rest of the case is not judged
           /\ dead' = (dd \/ r.viol # {} \/ e.fail # "none")
     /\ l' = l + 1
  \/ /\ l = Len(Obs) + 1
     /\ ndJsonSerialize(IOEnv.VERDICT, out)
     /\ l' = l + 1
     /\ UNCHANGED <<mon, out, dead>>

TSpec == TInit /\ [][TNext]_<<l, mon, out, dead>>
=============================================================================
