------------------------------ MODULE GenRevise ------------------------------
EXTENDS MCRevise, Json
Emit == PrintT(<<"CASE", ToJson([c |-> c, exp |-> IF c.kind = "sub" THEN RevSub(c) ELSE RevItem(c)])>>)
=============================================================================
